"""B10 — fact-level perturbations (thorough tier): the rules of a property are re-evaluated on copies of the fact base
in which ONE construct of an analysed body has been broken (a comparison flipped, a call to a crate-local function or
a callback dropped, a field write removed). This exercises the matchers of the rules on every thorough run: a rule set
that does not notice any of the perturbations of the code it claims to analyse is blind. Perturbed facts are never
executed — the rules simply read a different program.

Reported in the evidence: perturbations generated / detected per operator, and the `canaries` — perturbations that the
rules are known to detect (found during development); a canary that exists in the current tree but is no longer
detected is reported as a SELFTEST violation (the checker lost sight of something it used to see)."""
import copy
import hashlib
import json

from . import mirlib as M
from .core import Ctx, violation_key, short_fn

FLIP = {'Lt': 'Ge', 'Le': 'Gt', 'Gt': 'Le', 'Ge': 'Lt'}


def sites(body_raw, name):
    """[(op, ordinal-key, (bb, idx))] perturbation sites of one body, in a deterministic order"""
    out = []
    counts = {}
    def key(op, what):
        k = (op, what)
        counts[k] = counts.get(k, 0) + 1
        return '%s:%s#%d' % (op, what, counts[k] - 1)
    for bi, blk in enumerate(body_raw['blocks']):
        if blk['cleanup']:
            continue
        for si, s in enumerate(blk['stmts']):
            if s['k'] != 'assign':
                continue
            rv = s['rv']
            if rv['k'] == 'bin' and rv['op'] in FLIP:
                out.append(('flip', key('flip', rv['op']), (bi, si)))
            pl = s['place']
            if pl['p'] and isinstance(pl['p'][-1], dict) and 'f' in pl['p'][-1] and not s['span'].get('exp', '') in ('vec',):
                out.append(('dropwrite', key('dropwrite', pl['p'][-1]['name']), (bi, si)))
        t = blk['term']
        if t and t['k'] == 'call' and t.get('target') is not None:
            c = t.get('callee') or ''
            if c.startswith(('implementation::', 'abstraction::', '<implementation::', '<abstraction::')) or 'parking_lot' in c or 'Condvar' in c:
                out.append(('dropcall', key('dropcall', c.split('::')[-1]), (bi, len(blk['stmts']))))
    return out


def apply(body_raw, op, pt):
    b = copy.deepcopy(body_raw)
    (bi, si) = pt
    blk = b['blocks'][bi]
    if op == 'flip':
        rv = blk['stmts'][si]['rv']
        rv['op'] = FLIP[rv['op']]
    elif op == 'dropwrite':
        blk['stmts'][si] = {'k': 'nop', 'place': blk['stmts'][si]['place']}
    elif op == 'dropcall':
        t = blk['term']
        blk['term'] = {'k': 'goto', 'target': t['target'], 'span': t['span']}
    return b


def scope_hash(doc, bodies):
    """identity of the analysed code: the canaries are a regression test of the CHECKER, so they are only enforced on the very
    code they were recorded on (any edit of an analysed body, even a benign one, renumbers the perturbation sites)"""
    h = hashlib.sha1()
    for name in sorted(bodies):
        raw = doc['bodies'].get(name)
        if raw is not None:
            h.update(name.encode())
            h.update(json.dumps(raw, sort_keys=True).encode())
    return h.hexdigest()[:16]


def run(doc, rule_fn, prop, canaries=None, cap=400, scope=None):
    F0 = M.Facts(doc)
    ctx0 = Ctx(F0, 'dev', prop, 'thorough')
    rule_fn(ctx0)
    base = set(violation_key(prop, r) for r in ctx0.results if r['verdict'] == 'VIOLATION')
    bodies = sorted(ctx0.analysed_bodies)
    cur_scope = scope_hash(doc, bodies)
    skipped = None
    if canaries and scope is not None and scope != cur_scope:
        skipped = 'the analysed bodies differ from the tree the canaries were recorded on (recorded %s, now %s): canaries not enforced' % (scope, cur_scope)
        canaries = []
    gen = []
    for name in bodies:
        raw = doc['bodies'].get(name)
        if raw is None:
            continue
        for (op, k, pt) in sites(raw, name):
            gen.append((name, op, k, pt))
    # deterministic thinning when there are too many
    total_sites = len(gen)
    if len(gen) > cap:
        step = len(gen) / float(cap)
        gen = [gen[int(i * step)] for i in range(cap)]
    want = set(canaries or [])
    present = set('%s|%s' % (short_fn(n), k) for (n, op, k, pt) in gen)
    # canaries are always evaluated, even when thinned out
    allsites = {}
    for name in bodies:
        raw = doc['bodies'].get(name)
        if raw is None:
            continue
        for (op, k, pt) in sites(raw, name):
            allsites['%s|%s' % (short_fn(name), k)] = (name, op, k, pt)
    for c in want:
        if c in allsites and c not in present:
            gen.append(allsites[c])
    detected = {}
    by_op = {}
    killed_keys = []
    missed_keys = []
    for (name, op, k, pt) in gen:
        raw = doc['bodies'][name]
        doc2 = dict(doc)
        doc2['bodies'] = dict(doc['bodies'])
        doc2['bodies'][name] = apply(raw, op, pt)
        F = M.Facts(doc2)
        ctx = Ctx(F, 'dev', prop, 'thorough')
        try:
            rule_fn(ctx)
            keys = set(violation_key(prop, r) for r in ctx.results if r['verdict'] == 'VIOLATION')
        except Exception:
            keys = {'crash'}
        new = keys - base
        ident = '%s|%s' % (short_fn(name), k)
        o = by_op.setdefault(op, [0, 0])
        o[0] += 1
        if new:
            o[1] += 1
            killed_keys.append(ident)
        else:
            missed_keys.append(ident)
    missing_canaries = sorted(c for c in want if c in allsites and c not in killed_keys)
    absent = sorted(c for c in want if c not in allsites)
    return {
        'scope': cur_scope,
        'canaries_skipped': skipped,
        'sites_in_analysed_bodies': total_sites,
        'generated': len(gen),
        'detected': len(killed_keys),
        'by_operator': {k: {'generated': v[0], 'detected': v[1]} for k, v in by_op.items()},
        'canaries': len(want),
        'canaries_detected': len([c for c in want if c in killed_keys]),
        'canaries_absent_from_tree': absent,
        'missed': missing_canaries,
        'detected_sample': killed_keys[:40],
        'detected_all': killed_keys,
        'undetected_sample': missed_keys[:40],
        'note': 'an undetected perturbation is not a defect of ddo nor necessarily of the rules (many perturbed constructs are irrelevant to the property); '
                'only a canary that is present and no longer detected fails the self-test',
    }
