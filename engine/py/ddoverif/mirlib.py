"""E2 — primitives over the extracted MIR fact base.

Bodies, CFG (normal edges only: a panic in callbacks is an assumption, not a path), point-level
reachability with edge cuts, reaching definitions, origin terms (provenance), guard literals,
path enumeration with literal consistency, call graph and units (function + its closures).

Terms are nested tuples (hashable):
  ('param', body, i, name)          i-th argument of `body` (0-based; 0 is self / closure env)
  ('upvar', body, i, name)          captured variable of a closure that could not be resolved in the parent
  ('const', value, named|None, ty)  integer / bool / other constant
  ('cparam', name)                  const generic parameter
  ('fn', path)                      function item
  ('field', base, name, adt|None)
  ('index', base, idx)
  ('variant', base, name)           downcast
  ('discr', base)
  ('bin', op, a, b)  ('un', op, a)  ('cast', ty, a)
  ('add', (a, b)) ('sub', a, b) ('min', (..)) ('max', (..))     normalised arithmetic
  ('call', callee, (args..), site)  site = (body, bb) for effectful calls, None for pure ones
  ('aggr', adt, variant, ((field, term), ..))   ('tuple', (..))  ('closure', name, (..))  ('repeat', t, n)
  ('upd', base, field, value)       struct value with one field overwritten
  ('var', body, local, name)        multiply-assigned local whose reaching definition is not unique here
  ('phi', (t1, t2, ..))             several reaching definitions, all resolved
  ('unknown', why)
"""
import sys
from collections import defaultdict, deque

from . import pp

# ---------------------------------------------------------------------------------------------
# tables of library functions the origin analysis looks through
# ---------------------------------------------------------------------------------------------
TRANSPARENT = {  # callee -> index of the forwarded argument
    'std::ops::Deref::deref': 0, 'std::ops::DerefMut::deref_mut': 0,
    'std::convert::AsRef::as_ref': 0, 'std::convert::AsMut::as_mut': 0,
    'std::borrow::Borrow::borrow': 0, 'std::borrow::BorrowMut::borrow_mut': 0,
    'std::clone::Clone::clone': 0, 'std::borrow::ToOwned::to_owned': 0,
    'std::option::Option::<T>::as_ref': 0, 'std::option::Option::<T>::as_mut': 0,
    'std::option::Option::<T>::as_deref': 0, 'std::option::Option::<T>::as_deref_mut': 0,
    'std::option::Option::<&T>::copied': 0, 'std::option::Option::<&T>::cloned': 0,
    'std::option::Option::<&mut T>::copied': 0, 'std::option::Option::<&mut T>::cloned': 0,
    'std::convert::Into::into': 0, 'std::convert::From::from': 0,
    'std::sync::Arc::<T>::new': 0, 'std::boxed::Box::<T>::new': 0,
    'std::sync::Arc::<T, A>::clone': 0,
    'std::iter::IntoIterator::into_iter': 0,
    'std::mem::take': 0,
    'std::slice::<impl [T]>::iter': 0, 'std::slice::<impl [T]>::iter_mut': 0,
    'std::vec::Vec::<T, A>::as_slice': 0, 'std::vec::Vec::<T, A>::as_mut_slice': 0,
}
INDEX_CALLS = {'std::ops::Index::index', 'std::ops::IndexMut::index_mut'}
UNWRAP_CALLS = {'std::option::Option::<T>::unwrap': 'Some', 'std::option::Option::<T>::expect': 'Some',
                'std::result::Result::<T, E>::unwrap': 'Ok', 'std::result::Result::<T, E>::expect': 'Ok'}
ADD_CALLS = ('saturating_add', 'wrapping_add', 'unchecked_add')
SUB_CALLS = ('saturating_sub', 'wrapping_sub', 'unchecked_sub')
MIN_CALLS = {'std::cmp::Ord::min', 'std::cmp::min'}
MAX_CALLS = {'std::cmp::Ord::max', 'std::cmp::max'}
INT_TYS = ('isize', 'usize', 'i8', 'i16', 'i32', 'i64', 'i128', 'u8', 'u16', 'u32', 'u64', 'u128')
# calls without side effects whose result only depends on their arguments (no call-site tag in the term)
PURE_PREFIXES = ('core::num::', 'std::cmp::', 'std::option::Option::<T>::is_', 'std::option::Option::<T>::unwrap_or',
                 'std::option::Option::<T>::map', 'std::option::Option::<T>::and', 'std::option::Option::<T>::or',
                 'std::cmp::Ordering::', 'implementation::mdd::node_flags::NodeFlags::is_',
                 'implementation::mdd::node_flags::NodeFlags::test', 'implementation::mdd::node_flags::NodeFlags::new')
STD_ENUMS = {
    'std::option::Option': [('None', 0), ('Some', 1)],
    'std::result::Result': [('Ok', 0), ('Err', 1)],
    'std::cmp::Ordering': [('Less', -1), ('Equal', 0), ('Greater', 1)],
    'std::ops::ControlFlow': [('Continue', 0), ('Break', 1)],
}
VARIANT_TESTS = {'std::option::Option::<T>::is_some': frozenset(['Some']), 'std::option::Option::<T>::is_none': frozenset(['None']),
                 'std::result::Result::<T, E>::is_ok': frozenset(['Ok']), 'std::result::Result::<T, E>::is_err': frozenset(['Err']),
                 # Ordering predicates: `c.is_gt()` is `c == Greater` is `matches!(c, Greater)`
                 'std::cmp::Ordering::is_gt': frozenset(['Greater']), 'std::cmp::Ordering::is_lt': frozenset(['Less']),
                 'std::cmp::Ordering::is_eq': frozenset(['Equal']), 'std::cmp::Ordering::is_ne': frozenset(['Less', 'Greater']),
                 'std::cmp::Ordering::is_ge': frozenset(['Greater', 'Equal']), 'std::cmp::Ordering::is_le': frozenset(['Less', 'Equal'])}
UNIVERSES = [frozenset(n for (n, _) in vs) for vs in STD_ENUMS.values()]
SOME = frozenset(['Some'])
OPTION = 'std::option::Option'


def complement(names):
    """complement of a set of variant names inside the std enum they belong to (None if unknown)"""
    for u in UNIVERSES:
        if names and names <= u:
            return u - names
    return None


def mk_some(x):
    return ('aggr', OPTION, 'Some', (('0', x),))


MK_NONE = ('aggr', OPTION, 'None', ())


CMP_OPS = {'Lt': '<', 'Le': '<=', 'Gt': '>', 'Ge': '>=', 'Eq': '==', 'Ne': '!='}
CMP_SETS = {'Lt': frozenset('<'), 'Le': frozenset('<='), 'Gt': frozenset('>'), 'Ge': frozenset('>='),
            'Eq': frozenset('='), 'Ne': frozenset('<>')}
PARTIALORD_CALLS = {'std::cmp::PartialOrd::lt': 'Lt', 'std::cmp::PartialOrd::le': 'Le', 'std::cmp::PartialOrd::gt': 'Gt',
                    'std::cmp::PartialOrd::ge': 'Ge', 'std::cmp::PartialEq::eq': 'Eq', 'std::cmp::PartialEq::ne': 'Ne'}


def is_pure(callee):
    if callee is None:
        return False
    if callee in MIN_CALLS or callee in MAX_CALLS or callee in PARTIALORD_CALLS:
        return True
    if callee.startswith('core::num::') or callee.startswith('std::cmp::Ordering::'):
        return True
    last = callee.split('::')[-1]
    if callee.startswith('implementation::mdd::node_flags::NodeFlags::') and (last.startswith('is_') or last in ('test', 'new', 'new_exact', 'new_relaxed')):
        return True
    if callee.startswith('std::option::Option::<T>::') and last in ('is_some', 'is_none', 'unwrap_or', 'map', 'map_or', 'min', 'max', 'unwrap_or_default'):
        return True
    if callee == 'std::cmp::Ord::cmp' or callee == 'std::cmp::PartialOrd::partial_cmp':
        return True
    return False


# ---------------------------------------------------------------------------------------------
class Body:
    def __init__(self, name, raw, facts):
        self.name = name
        self.raw = raw
        self.facts = facts
        self.kind = raw['kind']
        self.blocks = raw['blocks']
        self.nb = len(self.blocks)
        self.arg_count = raw['arg_count']
        self.fn_name = raw.get('name')
        self.parent = raw.get('parent')
        self.impl_self_adt = raw.get('impl_self_adt')
        self.impl_trait = raw.get('impl_trait')
        self.trait_default = raw.get('trait_default')
        self.root = raw.get('root')
        self.span = raw.get('span')
        self.local_names = {}
        for d in raw['debug']:
            v = d['v']
            if 'l' in v and not v['p']:
                self.local_names.setdefault(v['l'], d['name'])
        self._succ = None
        self._preds = None
        self._defs = None
        self._origin = None

    # ---- structure -------------------------------------------------------------------------
    def term(self, bb):
        return self.blocks[bb]['term']

    def stmts(self, bb):
        return self.blocks[bb]['stmts']

    def is_cleanup(self, bb):
        return self.blocks[bb]['cleanup']

    def local_ty(self, l):
        return self.raw['locals'][l]['ty']

    def local_name(self, l):
        return self.local_names.get(l)

    def succ(self, bb):
        """normal (non-unwind) successors as (target, label); label = switch value | 'otherwise' | None"""
        if self._succ is None:
            self._succ = []
            for b in self.blocks:
                t = b['term']
                out = []
                if t is None:
                    pass
                elif t['k'] == 'goto':
                    out.append((t['target'], None))
                elif t['k'] == 'switch':
                    for v, tb in t['targets']:
                        out.append((tb, v))
                    out.append((t['otherwise'], 'otherwise'))
                elif t['k'] in ('call', 'drop', 'assert'):
                    if t.get('target') is not None:
                        out.append((t['target'], None))
                self._succ.append(out)
            self._thread_jumps()
        return self._succ[bb]

    def _thread_jumps(self):
        """Jump threading for materialised booleans (`matches!`, `a && b` used as a value): a block that assigns a
        constant bool to a local and jumps (through empty blocks) to a statement-free switch on that local continues
        directly at the matching target. Only infeasible paths are removed."""
        def pure_switch(b):
            blk = self.blocks[b]
            t = blk['term']
            if blk['stmts'] or not t or t['k'] != 'switch' or t.get('dty') != 'bool':
                return None
            d = t['discr']
            if 'place' not in d or d['place']['p']:
                return None
            return d['place']['l']
        for P in range(self.nb):
            blk = self.blocks[P]
            t = blk['term']
            if not t or t['k'] != 'goto':
                continue
            S = t['target']
            hops = 0
            while hops < 4 and not self.blocks[S]['stmts'] and self.blocks[S]['term'] and self.blocks[S]['term']['k'] == 'goto':
                S = self.blocks[S]['term']['target']
                hops += 1
            x = pure_switch(S)
            if x is None:
                continue
            val = None
            for s in blk['stmts']:
                if s['k'] == 'assign' and s['place']['l'] == x and not s['place']['p']:
                    rv = s['rv']
                    if rv['k'] == 'use' and 'const' in rv['op'] and 'bool' in rv['op']['const']:
                        val = rv['op']['const']['bool']
                    else:
                        val = None
            if val is None:
                continue
            st = self.blocks[S]['term']
            tgt = None
            for v, tb in st['targets']:
                if (v != 0) == val:
                    tgt = tb
            if tgt is None:
                tgt = st['otherwise']
            self._succ[P] = [(tgt, None)]

    def preds(self, bb):
        if self._preds is None:
            self._preds = defaultdict(list)
            live = self.live_blocks()
            for b in range(self.nb):
                if self.is_cleanup(b) or b not in live:
                    continue
                for (t, lab) in self.succ(b):
                    self._preds[t].append((b, lab))
        return self._preds[bb]

    def live_blocks(self):
        """blocks reachable from entry along normal edges"""
        if getattr(self, '_live', None) is not None:
            return self._live
        seen = {0}
        dq = deque([0])
        while dq:
            b = dq.popleft()
            for (t, _) in self.succ(b):
                if t not in seen and not self.is_cleanup(t):
                    seen.add(t)
                    dq.append(t)
        self._live = seen
        return seen

    def return_blocks(self):
        live = self.live_blocks()
        return [b for b in live if self.term(b) and self.term(b)['k'] == 'return']

    def calls(self, pred=None):
        """[(bb, term)] of live call terminators, optionally filtered by pred(term)"""
        out = []
        for b in sorted(self.live_blocks()):
            t = self.term(b)
            if t and t['k'] == 'call' and (pred is None or pred(t)):
                out.append((b, t))
        return out

    def calls_to(self, *suffixes):
        def p(t):
            c = t.get('callee') or ''
            r = t.get('resolved') or ''
            return any(c == s or c.endswith('::' + s) or r == s or r.endswith('::' + s) for s in suffixes)
        return self.calls(p)

    def assigns(self, pred=None):
        """[(bb, idx, stmt)] of live assign statements"""
        out = []
        for b in sorted(self.live_blocks()):
            for i, s in enumerate(self.stmts(b)):
                if s['k'] == 'assign' and (pred is None or pred(s)):
                    out.append((b, i, s))
        return out

    def field_writes(self, field, adt_suffix=None):
        """assignments whose destination's LAST projection is field `field` (of an ADT ending in adt_suffix)"""
        def p(s):
            pr = s['place']['p']
            if not pr:
                return False
            e = pr[-1]
            return isinstance(e, dict) and e.get('name') == field and 'f' in e and \
                (adt_suffix is None or (e.get('adt') or '').endswith(adt_suffix))
        return self.assigns(p)

    def loc(self, bb, idx=None):
        blk = self.blocks[bb]
        if idx is not None and idx < len(blk['stmts']):
            return pp.loc(blk['stmts'][idx]['span'])
        if blk['term']:
            return pp.loc(blk['term']['span'])
        return '?'

    # ---- reachability ----------------------------------------------------------------------
    def reach(self, starts, cut_edges=(), avoid=(), stop=()):
        """Point-level forward reachability along normal edges.
        starts: iterable of points (bb, idx); idx == len(stmts) is the terminator; the start point itself
                counts as reached, execution continues AFTER it only if it is not in `avoid`.
        cut_edges: set of (src_bb, label) edges that may not be taken.
        avoid: set of points that may not be executed (reaching them ends the path; they are not 'reached').
        stop: points that are reached but not continued through.
        Returns the set of reached points."""
        cut = set(cut_edges)
        avoid = set(avoid)
        stop = set(stop)
        seen = set()
        dq = deque()
        for p in starts:
            if p not in avoid and p not in seen:
                seen.add(p)
                dq.append(p)
        while dq:
            (b, i) = dq.popleft()
            if (b, i) in stop:
                continue
            n = len(self.stmts(b))
            nxt = []
            if i < n:
                nxt.append((b, i + 1))
            else:
                for (t, lab) in self.succ(b):
                    if (b, lab) in cut or self.is_cleanup(t):
                        continue
                    nxt.append((t, 0))
            for p in nxt:
                if p in avoid or p in seen:
                    continue
                seen.add(p)
                dq.append(p)
        return seen

    def term_point(self, bb):
        return (bb, len(self.stmts(bb)))

    def after(self, point):
        """points that follow `point` immediately"""
        (b, i) = point
        if i < len(self.stmts(b)):
            return [(b, i + 1)]
        return [(t, 0) for (t, lab) in self.succ(b) if not self.is_cleanup(t)]

    def back_edges(self):
        """(src, label, dst) edges closing a cycle in a DFS from entry (natural-loop back edges for reducible CFGs)"""
        color = {}
        out = []
        stack = [(0, iter(self.succ(0)))]
        color[0] = 1
        while stack:
            b, it = stack[-1]
            adv = False
            for (t, lab) in it:
                if self.is_cleanup(t):
                    continue
                if color.get(t, 0) == 0:
                    color[t] = 1
                    stack.append((t, iter(self.succ(t))))
                    adv = True
                    break
                elif color[t] == 1:
                    out.append((b, lab, t))
            if not adv:
                color[b] = 2
                stack.pop()
        return out

    # ---- definitions -----------------------------------------------------------------------
    def defs(self):
        """local -> list of (bb, idx, kind, payload); kind in whole|call|partial"""
        if self._defs is None:
            d = defaultdict(list)
            live = self.live_blocks()
            for b in range(self.nb):
                if self.is_cleanup(b) or b not in live:
                    continue
                blk = self.blocks[b]
                for i, s in enumerate(blk['stmts']):
                    if s['k'] != 'assign':
                        continue
                    pl = s['place']
                    if not pl['p']:
                        d[pl['l']].append((b, i, 'whole', s))
                    elif 'deref' not in [e for e in pl['p'] if isinstance(e, str)]:
                        d[pl['l']].append((b, i, 'partial', s))
                t = blk['term']
                if t and t['k'] == 'call':
                    pl = t['dest']
                    if not pl['p']:
                        d[pl['l']].append((b, len(blk['stmts']), 'call', t))
                    elif 'deref' not in [e for e in pl['p'] if isinstance(e, str)]:
                        d[pl['l']].append((b, len(blk['stmts']), 'pcall', t))
            # clobbers: a `&mut local` that escapes into a closure or into a call that may write through it
            for (l, pt) in self._mut_escapes():
                d[l].append((pt[0], pt[1], 'clobber', None))
            self._defs = d
        return self._defs

    NON_ESCAPING = ('lock_api::condvar::Condvar::wait', 'parking_lot::Condvar::wait', 'std::mem::drop',
                    'std::iter::Iterator::next', 'std::iter::DoubleEndedIterator::next_back')

    def _mut_escapes(self):
        """[(local, point)] where the value of `local` may be changed through a mutable borrow that was handed to a
        closure or to a non-transparent call"""
        borrow = {}   # temp -> borrowed local
        for b in range(self.nb):
            if self.is_cleanup(b):
                continue
            for s in self.blocks[b]['stmts']:
                if s['k'] != 'assign' or s['place']['p']:
                    continue
                rv = s['rv']
                if rv['k'] == 'ref' and rv['mut'] and not rv['place']['p']:
                    if 'MutexGuard' in self.raw['locals'][rv['place']['l']]['ty']:
                        continue      # writes go THROUGH a lock guard, its identity (the acquisition) does not change
                    borrow[s['place']['l']] = rv['place']['l']
        changed = True
        while changed:
            changed = False
            for b in range(self.nb):
                if self.is_cleanup(b):
                    continue
                for s in self.blocks[b]['stmts']:
                    if s['k'] != 'assign' or s['place']['p'] or s['place']['l'] in borrow:
                        continue
                    rv = s['rv']
                    src = None
                    if rv['k'] == 'use' and 'place' in rv['op'] and not rv['op']['place']['p']:
                        src = rv['op']['place']['l']
                    elif rv['k'] == 'ref' and rv['mut'] and rv['place']['p'] == ['deref']:
                        src = rv['place']['l']
                    if src is not None and src in borrow:
                        borrow[s['place']['l']] = borrow[src]
                        changed = True
        out = []
        if not borrow:
            return out
        for b in range(self.nb):
            if self.is_cleanup(b):
                continue
            blk = self.blocks[b]
            for i, s in enumerate(blk['stmts']):
                if s['k'] == 'assign' and s['rv']['k'] == 'aggr' and 'closure' in s['rv']:
                    for o in s['rv']['ops']:
                        if 'place' in o and not o['place']['p'] and o['place']['l'] in borrow:
                            out.append((borrow[o['place']['l']], (b, i)))
            t = blk['term']
            if t and t['k'] == 'call':
                c = t.get('callee') or ''
                if c in TRANSPARENT or c in INDEX_CALLS or any(c.startswith(x) or c.endswith(x.split('::', 1)[-1]) for x in self.NON_ESCAPING):
                    continue
                for o in t['args']:
                    if 'place' in o and not o['place']['p'] and o['place']['l'] in borrow:
                        out.append((borrow[o['place']['l']], (b, len(blk['stmts']))))
        return out

    def reaching_defs(self, local, point):
        """definitions of `local` (whole or partial) that may reach `point` (executed strictly before it).
        Returns (list of defs, reaches_entry)"""
        ds = self.defs().get(local, [])
        if not ds:
            return [], True
        by_block = defaultdict(list)
        for d in ds:
            by_block[d[0]].append(d)
        for b in by_block:
            by_block[b].sort(key=lambda d: d[1])
        (b0, i0) = point
        # same block, before the point
        cands = [d for d in by_block.get(b0, []) if d[1] < i0]
        if cands:
            return [cands[-1]], False
        found = []
        entry = False
        seen = set()
        dq = deque()
        if b0 == 0:
            entry = True
        for (p, _) in self.preds(b0):
            if p not in seen:
                seen.add(p)
                dq.append(p)
        while dq:
            b = dq.popleft()
            if b in by_block:
                d = by_block[b][-1]
                if d not in found:
                    found.append(d)
                continue
            if b == 0:
                entry = True
            for (p, _) in self.preds(b):
                if p not in seen:
                    seen.add(p)
                    dq.append(p)
        return found, entry

    def dominators(self):
        """idom-style dominator sets (block -> set of dominating blocks) over live normal edges"""
        if getattr(self, '_dom', None) is None:
            live = sorted(self.live_blocks())
            dom = {b: set(live) for b in live}
            dom[0] = {0}
            changed = True
            while changed:
                changed = False
                for b in live:
                    if b == 0:
                        continue
                    ps = [p for (p, _) in self.preds(b) if p in dom]
                    if not ps:
                        continue
                    new = set.intersection(*[dom[p] for p in ps]) | {b}
                    if new != dom[b]:
                        dom[b] = new
                        changed = True
            self._dom = dom
        return self._dom

    def dominators_from(self, root, removed):
        """dominator sets of the sub-graph reachable from block `root` without passing through block `removed`"""
        cache = self.__dict__.setdefault('_domfrom', {})
        key = (root, removed)
        if key in cache:
            return cache[key]
        live = set()
        dq = deque([root])
        while dq:
            b = dq.popleft()
            if b in live or b in removed or self.is_cleanup(b):
                continue
            live.add(b)
            for (t, _) in self.succ(b):
                dq.append(t)
        order = sorted(live)
        dom = {b: set(order) for b in order}
        dom[root] = {root}
        changed = True
        while changed:
            changed = False
            for b in order:
                if b == root:
                    continue
                ps = [p for (p, _) in self.preds(b) if p in live]
                if not ps:
                    continue
                new = set.intersection(*[dom[p] for p in ps]) | {b}
                if new != dom[b]:
                    dom[b] = new
                    changed = True
        cache[key] = dom
        return dom

    def defs_via_edge(self, local, point, P, lab, removed=()):
        """definitions of `local` that reach `point` along paths that start with the edge (P, lab) and do not come back to P.
        A path on which nothing redefines the local contributes the marker 'atP'. Returns a set (empty: point unreachable)."""
        ds = self.defs().get(local, [])
        by_block = defaultdict(list)
        for d in ds:
            by_block[d[0]].append(d)
        for b in by_block:
            by_block[b].sort(key=lambda d: d[1])
        tgt = [t for (t, l) in self.succ(P) if l == lab]
        if not tgt:
            return set()
        (ub, ui) = point
        state = defaultdict(set)     # block -> set of current defs at block entry
        work = deque()
        for t in tgt:
            if not self.is_cleanup(t):
                state[t].add('atP')
                work.append(t)
        result = set()
        seen_pairs = set()
        while work:
            b = work.popleft()
            for cur in list(state[b]):
                if (b, cur) in seen_pairs:
                    continue
                seen_pairs.add((b, cur))
                out = cur
                if b == ub:
                    before = [d for d in by_block.get(b, []) if d[1] < ui]
                    result.add(before[-1][:3] if before else cur)
                    # the path may continue and come back (loops) but the first arrival is what matters for a join value;
                    # still propagate for completeness
                if b in by_block:
                    out = by_block[b][-1][:3]
                if b == P:
                    continue
                for (t, l) in self.succ(b):
                    if self.is_cleanup(t) or t in removed:
                        continue
                    if out not in state[t]:
                        state[t].add(out)
                        work.append(t)
        return result

    @property
    def origin(self):
        if self._origin is None:
            self._origin = Origin(self)
        return self._origin

    @property
    def origin_sym(self):
        """origin analysis that leaves the captured variables of this closure symbolic (('upvar', closure, index, name))"""
        if getattr(self, '_origin_sym', None) is None:
            self._origin_sym = Origin(self, symbolic_upvars=True)
        return self._origin_sym


# ---------------------------------------------------------------------------------------------
class Facts:
    def __init__(self, doc):
        self.doc = doc
        from . import inline
        raw_bodies, self.inlined = inline.apply(doc)
        # a private helper that was inlined at EVERY call site is dead code for the rules (its statements now live in its callers):
        # who-may-write / who-may-call rules must not see them a second time under the helper's name
        self.absorbed = set()
        cand = set(c for (_, c) in self.inlined if doc['bodies'][c].get('vis') != 'pub')
        if cand:
            still = set()
            for k, b in raw_bodies.items():
                for blk in b['blocks']:
                    t = blk['term']
                    if t and t['k'] == 'call':
                        for key in ('resolved', 'callee'):
                            if t.get(key) in cand and k != t.get(key):
                                still.add(t.get(key))
                    for st in blk['stmts']:
                        # a helper whose address is taken (fn item passed as a value) stays
                        op = st.get('rv', {}).get('op') if st.get('k') == 'assign' else None
                        if isinstance(op, dict) and isinstance(op.get('const'), dict) and op['const'].get('fn') in cand:
                            still.add(op['const']['fn'])
            # a call from another absorbed helper does not keep a helper alive
            live_callers = {}
            for c in cand - still:
                self.absorbed.add(c)
            absorbed_raw = {k: v for k, v in raw_bodies.items() if k in self.absorbed}
            raw_bodies = {k: v for k, v in raw_bodies.items() if k not in self.absorbed}
        from . import thread
        fresh = set(k for k, v in raw_bodies.items() if v is not doc['bodies'].get(k))
        self.threaded = thread.apply(raw_bodies, fresh)
        self.bodies = {k: Body(k, v, self) for k, v in raw_bodies.items()}
        # still addressable by name (a rule may want to look INTO a helper), but not enumerated
        self.absorbed_bodies = {k: Body(k, v, self) for k, v in (absorbed_raw if self.absorbed else {}).items()}
        self.adts = doc['adts']
        self.impls = doc['impls']
        self.consts = doc['consts']
        self.traits = doc.get('traits', {})
        self.children = defaultdict(list)
        for k, b in self.bodies.items():
            if b.parent:
                self.children[b.parent].append(b)
        self._closure_sites = None

    def find(self, adt=None, name=None, trait=None, kind=None):
        """bodies (non-closure) by impl self ADT suffix / item name / implemented trait suffix"""
        out = []
        for b in list(self.bodies.values()) + list(self.absorbed_bodies.values()):
            if b.kind == 'closure':
                continue
            if name is not None and b.fn_name != name:
                continue
            if adt is not None and not (b.impl_self_adt or '').endswith(adt):
                continue
            if trait is not None and not ((b.impl_trait or '').endswith(trait) or (b.trait_default or '').endswith(trait)):
                continue
            if kind == 'trait_default' and not b.trait_default:
                continue
            out.append(b)
        return out

    def one(self, adt=None, name=None, trait=None, kind=None):
        r = self.find(adt, name, trait, kind)
        if len(r) != 1:
            return None
        return r[0]

    def unit(self, body):
        """the body and every closure defined (transitively) inside it"""
        out = [body]
        i = 0
        while i < len(out):
            for c in self.children.get(out[i].name, []):
                if c not in out:
                    out.append(c)
            # closures created by statements of this body (they may come from an inlined helper)
            for (bb, j, s) in out[i].assigns(lambda s: s['rv']['k'] == 'aggr' and 'closure' in s['rv']):
                c = self.bodies.get(s['rv']['closure'])
                if c is not None and c not in out:
                    out.append(c)
            i += 1
        return out

    def adt(self, suffix):
        for k, v in self.adts.items():
            if k == suffix or k.endswith('::' + suffix):
                return k, v
        return None, None

    def closure_site(self, closure_name):
        """(parent body, bb, idx, stmt) of the Aggregate that creates the closure"""
        if self._closure_sites is None:
            self._closure_sites = {}
            allsites = defaultdict(list)
            for b in self.bodies.values():
                for (bb, i, s) in b.assigns(lambda s: s['rv']['k'] == 'aggr' and 'closure' in s['rv']):
                    allsites[s['rv']['closure']].append((b, bb, i, s))
            for cn, sites in allsites.items():
                cb = self.bodies.get(cn)
                home = [x for x in sites if cb is not None and x[0].name == cb.parent]
                away = [x for x in sites if x not in home]
                # a closure written in a helper that was inlined at exactly ONE place is resolved in that caller (its captures then
                # denote the caller's values); with several copies the body it was written in is the only unambiguous context
                if len(away) == 1 and home and (home[0][0].name, ) and any(c == home[0][0].name for (_, c) in self.inlined):
                    self._closure_sites[cn] = away[0]
                elif home:
                    self._closure_sites[cn] = home[0]
                else:
                    self._closure_sites[cn] = sites[0]
        return self._closure_sites.get(closure_name)

    # call graph inside the crate -------------------------------------------------------------
    def callees(self, body):
        """crate-local bodies directly called from `body` (closures created in it are counted as called)"""
        out = []
        for (bb, t) in body.calls():
            for key in ('resolved', 'callee'):
                c = t.get(key)
                if c and c in self.bodies:
                    out.append(self.bodies[c])
                    break
            else:
                # trait method call on a generic / dyn receiver: every impl in the crate
                if t.get('trait') and t.get('callee'):
                    m = t['callee'].split('::')[-1]
                    for imp in self.impls:
                        if imp['trait'] == t['trait'] and m in imp['items'] and imp['items'][m] in self.bodies:
                            out.append(self.bodies[imp['items'][m]])
                    if t['callee'] in self.bodies:  # default method
                        out.append(self.bodies[t['callee']])
        out.extend(self.children.get(body.name, []))
        return out

    def reachable_bodies(self, roots, stop=lambda b: False):
        seen = {}
        dq = deque()
        for r in roots:
            seen[r.name] = r
            dq.append(r)
        while dq:
            b = dq.popleft()
            if stop(b):
                continue
            for c in self.callees(b):
                if c.name not in seen:
                    seen[c.name] = c
                    dq.append(c)
        return list(seen.values())


# ---------------------------------------------------------------------------------------------
# origin terms
# ---------------------------------------------------------------------------------------------
def _sort_key(t):
    return repr(t)


def mk_add(a, b):
    return ('add', tuple(sorted((a, b), key=_sort_key)))


def mk_minmax(kind, a, b):
    items = []
    for x in (a, b):
        if isinstance(x, tuple) and x and x[0] == kind:
            items.extend(x[1])
        else:
            items.append(x)
    return (kind, tuple(sorted(set(items), key=_sort_key)))


def strip_casts(t):
    while isinstance(t, tuple) and t and t[0] == 'cast':
        t = t[2]
    return t


class Origin:
    MAXDEPTH = 80

    def __init__(self, body, symbolic_upvars=False):
        self.body = body
        self.facts = body.facts
        self.memo = {}
        self.stack = set()
        self.symbolic_upvars = symbolic_upvars

    # -- public ---------------------------------------------------------------------------
    def operand(self, op, point, depth=0):
        if 'place' in op:
            return self.place(op['place'], point, depth)
        if 'const' in op:
            return self.const(op['const'], point)
        return ('unknown', 'operand')

    def const(self, c, point=None):
        if 'fn' in c:
            return ('fn', c['fn'])
        if 'param' in c:
            return ('cparam', c['param'])
        if 'promoted' in c:
            pi = c['promoted']
            pb = self.body.raw.get('promoted', [])
            if pi < len(pb):
                return self._promoted(pb[pi])
            return ('unknown', 'promoted')
        if c.get('named') and 'int' not in c and 'bool' not in c:
            # a named structured constant: the aggregate its initialiser builds
            info = self.facts.consts.get(c['named']) if isinstance(self.facts.consts, dict) else None
            if info and 'body' in info:
                key = ('const', c['named'])
                if key not in self.stack:
                    self.stack.add(key)
                    try:
                        v = self._promoted(info['body'])
                    finally:
                        self.stack.discard(key)
                    if not contains(v, lambda x: isinstance(x, tuple) and x and x[0] == 'unknown'):
                        return v
        if 'int' in c:
            return ('const', c['int'], c.get('named'), c['ty'])
        if 'bool' in c:
            return ('const', bool(c['bool']), None, 'bool')
        if 'closure' in c:
            return ('closure', c['closure'], ())
        return ('const', c.get('dbg', c.get('float')), c.get('named'), c['ty'])

    def _promoted(self, praw):
        # a promoted body is straight-line: evaluate its _0
        pb = Body(self.body.name + '::promoted', dict(praw, kind='promoted', name=None, parent=None, debug=praw.get('debug', [])), self.facts)
        rets = pb.return_blocks()
        if not rets:
            return ('unknown', 'promoted')
        return pb.origin.place({'l': 0, 'p': []}, pb.term_point(rets[0]))

    def place(self, pl, point, depth=0):
        l = pl['l']
        projs = pl['p']
        # field-sensitive lookup for `local.field...` (no deref first)
        base = None
        rest = projs
        if projs and isinstance(projs[0], dict) and 'f' in projs[0]:
            base = self.local(l, point, depth, field=projs[0]['name'])
            if base is not None:
                rest = projs[1:]
        if base is None:
            base = self.local(l, point, depth)
            rest = projs
        t = base
        for e in rest:
            t = self.project(t, e, point, depth)
        return t

    def project(self, t, e, point, depth=0):
        if e == 'deref':
            return t
        if 'f' in e:
            if isinstance(t, tuple) and t and t[0] == 'env':
                return self.upvar(t[1], e['f'], e['name'])
            return simplify_field(t, e['name'], e.get('adt'))
        if 'idx' in e:
            return ('index', t, self.local(e['idx'], point, depth))
        if 'cidx' in e:
            return ('index', t, ('const', e['cidx'], None, 'usize'))
        if 'dc' in e:
            return simplify_variant(t, e['dc'])
        if 'subslice' in e:
            return ('subslice', t, tuple(e['subslice']))
        return ('unknown', 'proj')

    def upvar(self, closure_name, idx, name):
        """captured variable `idx` of closure `closure_name`, resolved in the body that creates the closure"""
        if self.symbolic_upvars:
            return ('upvar', closure_name, idx, name)
        site = self.facts.closure_site(closure_name)
        if site is None:
            return ('upvar', closure_name, idx, name)
        (pbody, bb, i, s) = site
        ops = s['rv']['ops']
        if idx >= len(ops):
            return ('upvar', closure_name, idx, name)
        o = ops[idx]
        if 'place' in o and not o['place']['p']:
            # `&mut local` captured: the closure may run several times and change it: opaque cell of the parent
            for d in pbody.defs().get(o['place']['l'], []):
                if d[2] == 'whole' and d[3]['rv']['k'] == 'ref' and d[3]['rv']['mut'] and not d[3]['rv']['place']['p']:
                    l = d[3]['rv']['place']['l']
                    if 'MutexGuard' in pbody.raw['locals'][l]['ty']:
                        break
                    return ('var', pbody.name, l, pbody.local_name(l))
        return pbody.origin.operand(o, (bb, i))

    def local(self, l, point, depth=0, field=None):
        """term of local `l` just before `point`. With field=f: term of `l.f` if a more specific definition
        exists (returns None when the caller should project the whole-local term instead)."""
        key = (l, point, field)
        if key in self.memo:
            return self.memo[key]
        if key in self.stack or depth > self.MAXDEPTH:
            return ('var', self.body.name, l, self.body.local_name(l))
        self.stack.add(key)
        try:
            r = self._local(l, point, depth, field)
        finally:
            self.stack.discard(key)
        self.memo[key] = r
        return r

    def _local(self, l, point, depth, field):
        body = self.body
        defs, entry = body.reaching_defs(l, point)
        if field is not None:
            # only interesting if some partial def of exactly this field (or a whole def) reaches; handled below
            pass
        is_arg = 1 <= l <= body.arg_count
        if not defs:
            if is_arg:
                t = self._param(l)
            else:
                t = ('unknown', 'undef _%d' % l)
            return t if field is None else None
        if len(defs) > 1 or (entry and is_arg):
            # several definitions reach: resolve each; identical => that term, otherwise an opaque variable
            ts = []
            for d in defs:
                ts.append(self._def_term(l, d, depth))
            if entry and is_arg:
                ts.append(self._param(l))
            uniq = []
            for t in ts:
                if t not in uniq:
                    uniq.append(t)
            if len(uniq) == 1:
                t = uniq[0]
            else:
                t = self._ite(l, point, defs, entry and is_arg, depth)
                if t is None:
                    t = ('var', body.name, l, body.local_name(l))
            if field is None:
                return t
            return None
        d = defs[0]
        t = self._def_term(l, d, depth)
        if field is None:
            return t
        return None

    def _ite(self, l, point, defs, with_param, depth, via=None, fuel=6):
        """value of a local with several reaching definitions that are selected by switches: ('ite', literal, v1, v2), nested when one
        side of the nearest discriminating switch still has several definitions. Reading: 'at the LAST visit of the switch before this
        point, the edge taken was ...' (definitions are collected along paths that do not come back to the switch).
        via = (P, label): only consider paths that start with that edge and do not come back to P."""
        body = self.body
        if fuel <= 0:
            return None
        removed = frozenset(p_ for (p_, _) in (via or ()))
        if via is None:
            dom = body.dominators()
        else:
            tg = [t for (t, lb_) in body.succ(via[-1][0]) if lb_ == via[-1][1] and not body.is_cleanup(t)]
            if len(tg) != 1:
                return None
            dom = body.dominators_from(tg[0], removed)
        U = point[0]
        if U not in dom:
            return None
        cands = sorted(dom[U], key=lambda b: -len(dom.get(b, ())))   # nearest dominators first
        defset = set(d[:3] for d in defs)
        bykey = dict((d[:3], d) for d in body.defs().get(l, []))
        for P in cands:
            t = body.term(P)
            if not t or t['k'] != 'switch':
                continue
            if P == U and point[1] <= len(body.stmts(P)):
                continue
            if P in removed:
                continue
            groups = {}
            for (tb, lab) in body.succ(P):
                if body.is_cleanup(tb):
                    continue
                R = body.defs_via_edge(l, point, P, lab, removed)
                if R:
                    groups[lab] = frozenset(R)
            if len(groups) < 2:
                continue
            vals = {}
            for lab, R in groups.items():
                vals.setdefault(R, []).append(lab)
            if len(vals) < 2 or len(vals) > 4:
                continue
            if not all((R - {'atP'}) <= defset for R in vals):
                continue
            groups_ = sorted(vals.items(), key=lambda kv: (len(kv[1]), repr(sorted(map(repr, kv[0])))))   # single-edge groups first; the last is the 'else'

            def lit_of(labs):
                if len(labs) == 1:
                    return edge_literal(body, P, labs[0])
                lits = [edge_literal(body, P, lab) for lab in labs]
                if all(x and x[0] == 'in' for x in lits) and len(set(x[1] for x in lits)) == 1:
                    return ('in', lits[0][1], frozenset().union(*[x[2] for x in lits]))
                return None
            lits_ = [lit_of(labs) for (R, labs) in groups_[:-1]]
            if any(x is None for x in lits_):
                continue

            def val(R, labs):
                if len(R) == 1:
                    k = list(R)[0]
                    if k == 'atP':
                        return self.local(l, body.term_point(P), depth + 1)
                    return self._def_term(l, bykey[k], depth + 1)
                if len(labs) != 1:
                    return None
                sub = [d for d in defs if d[:3] in R]
                return self._ite(l, point, sub, with_param, depth + 1, via=tuple(via or ()) + ((P, labs[0]),), fuel=fuel - 1)
            vs_ = []
            for (R, labs) in groups_:
                v_ = val(R, labs)
                if v_ is None:
                    return None
                vs_.append(v_)
            out = vs_[-1]
            for lit_, v_ in zip(reversed(lits_), reversed(vs_[:-1])):
                out = mk_ite(lit_, v_, out)
            return out
        return None

    def _param(self, l):
        body = self.body
        if body.kind == 'closure' and l == 1:
            return ('env', body.name)
        t = ('param', body.name, l - 1, body.local_name(l))
        # a `&mut` parameter of a private function that receives, at EVERY call site, a borrow of one and the same field (`fn f(best_lb: &mut
        # isize, ..)` called as `f(&mut self.best_lb, ..)`: a method turned into an associated function with partial borrows) IS that field
        # ... and a scalar parameter that receives, at every call site, the value of one and the same field which the callee never writes
        # (`enqueue_cutset(ub, self.best_lb)`: a value threaded through a parameter instead of being re-read) is that field's value
        is_anchor = body.fn_name in __import__('ddoverif.inline', fromlist=['SLOTS']).SLOTS
        by_ref = (body.local_ty(l) or '').startswith('&mut ') and is_anchor
        # (anchors only: a non-anchor helper is inlined into its callers, where the binding of its parameters is explicit)
        scalar = (body.local_ty(l) or '') in ('isize', 'usize', 'bool', 'i64', 'u64', 'i32', 'u32') and body.fn_name in __import__('ddoverif.inline', fromlist=['SLOTS']).SLOTS
        if l >= 1 and l <= body.arg_count and body.kind != 'closure' and body.raw.get('vis') != 'pub' and not body.impl_trait and (by_ref or scalar) \
                and (body.local_name(l) or '') != 'self':
            memo = self.facts.__dict__.setdefault('_field_params', {})
            key = (body.name, l)
            if key not in memo:
                memo[key] = None
                seen = []
                for cb in self.facts.bodies.values():
                    if cb.kind == 'closure' and cb.name.startswith(body.name):
                        continue
                    for (bb, ct) in cb.calls():
                        if (ct.get('callee') == body.name or ct.get('resolved') == body.name) and l - 1 < len(ct['args']):
                            seen.append(cb.origin.operand(ct['args'][l - 1], cb.term_point(bb)))
                if seen and all(x == seen[0] for x in seen) and is_field(seen[0], seen[0][2] if isinstance(seen[0], tuple) and len(seen[0]) > 2 else None) \
                        and is_param(field_base(seen[0]), index=0) and not (field_base(seen[0])[1] in self.facts.bodies and self.facts.bodies[field_base(seen[0])[1]].kind == 'closure'):
                    if by_ref or (seen[0][2], seen[0][3]) not in _fields_written_by(body):
                        memo[key] = seen[0]
            if memo[key] is not None:
                return memo[key]
        return t

    def _def_term(self, l, d, depth):
        (b, i, kind, payload) = d
        point = (b, i)
        if kind == 'whole':
            return self.rvalue(payload['rv'], point, depth + 1)
        if kind == 'call':
            return self.call(payload, point, depth + 1)
        if kind == 'clobber':
            return ('var', self.body.name, l, self.body.local_name(l))
        if kind in ('partial', 'pcall'):
            # value of the local before this statement, with one path overwritten
            basev = self.local(l, point, depth + 1)
            pl = payload['place'] if kind == 'partial' else payload['dest']
            if kind == 'partial':
                v = self.rvalue(payload['rv'], point, depth + 1)
            else:
                v = self.call(payload, point, depth + 1)
            path = []
            for e in pl['p']:
                if isinstance(e, dict) and 'f' in e:
                    path.append(e['name'])
                else:
                    path.append(repr(e))
            return ('upd', basev, tuple(path), v)
        return ('unknown', 'def')

    def rvalue(self, rv, point, depth=0):
        k = rv['k']
        if k == 'use':
            return self.operand(rv['op'], point, depth)
        if k in ('ref', 'rawptr'):
            return self.place(rv['place'], point, depth)
        if k == 'bin':
            a = self.operand(rv['a'], point, depth)
            b = self.operand(rv['b'], point, depth)
            op = rv['op']
            base = op.replace('WithOverflow', '').replace('Unchecked', '')
            if op.endswith('WithOverflow'):
                return ('ovf', self._arith(base, a, b))
            return self._arith(base, a, b)
        if k == 'un':
            a = self.operand(rv['a'], point, depth)
            if rv['op'] == 'Not':
                return mk_not(a)
            if rv['op'] == 'PtrMetadata':
                return ('len', a)
            return ('un', rv['op'], a)
        if k == 'cast':
            a = self.operand(rv['a'], point, depth)
            kind = rv['kind']
            if kind.startswith('PointerCoercion') or kind in ('Transmute', 'PtrToPtr'):
                return a
            return ('cast', rv['ty'], a)
        if k == 'discr':
            return simplify_discr(self.place(rv['place'], point, depth), rv.get('adt'), rv.get('variants'))
        if k == 'repeat':
            return ('repeat', self.operand(rv['op'], point, depth), rv['n'])
        if k == 'aggr':
            ops = tuple(self.operand(o, point, depth) for o in rv['ops'])
            if 'adt' in rv:
                return ('aggr', rv['adt'], rv['variant'], tuple(zip(rv['fields'], ops)))
            if 'closure' in rv:
                return ('closure', rv['closure'], ops)
            if rv.get('tuple'):
                return ('tuple', ops)
            return ('array', ops)
        return ('unknown', rv.get('dbg', k))

    def _arith(self, op, a, b):
        if op == 'Add':
            return mk_add(a, b)
        if op == 'Sub':
            return ('sub', a, b)
        if op in CMP_OPS:
            return ('cmp', op, a, b)
        return ('bin', op, a, b)

    def apply_fn(self, f, actual):
        """result term of applying a crate-local closure (or fn item) term to `actual` arguments: its (single, loop-free) return
        term with the parameters substituted; None when it cannot be expressed"""
        if not (isinstance(f, tuple) and f and f[0] in ('closure', 'fn') and f[1] in self.facts.bodies):
            return None
        cb = self.facts.bodies[f[1]]
        if cb.nb > 40 or cb.back_edges():
            return None
        rets = cb.return_blocks()
        if len(rets) != 1:
            return None
        key = ('apply', cb.name)
        if key in self.stack:
            return None
        self.stack.add(key)
        try:
            # closures: the captures are those of THIS closure value (its creation site may be one of several inlined copies)
            org = cb.origin_sym if f[0] == 'closure' else cb.origin
            rt = org.place({'l': 0, 'p': []}, cb.term_point(rets[0]))
        finally:
            self.stack.discard(key)
        off = 1 if f[0] == 'closure' else 0
        caps = f[2] if f[0] == 'closure' and len(f) > 2 else ()

        def cap(idx, name):
            old = cb.origin.upvar(cb.name, idx, name)
            if isinstance(old, tuple) and old and old[0] == 'var':
                return old          # a captured `&mut local`: a cell of the creating body, not a value
            if idx < len(caps):
                return caps[idx]
            return old

        def sub(x):
            if isinstance(x, tuple):
                if x and x[0] == 'param' and x[1] == cb.name and off <= x[2] < off + len(actual):
                    return actual[x[2] - off]
                if x and x[0] == 'upvar' and len(x) == 4 and x[1] == cb.name:
                    return cap(x[2], x[3])
                return tuple(sub(y) for y in x)
            return x
        if contains(rt, lambda x: isinstance(x, tuple) and x and x[0] == 'unknown'):
            return None
        return sub(rt)

    def call(self, t, point, depth=0):
        callee = t.get('callee')
        args = tuple(self.operand(a, point, depth) for a in t['args'])
        if callee is None:
            f = self.operand(t['func'], point, depth) if 'func' in t else ('unknown', 'fnptr')
            return ('call', ('indirect', f), args, (self.body.name, point[0]))
        if callee == 'std::clone::Clone::clone' and t.get('arg_tys') and t['arg_tys'][0].startswith(('&std::vec::Vec<', '&mut std::vec::Vec<')):
            # a cloned Vec is a new container with its own identity (it may be filtered independently of the original)
            return ('call', callee, args, (self.body.name, point[0]))
        if callee in TRANSPARENT and len(args) > TRANSPARENT[callee]:
            return args[TRANSPARENT[callee]]
        if callee in INDEX_CALLS and len(args) == 2:
            return ('index', args[0], args[1])
        if callee.split('::')[-1] == 'key' and ('Entry' in callee) and len(args) == 1:
            # entry.key(): the key the entry was looked up with — e.key() of `map.entry(k)` is k
            ents = [x for x in walk(args[0]) if is_call(x, 'entry') and len(x[2]) == 2]
            if len(ents) == 1:
                return ents[0][2][1]
        if callee in UNWRAP_CALLS and args:
            return simplify_field(simplify_variant(args[0], UNWRAP_CALLS[callee]), '0', None)
        last = callee.split('::')[-1]
        if callee.startswith('core::num::') and len(args) == 2:
            if last in ADD_CALLS:
                return mk_add(args[0], args[1])
            if last in SUB_CALLS:
                return ('sub', args[0], args[1])
        if callee in MIN_CALLS and len(args) == 2:
            return mk_minmax('min', args[0], args[1])
        if callee in MAX_CALLS and len(args) == 2:
            return mk_minmax('max', args[0], args[1])
        if callee.startswith('core::num::') and last in ('min', 'max') and len(args) == 2:
            return mk_minmax(last, args[0], args[1])
        if callee in PARTIALORD_CALLS and len(args) == 2:
            return ('cmp', PARTIALORD_CALLS[callee], args[0], args[1])
        if callee in ('std::cmp::Ordering::then_with', 'std::cmp::Ordering::then') and len(args) == 2 and depth < 40:
            # lexicographic combination in normal form: ('lex', (c1, c2, ..)), flattened (then / then_with are associative)
            second = args[1] if callee.endswith('::then') else self.apply_fn(args[1], ())
            if second is not None:
                items = (args[0][1] if isinstance(args[0], tuple) and args[0] and args[0][0] == 'lex' else (args[0],)) + \
                        (second[1] if isinstance(second, tuple) and second and second[0] == 'lex' else (second,))
                return ('lex', items)
        if callee == 'std::ops::Try::branch' and args:
            return ('try', args[0], 'Option' if (t.get('arg_tys') or [''])[0].startswith('std::option::Option<') else 'Result')
        if callee == 'std::ops::FromResidual::from_residual' and args and (t.get('arg_tys') or [''])[0].startswith('std::result::Result<'):
            # `?` on an Err: the function returns Err(From::from(e))
            return ('aggr', 'std::result::Result', 'Err', (('0', simplify_field(simplify_variant(args[0], 'Err'), '0', None)),))
        if callee == 'std::ops::FromResidual::from_residual' and args and (t.get('arg_tys') or [''])[0].startswith('std::option::Option<'):
            return MK_NONE      # `?` on a None
        if callee in VARIANT_TESTS and len(args) == 1:
            # a variant test used as a boolean value: ('isvar', o, names) — the same term a `matches!` / `match .. => true` produces
            return ('isvar', args[0], VARIANT_TESTS[callee])
        if callee.startswith('std::option::Option::<T>::') and args and depth < 40:
            # Option combinators in normal form (the same term as the equivalent `match` / `if let`)
            o = args[0]
            some = ('in', o, SOME)
            payload = simplify_field(simplify_variant(o, 'Some'), '0', None)
            if last == 'unwrap_or' and len(args) == 2:
                return mk_ite(some, payload, args[1])
            if last == 'unwrap_or_else' and len(args) == 2:
                r = self.apply_fn(args[1], ())
                if r is not None:
                    return mk_ite(some, payload, r)
            if last == 'map_or' and len(args) == 3:
                r = self.apply_fn(args[2], (payload,))
                if r is not None:
                    return mk_ite(some, r, args[1])
            if last == 'map_or_else' and len(args) == 3:
                r = self.apply_fn(args[2], (payload,))
                d = self.apply_fn(args[1], ())
                if r is not None and d is not None:
                    return mk_ite(some, r, d)
            if last == 'map' and len(args) == 2:
                r = self.apply_fn(args[1], (payload,))
                if r is not None:
                    return mk_ite(some, mk_some(r), MK_NONE)
        if callee in ('std::ops::Fn::call', 'std::ops::FnMut::call_mut', 'std::ops::FnOnce::call_once') and len(args) == 2 and depth < 40:
            # a local closure that is called directly: its (single, loop-free) return term with the parameters substituted
            actual = args[1][1] if isinstance(args[1], tuple) and args[1] and args[1][0] == 'tuple' else ()
            r = self.apply_fn(args[0], actual)
            if r is not None:
                return r
        site = None if is_pure(callee) else (self.body.name, point[0])
        return ('call', callee, args, site)


def mk_ite(lit, v1, v2):
    if v1 == v2:
        return v1
    if lit and lit[0] in ('T', 'F') and isinstance(lit[1], tuple) and lit[1] and lit[1][0] == 'isvar':
        # `if o.is_some() {..}` tests the same thing as `match o { Some(_) => .. }`
        st = lit[1][2] if lit[0] == 'T' else complement(lit[1][2])
        if st:
            return mk_ite(('in', lit[1][1], st), v1, v2)
    if lit and lit[0] == 'in' and not lit[2]:
        return v2       # an `otherwise` edge that no variant can take
    if lit and lit[0] == 'in' and lit[2] in (frozenset(['None']), frozenset(['Err'])):
        # canonical orientation: the test is expressed on the Some / Ok side
        lit, v1, v2 = ('in', lit[1], complement(lit[2])), v2, v1
    if lit and lit[0] == 'not' and lit[1][0] == 'in' and complement(lit[1][2]):
        return mk_ite(('in', lit[1][1], complement(lit[1][2])), v1, v2)
    atoms = lit_atoms(lit)
    if len(atoms) == 1 and atoms[0][0] == 'cmp':
        _, a, b, S = atoms[0]
        for (x, y, rel) in ((a, b, S), (b, a, frozenset({'<': '>', '>': '<', '=': '='}[c] for c in S))):
            # value x when x ? y (rel), y otherwise
            if v1 == x and v2 == y:
                if rel and rel <= frozenset('<='):
                    return mk_minmax('min', x, y)
                if rel and rel <= frozenset('>='):
                    return mk_minmax('max', x, y)
            # value y when x ? y, x otherwise
            if v1 == y and v2 == x:
                if rel and rel <= frozenset('<='):
                    return mk_minmax('max', x, y)
                if rel and rel <= frozenset('>='):
                    return mk_minmax('min', x, y)
    if lit and lit[0] == 'in' and is_const(v1, True) and is_const(v2, False):
        return ('isvar', lit[1], lit[2])
    if lit and lit[0] == 'in' and is_const(v1, False) and is_const(v2, True):
        return mk_not(('isvar', lit[1], lit[2]))
    if is_const(v1, True) and is_const(v2, False) and lit[0] in ('T', 'F'):
        return lit[1] if lit[0] == 'T' else mk_not(lit[1])
    if is_const(v1, False) and is_const(v2, True) and lit[0] in ('T', 'F'):
        return mk_not(lit[1]) if lit[0] == 'T' else lit[1]
    return ('ite', lit, v1, v2)


def cases(t, conds=()):
    """flatten nested ite terms: [(tuple of literals, leaf term)]"""
    if isinstance(t, tuple) and t and t[0] == 'ite':
        return cases(t[2], conds + (t[1],)) + cases(t[3], conds + (('not', t[1]),))
    return [(conds, t)]


def lift_ite(t, depth=3):
    """hoist if-then-else terms out of the fields of an aggregate: aggr{f: ite(c, a, b)} -> ite(c, aggr{f: a}, aggr{f: b})"""
    if depth <= 0 or not (isinstance(t, tuple) and t):
        return t
    if t[0] == 'ite':
        return ('ite', t[1], lift_ite(t[2], depth), lift_ite(t[3], depth))
    if t[0] == 'aggr':
        for n, (f, v) in enumerate(t[3]):
            v = lift_ite(v, depth - 1)
            if isinstance(v, tuple) and v and v[0] == 'ite':
                mk = lambda x: ('aggr', t[1], t[2], t[3][:n] + ((f, x),) + t[3][n + 1:])
                return ('ite', v[1], lift_ite(mk(v[2]), depth), lift_ite(mk(v[3]), depth))
    return t


def leaves(t):
    return [v for (_, v) in cases(t)]


def mk_not(a):
    if isinstance(a, tuple):
        if a[0] == 'not':
            return a[1]
        if a[0] == 'cmp':
            neg = {'Lt': 'Ge', 'Le': 'Gt', 'Gt': 'Le', 'Ge': 'Lt', 'Eq': 'Ne', 'Ne': 'Eq'}
            return ('cmp', neg[a[1]], a[2], a[3])
        if a[0] == 'const' and isinstance(a[1], bool):
            return ('const', not a[1], None, 'bool')
        if a[0] == 'isvar' and complement(a[2]):
            return ('isvar', a[1], complement(a[2]))
    return ('not', a)


def simplify_field(t, name, adt):
    if isinstance(t, tuple):
        if t[0] == 'ite':
            return mk_ite(t[1], simplify_field(t[2], name, adt), simplify_field(t[3], name, adt))
        if t[0] == 'aggr':
            for (f, v) in t[3]:
                if f == name:
                    return v
        if t[0] == 'tuple':
            try:
                i = int(name)
                if i < len(t[1]):
                    return t[1][i]
            except ValueError:
                pass
        if t[0] == 'ovf':
            if name == '0':
                return t[1]
            return ('overflowed', t[1])
        if t[0] == 'upd':
            path = t[2]
            if path and path[0] == name:
                if len(path) == 1:
                    return t[3]
                return ('upd', simplify_field(t[1], name, adt), path[1:], t[3])
            return simplify_field(t[1], name, adt)
        if t[0] == 'variant' and isinstance(t[1], tuple) and t[1][0] == 'aggr' and t[1][2] == t[2]:
            return simplify_field(t[1], name, adt)
        if t[0] == 'closure':
            try:
                i = int(name)
            except ValueError:
                i = None
            # closure fields are resolved by capture index in Origin.project via name -> handled by caller
    if name.isdigit():
        adt = None   # positional fields (newtype ids, Option/Result payloads, tuples): owner is irrelevant
    return ('field', t, name, adt)


def simplify_variant(t, name):
    if isinstance(t, tuple):
        if t[0] == 'ite':
            # the downcast asserts the variant: a branch that is an aggregate of another variant cannot be the one taken
            other = lambda x: isinstance(x, tuple) and x and x[0] == 'aggr' and x[2] != name
            if other(t[2]) and not other(t[3]):
                return simplify_variant(t[3], name)
            if other(t[3]) and not other(t[2]):
                return simplify_variant(t[2], name)
            return mk_ite(t[1], simplify_variant(t[2], name), simplify_variant(t[3], name))
        if t[0] == 'try':
            m = {'Continue': 'Some', 'Break': 'None'} if (len(t) > 2 and t[2] == 'Option') else {'Continue': 'Ok', 'Break': 'Err'}
            return simplify_variant(t[1], m.get(name, name))
        if t[0] == 'aggr' and t[2] == name:
            return t
    return ('variant', t, name)


def simplify_discr(t, adt=None, variants=None):
    if isinstance(t, tuple):
        if t[0] == 'try':
            if len(t) > 2 and t[2] == 'Option':
                return ('discr', t[1], OPTION, (('Some', 0), ('None', 1)))
            return ('discr', t[1], 'std::result::Result', (('Ok', 0), ('Err', 1)))
        if t[0] == 'aggr':
            return ('const_variant', t[2], t[1])
    vs = tuple((v[0], v[1]) for v in (variants or []))
    return ('discr', t, adt, vs)


# ---------------------------------------------------------------------------------------------
# matchers
# ---------------------------------------------------------------------------------------------
def walk(t):
    """all sub-terms of t (pre-order)"""
    yield t
    if isinstance(t, tuple):
        for x in t[1:] if t and isinstance(t[0], str) else t:
            if isinstance(x, tuple):
                yield from walk(x)


def contains(t, pred):
    return any(pred(x) for x in walk(t))


def is_field(t, name, adt_suffix=None):
    return isinstance(t, tuple) and len(t) == 4 and t[0] == 'field' and t[2] == name and \
        (adt_suffix is None or (t[3] or '').endswith(adt_suffix))


def field_base(t):
    return t[1]


def is_call(t, *suffixes):
    if not (isinstance(t, tuple) and t and t[0] == 'call' and isinstance(t[1], str)):
        return False
    return any(t[1] == s or t[1].endswith('::' + s) for s in suffixes)


def is_const(t, value=None, named_suffix=None):
    if not (isinstance(t, tuple) and t and t[0] == 'const'):
        return False
    if value is not None and not (t[1] == value and type(t[1]) == type(value)):
        return False
    if named_suffix is not None and not (t[2] or '').endswith(named_suffix):
        return False
    return True


def is_param(t, name=None, index=None):
    return isinstance(t, tuple) and t and t[0] == 'param' and (name is None or t[3] == name) and (index is None or t[2] == index)


def show(t, depth=0):
    """compact rendering of a term for reports"""
    if not isinstance(t, tuple) or not t:
        return repr(t)
    k = t[0]
    if depth > 12:
        return '…'
    s = lambda x: show(x, depth + 1)
    if k == 'param': return t[3] or ('arg%d' % t[2])
    if k == 'env': return 'env'
    if k == 'upvar': return t[3] or ('upvar%d' % t[2])
    if k == 'const':
        if t[2]: return t[2].split('::')[-2] + '::' + t[2].split('::')[-1] if '::' in t[2] else t[2]
        return str(t[1]).lower() if isinstance(t[1], bool) else str(t[1])
    if k == 'cparam': return t[1]
    if k == 'fn': return 'fn ' + t[1].split('::')[-1]
    if k == 'field': return '%s.%s' % (s(t[1]), t[2])
    if k == 'index': return '%s[%s]' % (s(t[1]), s(t[2]))
    if k == 'variant': return '(%s as %s)' % (s(t[1]), t[2])
    if k == 'discr': return 'discr(%s)' % s(t[1])
    if k == 'cmp': return '(%s %s %s)' % (s(t[2]), CMP_OPS[t[1]], s(t[3]))
    if k == 'not': return '!%s' % s(t[1])
    if k == 'add': return '(%s)' % ' + '.join(s(x) for x in t[1])
    if k == 'sub': return '(%s - %s)' % (s(t[1]), s(t[2]))
    if k in ('min', 'max'): return '%s(%s)' % (k, ', '.join(s(x) for x in t[1]))
    if k == 'bin': return '%s(%s, %s)' % (t[1], s(t[2]), s(t[3]))
    if k == 'un': return '%s(%s)' % (t[1], s(t[2]))
    if k == 'cast': return '(%s as %s)' % (s(t[2]), t[1])
    if k == 'len': return 'len(%s)' % s(t[1])
    if k == 'call':
        c = t[1] if isinstance(t[1], str) else 'indirect'
        c = '::'.join(c.split('::')[-2:])
        return '%s(%s)%s' % (c, ', '.join(s(x) for x in t[2]), ('@bb%d' % t[3][1]) if t[3] else '')
    if k == 'aggr': return '%s::%s{%s}' % (t[1].split('::')[-1], t[2], ', '.join('%s: %s' % (f, s(v)) for f, v in t[3]))
    if k == 'tuple': return '(%s)' % ', '.join(s(x) for x in t[1])
    if k == 'closure': return 'closure<%s>' % t[1].split('::')[-1]
    if k == 'upd': return '%s{%s := %s}' % (s(t[1]), '.'.join(t[2]), s(t[3]))
    if k == 'var': return 'var(%s)' % (t[3] or '_%d' % t[2])
    if k == 'try': return 'try(%s)' % s(t[1])
    if k == 'ite': return 'ite(%s ? %s : %s)' % ([(a[0],) + tuple(show(x, depth + 1) if isinstance(x, tuple) else x for x in a[1:]) for a in lit_atoms(t[1])], s(t[2]), s(t[3]))
    if k == 'ovf': return 'ovf(%s)' % s(t[1])
    if k == 'isvar': return '%s is %s' % (s(t[1]), '|'.join(sorted(t[2])))
    if k == 'lex': return 'lex(%s)' % ', '.join(s(x) for x in t[1])
    if k == 'unknown': return '?%s' % t[1]
    return repr(t)


# ---------------------------------------------------------------------------------------------
# guards: literals asserted by CFG edges
# ---------------------------------------------------------------------------------------------
def edge_literal(body, bb, label):
    """literal asserted when leaving `bb` through the switch edge `label`, or None.
    A literal is ('T', term) / ('F', term) for boolean terms, ('in', term, frozenset(variant names)) for
    discriminant tests, ('eqc', term, value) / ('nec', term, values) for integer matches."""
    t = body.term(bb)
    if not t or t['k'] != 'switch':
        return None
    d = body.origin.operand(t['discr'], body.term_point(bb))
    vals = [v for (v, _) in t['targets']]
    if t['dty'] == 'bool':
        # MIR: 0 => false edge, otherwise => true edge
        if label == 'otherwise':
            truth = not (1 in vals) if len(vals) == 1 and vals[0] == 0 else None
            if vals == [0]:
                return ('T', d)
            if vals == [1]:
                return ('F', d)
            return None
        return ('F', d) if label == 0 else ('T', d)
    if isinstance(d, tuple) and d[0] == 'discr':
        vs = dict((val, name) for (name, val) in d[3]) if d[3] else {}
        if not vs and d[2] in STD_ENUMS:
            vs = dict((val, name) for (name, val) in STD_ENUMS[d[2]])
        if label == 'otherwise':
            names = frozenset(n for (v, n) in vs.items() if v not in vals)
            if not vs:
                return ('nec', d[1], tuple(vals))
            return ('in', d[1], names)
        return ('in', d[1], frozenset([vs.get(label, str(label))]))
    if isinstance(d, tuple) and d[0] == 'const_variant':
        return None
    if label == 'otherwise':
        return ('nec', d, tuple(vals))
    return ('eqc', d, label)


def lit_atoms(lit):
    """atomic facts implied by a literal: list of ('cmp', a, b, frozenset of '<','=','>') | ('T', t) | ('F', t) | ('in', t, names)
    Conjunctions on the true side (BitAnd) and disjunctions on the false side (BitOr) are expanded."""
    if lit is None:
        return []
    k = lit[0]
    if k == 'not':
        inner = lit[1]
        if inner[0] == 'T':
            return lit_atoms(('F', inner[1]))
        if inner[0] == 'F':
            return lit_atoms(('T', inner[1]))
        if inner[0] == 'in':
            c = complement(inner[2])
            return lit_atoms(('in', inner[1], c)) if c else []
        if inner[0] == 'not':
            return lit_atoms(inner[1])
        return []
    if k == 'in':
        t = lit[1]
        if isinstance(t, tuple) and t and t[0] == 'ite':
            # discriminant test of `if c { Some(x) } else { None }` (or any two aggregates of known variants) is the test c itself
            va = t[2][2] if isinstance(t[2], tuple) and t[2] and t[2][0] == 'aggr' else None
            vb = t[3][2] if isinstance(t[3], tuple) and t[3] and t[3][0] == 'aggr' else None
            if va is not None and vb is not None and (va in lit[2]) != (vb in lit[2]):
                return lit_atoms(t[1] if va in lit[2] else ('not', t[1]))
        if isinstance(t, tuple) and t and t[0] == 'call' and t[1] in ('std::cmp::Ord::cmp',) and len(t[2]) == 2:
            m = {'Less': '<', 'Equal': '=', 'Greater': '>'}
            if all(n in m for n in lit[2]):
                return [('cmp', t[2][0], t[2][1], frozenset(m[n] for n in lit[2]))]
        return [lit[:3]]
    if k in ('eqc', 'nec'):
        return [lit]
    t = lit[1]
    pos = (k == 'T')
    return _atoms(t, pos)


def _atoms(t, pos):
    if isinstance(t, tuple) and t:
        if t[0] == 'not':
            return _atoms(t[1], not pos)
        if t[0] == 'cmp':
            op = t[1]
            s = CMP_SETS[op]
            if not pos:
                s = frozenset('<=>') - s
            return [('cmp', t[2], t[3], s)]
        if t[0] == 'bin' and t[1] == 'BitAnd' and pos:
            return _atoms(t[2], True) + _atoms(t[3], True)
        if t[0] == 'bin' and t[1] == 'BitOr' and not pos:
            return _atoms(t[2], False) + _atoms(t[3], False)
        if t[0] == 'const' and isinstance(t[1], bool):
            return [('const', t[1] == pos)]
        if t[0] == 'isvar':
            if pos:
                return lit_atoms(('in', t[1], t[2]))
            c = complement(t[2])
            if c:
                return lit_atoms(('in', t[1], c))
        if t[0] == 'ite':
            # boolean if-then-else:  T(ite(c, X, false)) = c & X ;  F(ite(c, true, X)) = !c & !X ; ...
            c, a, b = t[1], t[2], t[3]
            if pos:
                if is_const(b, False):
                    return lit_atoms(c) + _atoms(a, True)
                if is_const(a, False):
                    return lit_atoms(('not', c)) + _atoms(b, True)
            else:
                if is_const(a, True):
                    return lit_atoms(('not', c)) + _atoms(b, False)
                if is_const(b, True):
                    return lit_atoms(c) + _atoms(a, False)
            # not a conjunction on this side: keep the whole test as ONE opaque atom (case analyses can still evaluate it)
            return [('T' if pos else 'F', t)]
        if t[0] == 'cmp' and False:
            pass
    return [('T' if pos else 'F', t)]


def cmp_matches(atom, left_pred, right_pred, allowed):
    """atom is a comparison between a term satisfying left_pred and one satisfying right_pred (in either operand
    order, mirrored accordingly) whose relation set is a non-empty subset of `allowed` (set of '<','=','>',
    read as left ? right)."""
    if atom[0] != 'cmp':
        return False
    _, a, b, s = atom
    mirror = {'<': '>', '>': '<', '=': '='}
    if left_pred(a) and right_pred(b) and s and s <= frozenset(allowed):
        return True
    if left_pred(b) and right_pred(a):
        sm = frozenset(mirror[x] for x in s)
        if sm and sm <= frozenset(allowed):
            return True
    return False


def guarded(body, effect_points, accept, starts=None, extra_avoid=(), _depth=0):
    """T1: True iff every normal path from entry (or `starts`) to any effect point crosses at least one switch edge
    whose literal is accepted by `accept(atoms, literal)`. Returns (ok, witness_cut_edges)."""
    cut = set()
    for b in body.live_blocks():
        t = body.term(b)
        if t and t['k'] == 'switch':
            for (tb, lab) in body.succ(b):
                lit = edge_literal(body, b, lab)
                if lit is not None and accept(lit_atoms(lit), lit):
                    cut.add((b, lab))
    reached = body.reach(starts or [(0, 0)], cut_edges=cut, avoid=extra_avoid)
    bad = [p for p in effect_points if p in reached]
    if bad and not extra_avoid and len(starts or [0]) == 1:
        # B1' — path-sensitive second look: a path that crosses no accepted edge only counts if its own literals are not contradictory
        # (`while a > b && !q {..}  if a <= b {return}  EFFECT`: the effect is reached with q asserted, although one loop exit bypasses q)
        still = []
        try:
            for p in bad:
                for (edges, blocks, end) in enumerate_paths(body, (starts or [(0, 0)])[0], stops=[p], cut_edges=cut, max_paths=3000):
                    if end == p and consistent(path_atoms_fresh(body, edges, blocks)):
                        still.append(p)
                        break
            bad = still
        except PathLimit:
            pass
    if bad and starts is None and not extra_avoid and _depth < 2 and body.kind in ('fn', 'method') and body.raw.get('vis') != 'pub' \
            and not body.raw.get('impl_trait'):
        # the test may sit at the call sites instead (`if c { self.f() }` rather than `fn f() { if c {..} }`): the effect happens only if
        # the private function is called, so it is guarded when EVERY call site is (the guard terms are fields / queries of the objects
        # handed down, which read the same in the caller)
        sites = [(cb, cb.term_point(bb)) for cb in body.facts.bodies.values() for (bb, t) in cb.calls()
                 if t.get('callee') == body.name or t.get('resolved') == body.name]
        if sites and all(guarded(cb, [pt], accept, _depth=_depth + 1)[0] for (cb, pt) in sites):
            return True, cut, []
    return (not bad), cut, bad


def _fields_written_by(body, depth=2):
    """(field name, owner ADT) pairs written by `body`, its closures and (to `depth`) the crate-local functions it calls"""
    cache = body.facts.__dict__.setdefault('_fw_cache', {})
    key = (body.name, depth)
    if key in cache:
        return cache[key]
    cache[key] = set()
    out = set()
    for u in body.facts.unit(body):
        for bb in u.live_blocks():
            for s in u.stmts(bb):
                if s['k'] == 'assign':
                    for e in s['place']['p']:
                        if isinstance(e, dict) and 'f' in e:
                            out.add((e['name'], e.get('adt')))
            t = u.term(bb)
            if t and t['k'] == 'call':
                for e in t['dest']['p']:
                    if isinstance(e, dict) and 'f' in e:
                        out.add((e['name'], e.get('adt')))
                cb = body.facts.bodies.get(t.get('callee') or '')
                if cb is not None and depth > 0:
                    out |= _fields_written_by(cb, depth - 1)
    cache[key] = out
    return out


def path_atoms_fresh(body, edges, blocks):
    """literal atoms of ONE path that are still current at its end: an atom is dropped when a later block of the path re-assigns a
    local variable it mentions, writes a field it mentions (directly or in a crate-local callee), or hands a mutable borrow to a call"""
    atoms = []      # (atom, vars mentioned, fields mentioned)
    for k, b in enumerate(blocks):
        # effects of block b come before the edge that leaves it
        if atoms:
            killed_l, killed_f = set(), set()
            for s in body.stmts(b):
                if s['k'] == 'assign':
                    pl = s['place']
                    fs = [e for e in pl['p'] if isinstance(e, dict) and 'f' in e]
                    if fs:
                        killed_f.add((fs[-1]['name'], fs[-1].get('adt')))
                    else:
                        killed_l.add(pl['l'])
                    if s['rv'].get('k') == 'ref' and s['rv'].get('mut') and not s['rv']['place']['p']:
                        killed_l.add(s['rv']['place']['l'])
                    # a mutable re-borrow of what a `&mut` PARAMETER points to (`curr_l.push(..)` on `curr_l: &mut Vec<_>`): what was
                    # known about that parameter's pointee is stale
                    if s['rv'].get('k') == 'ref' and s['rv'].get('mut') and s['rv']['place']['p'] == ['deref'] and 1 <= s['rv']['place']['l'] <= body.arg_count:
                        killed_l.add(('P', s['rv']['place']['l'] - 1))
            t = body.term(b)
            if t and t['k'] == 'call':
                if not t['dest']['p']:
                    killed_l.add(t['dest']['l'])
                cb = body.facts.bodies.get(t.get('callee') or '')
                if cb is not None:
                    killed_f |= _fields_written_by(cb)
            if killed_l or killed_f:
                atoms = [(a, vs, fs) for (a, vs, fs) in atoms if not (vs & killed_l) and not (fs & killed_f)]
        if k < len(edges):
            lit = edge_literal(body, edges[k][0], edges[k][1])
            if lit is not None:
                for a in lit_atoms(lit):
                    vs, fs = set(), set()
                    for x in a[1:]:
                        for y in walk(x):
                            if isinstance(y, tuple) and y:
                                if y[0] == 'var' and len(y) > 2:
                                    vs.add(y[2])
                                elif y[0] == 'param' and len(y) > 2 and y[1] == body.name:
                                    vs.add(('P', y[2]))
                                elif y[0] == 'field' and len(y) == 4:
                                    fs.add((y[2], y[3]))
                    atoms.append((a, vs, fs))
    return [a for (a, vs, fs) in atoms]


# ---------------------------------------------------------------------------------------------
# path enumeration (B1', B7): loop-free paths with their literals and effects
# ---------------------------------------------------------------------------------------------
class PathLimit(Exception):
    pass


def enumerate_paths(body, start, stops=(), max_paths=4096, cut_edges=(), visit_limit=1):
    """All paths from point `start` to any point in `stops` or to a return, each block entered at most
    `visit_limit` times. Returns a list of (edges [(bb, label)], blocks [bb], end point). A stop point equal to
    `start` only counts when it is reached again."""
    stops = set(stops)
    cut = set(cut_edges)
    results = []
    sys.setrecursionlimit(20000)

    def rec(b, i, edges, blocks, visits, first):
        if len(results) > max_paths:
            raise PathLimit()
        n = len(body.stmts(b))
        for j in range(i, n + 1):
            if (b, j) in stops and not (first and j == i):
                results.append((list(edges), list(blocks), (b, j)))
                return
        t = body.term(b)
        if t is None or t['k'] in ('unreachable', 'resume', 'terminate'):
            return
        if t['k'] == 'return':
            results.append((list(edges), list(blocks), (b, n)))
            return
        for (tb, lab) in body.succ(b):
            if (b, lab) in cut or body.is_cleanup(tb):
                continue
            if visits.get(tb, 0) >= visit_limit:
                continue
            visits[tb] = visits.get(tb, 0) + 1
            edges.append((b, lab))
            blocks.append(tb)
            rec(tb, 0, edges, blocks, visits, False)
            blocks.pop()
            edges.pop()
            visits[tb] -= 1

    rec(start[0], start[1], [], [start[0]], {start[0]: 1} if start[1] == 0 else {}, True)
    return results


def path_atoms(body, edges):
    out = []
    for (b, lab) in edges:
        lit = edge_literal(body, b, lab)
        if lit is not None:
            out.extend(lit_atoms(lit))
    return out


def consistent(atoms):
    """False if the atom list contains a contradiction between atoms on syntactically equal terms."""
    rel = {}
    truth = {}
    inn = {}
    eqc = {}
    for a in atoms:
        if a[0] == 'cmp':
            key = (a[1], a[2])
            s = a[3]
            if (a[2], a[1]) in rel:
                key = (a[2], a[1])
                mirror = {'<': '>', '>': '<', '=': '='}
                s = frozenset(mirror[x] for x in s)
            cur = rel.get(key, frozenset('<=>')) & s
            if not cur:
                return False
            rel[key] = cur
        elif a[0] in ('T', 'F'):
            v = a[0] == 'T'
            if truth.get(a[1], v) != v:
                return False
            truth[a[1]] = v
        elif a[0] == 'in':
            cur = inn.get(a[1])
            cur = a[2] if cur is None else (cur & a[2])
            if not cur:
                return False
            inn[a[1]] = cur
        elif a[0] == 'eqc':
            if a[1] in eqc and eqc[a[1]] != a[2]:
                return False
            eqc[a[1]] = a[2]
        elif a[0] == 'const':
            if not a[1]:
                return False
    for a in atoms:
        if a[0] == 'nec' and a[1] in eqc and eqc[a[1]] in a[2]:
            return False
    return True


def path_effects(body, blocks, start, end):
    """effects executed along a path (blocks, from point `start` up to but excluding point `end`):
    ('call', point, terminator) | ('write', point, stmt) for assignments through a projection |
    ('assign', point, stmt) for assignments to multiply-defined locals and to the return place."""
    out = []
    multi = {l for l, ds in body.defs().items() if len(ds) > 1}
    last = len(blocks) - 1
    for n, b in enumerate(blocks):
        stmts = body.stmts(b)
        lo = start[1] if n == 0 else 0
        hi = end[1] if n == last else len(stmts) + 1
        for i in range(lo, min(hi, len(stmts))):
            s = stmts[i]
            if s['k'] != 'assign':
                continue
            pl = s['place']
            if pl['p']:
                out.append(('write', (b, i), s))
            elif pl['l'] in multi or pl['l'] == 0:
                out.append(('assign', (b, i), s))
        if lo <= len(stmts) < hi:
            t = body.term(b)
            if t and t['k'] == 'call':
                out.append(('call', (b, len(stmts)), t))
    return out


def path_local_term(body, blocks, end, local, start=(0, 0)):
    """term of `local` at the end of ONE path (blocks, up to but excluding point `end`): the last whole definition of the local ON
    THE PATH; plain copies / moves of another local are followed backwards along the same path (path-sensitive, so that a value
    funnelled through a temporary — e.g. the return slot of an inlined helper with several early returns — keeps its per-path term)"""
    seq = []
    last = len(blocks) - 1
    for n, b in enumerate(blocks):
        stmts = body.stmts(b)
        lo = start[1] if n == 0 else 0
        hi = end[1] if n == last else len(stmts) + 1
        for i in range(lo, min(hi, len(stmts))):
            s = stmts[i]
            if s['k'] == 'assign' and not s['place']['p']:
                seq.append((s['place']['l'], (b, i), 'assign', s))
        if lo <= len(stmts) < hi:
            t = body.term(b)
            if t and t['k'] == 'call' and not t['dest']['p']:
                seq.append((t['dest']['l'], (b, len(stmts)), 'call', t))
    k = len(seq)
    cur = local
    for _ in range(64):
        j = k - 1
        while j >= 0 and seq[j][0] != cur:
            j -= 1
        if j < 0:
            return body.origin.local(cur, (blocks[0], start[1]))
        (l, pt, kind, s) = seq[j]
        if kind == 'call':
            return body.origin.call(s, pt)
        rv = s['rv']
        if rv['k'] == 'use' and 'place' in rv['op'] and not rv['op']['place']['p']:
            cur = rv['op']['place']['l']
            k = j
            continue
        if rv['k'] == 'use' and 'place' in rv['op'] and rv['op']['place']['p']:
            # a component of a value built earlier ON THIS PATH (`(ret as Some).0` of an inlined helper's `Some(x)`): the operand the
            # aggregate was built with
            pl = rv['op']['place']
            base, kk = pl['l'], j
            agg = None
            for _2 in range(16):
                jj = kk - 1
                while jj >= 0 and seq[jj][0] != base:
                    jj -= 1
                if jj < 0 or seq[jj][2] != 'assign':
                    break
                rv2 = seq[jj][3]['rv']
                if rv2['k'] == 'use' and 'place' in rv2['op'] and not rv2['op']['place']['p']:
                    base, kk = rv2['op']['place']['l'], jj
                    continue
                if rv2['k'] == 'aggr':
                    agg = (rv2, seq[jj][1], jj)
                break
            if agg is not None:
                (rv2, pt2, jj) = agg
                projs = [e for e in pl['p']]
                ok_ = True
                if projs and isinstance(projs[0], dict) and 'dc' in projs[0]:
                    ok_ = rv2.get('variant') == projs[0]['dc']
                    projs = projs[1:]
                if ok_ and len(projs) == 1 and isinstance(projs[0], dict) and 'f' in projs[0] and projs[0]['f'] < len(rv2.get('ops') or []):
                    op = rv2['ops'][projs[0]['f']]
                    if 'place' in op and not op['place']['p']:
                        cur = op['place']['l']
                        k = jj
                        continue
                    return body.origin.operand(op, pt2)
        return body.origin.rvalue(rv, pt)
    return None
