"""MIR-level inlining of small private helpers that are not rule anchors (so that extracting a block into a helper function —
or calling an existing one — does not hide the code from the rules). Operates on the raw fact document; closures, trait items,
recursive functions, functions that define closures and the functions named in SLOTS (the anchors the rules look up by name)
are never inlined."""
import copy

SLOTS = {
    # solvers
    'new', 'custom', 'with_nb_threads', 'initialize', 'root_node', 'process_one_node', 'best_lb', 'maybe_update_best', 'enqueue_cutset',
    'notify_node_finished', 'abort_search', 'get_workload', 'maximize', 'best_solution', 'best_value', 'best_lower_bound', 'best_upper_bound',
    'set_primal', 'explored', 'gap',
    # diagrams
    'compile', 'is_exact', 'best_exact_value', 'best_exact_solution', 'drain_cutset', 'default', '_clear', '_best_value', '_best_solution',
    '_best_exact_value', '_best_exact_solution', '_best_path_partial_borrow', '_compile', '_initialize', '_finalize', '_drain_cutset',
    '_compute_local_bounds', '_compute_thresholds', '_maybe_update_cache', '_finalize_cutset', '_compute_last_exact_layer_cutset',
    '_compute_frontier_cutset', '_finalize_layers', '_find_best_node', '_finalize_exact', '_has_exact_best_path', '_move_to_next_layer',
    '_filter_with_dominance', '_filter_with_cache', '_branch_on', '_squash_if_needed', '_restrict', '_relax',
    'as_graphviz', 'node', 'edges_of', 'add_terminal_node', 'edge',
    # flags
    'new_exact', 'new_relaxed', 'is_relaxed', 'is_marked', 'is_cutset', 'is_above_cutset', 'is_deleted', 'is_pruned_by_cache', 'set_exact',
    'set_relaxed', 'set_marked', 'set_cutset', 'set_above_cutset', 'set_deleted', 'set_pruned_by_cache',
    # stores, fringes, heuristics
    'must_explore', 'get_threshold', 'update_threshold', 'clear_layer', 'clear', 'partial_cmp', 'cmp', 'is_dominated_or_insert',
    'push', 'pop', 'len', 'is_empty', 'process_action', 'position', 'compare_at_pos', 'bubble_up', 'bubble_down', 'parent', 'max_child_of',
    'left_child', 'right_child', 'is_root', 'is_left', 'compare', 'max_width',
}
# anchors by name that are nevertheless inlined for ONE owner: the rules that concern them are phrased on their effects in the caller,
# so that folding the helper into its caller by hand changes nothing
SOFT = (('sequential::SequentialSolver', 'abort_search'), ('clean::Mdd', '_maybe_update_cache'), ('pooled::Pooled', '_maybe_update_cache'),
        ('no_duplicate::NoDupFringe', 'process_action'))
MAX_BLOCKS = 60


def _remap(x, lo, bo, po):
    """deep copy of a JSON fragment of the callee with locals shifted by lo, blocks by bo, promoted indices by po"""
    if isinstance(x, dict):
        if 'l' in x and 'p' in x and isinstance(x['p'], list):
            return {'l': x['l'] + lo, 'p': [_remap(e, lo, bo, po) for e in x['p']]}
        out = {}
        for k, v in x.items():
            if k == 'idx' and isinstance(v, int) and len(x) == 1:
                out[k] = v + lo
            elif k in ('target', 'otherwise', 'unwind') and isinstance(v, int):
                out[k] = v + bo
            elif k == 'targets' and isinstance(v, list):
                out[k] = [[a, b + bo] for (a, b) in v]
            elif k == 'promoted' and isinstance(v, int):
                out[k] = v + po
            elif k == 'span':
                out[k] = v
            else:
                out[k] = _remap(v, lo, bo, po)
        return out
    if isinstance(x, list):
        return [_remap(e, lo, bo, po) for e in x]
    return x


_REF_METHODS = None


def _ref_methods():
    """{owner: set(method names)} of the reference profile: a slot name protects a function only where the reference has it (a new
    `Node::new` constructor helper is not the solver's `new`)"""
    global _REF_METHODS
    if _REF_METHODS is None:
        import json, os
        p = os.path.join(os.path.dirname(os.path.abspath(__file__)), 'canon_ref.json')
        try:
            with open(p) as f:
                _REF_METHODS = {o: set(ms) for o, ms in json.load(f).get('methods', {}).items()}
        except Exception:
            _REF_METHODS = {}
    return _REF_METHODS


def inlinable(doc, name, children):
    h = doc['bodies'].get(name)
    if h is None or h['kind'] not in ('fn', 'method'):
        return False
    if h.get('name') in SLOTS and not any((h.get('impl_self_adt') or '').endswith(o) and h.get('name') == n for (o, n) in SOFT):
        rm = _ref_methods()
        owner = h.get('impl_self_adt') or name.rsplit('::', 1)[0]
        if not rm or h.get('name') in rm.get(owner, ()) or not h.get('impl_self_adt'):
            return False
    if h.get('impl_trait') or h.get('trait_default'):
        return False
    if len(h['blocks']) > MAX_BLOCKS:
        return False
    for blk in h['blocks']:
        t = blk['term']
        if t and t['k'] == 'call' and (t.get('callee') == name or t.get('resolved') == name):
            return False
    return True


def apply(doc, max_rounds=3):
    """returns (new bodies dict, list of (caller, callee) pairs that were inlined)"""
    bodies = dict(doc['bodies'])
    done = []
    for _outer in range(2):
        n0 = len(done)
        _apply_helpers(doc, bodies, done, max_rounds)
        n1 = len(done)
        inline_closure_calls(doc, bodies, done)
        if len(done) == n1:          # no closure body was pulled in: nothing new for the helper pass to look at
            break
    return bodies, done


def _apply_helpers(doc, bodies, done, max_rounds=3):
    children = set(b.get('parent') for b in doc['bodies'].values() if b.get('parent'))
    for _ in range(max_rounds):
        changed = False
        for bname in list(bodies):
            b = bodies[bname]
            sites = []
            for bi, blk in enumerate(b['blocks']):
                t = blk['term']
                if t and t['k'] == 'call' and t.get('target') is not None and not blk['cleanup']:
                    for key in ('resolved', 'callee'):
                        c = t.get(key)
                        if c and c in bodies and c != bname and inlinable(doc, c, children):
                            sites.append((bi, c))
                            break
            if not sites:
                continue
            nb = copy.deepcopy(b) if b is doc['bodies'].get(bname) else b
            for (bi, c) in sites:
                h = doc['bodies'][c]
                lo = len(nb['locals'])
                bo = len(nb['blocks'])
                po = len(nb.get('promoted', []))
                t = nb['blocks'][bi]['term']
                nb['locals'].extend(copy.deepcopy(h['locals']))
                for d in h.get('debug', []):
                    v = d['v']
                    if isinstance(v, dict) and 'l' in v:
                        nb['debug'].append({'name': d['name'], 'v': _remap(v, lo, 0, po)})
                nb.setdefault('promoted', []).extend(copy.deepcopy(h.get('promoted', [])))
                # arguments
                for i, a in enumerate(t['args']):
                    nb['blocks'][bi]['stmts'].append({'k': 'assign', 'place': {'l': lo + 1 + i, 'p': []}, 'rv': {'k': 'use', 'op': a}, 'span': t['span']})
                cont = bo + len(h['blocks'])
                for hb in h['blocks']:
                    blk2 = _remap(hb, lo, bo, po)
                    t2 = blk2['term']
                    if t2 and t2['k'] == 'return':
                        blk2['term'] = {'k': 'goto', 'target': cont, 'span': t2['span']}
                    elif t2 and t2['k'] == 'call' and '_from' not in t2:
                        t2['_from'] = c            # this call was written in the helper `c` (used by inline_closure_calls)
                    nb['blocks'].append(blk2)
                nb['blocks'].append({'cleanup': False,
                                     'stmts': [{'k': 'assign', 'place': t['dest'], 'rv': {'k': 'use', 'op': {'c': 'move', 'place': {'l': lo, 'p': []}}}, 'span': t['span']}],
                                     'term': {'k': 'goto', 'target': t['target'], 'span': t['span']}})
                nb['blocks'][bi]['term'] = {'k': 'goto', 'target': bo, 'span': t['span']}
                done.append((bname, c))
            bodies[bname] = nb
            changed = True
        if not changed:
            break


# ---------------------------------------------------------------------------------------------------------------
# closures handed to a private higher-order helper: `helper(.., |x| BODY)` where the helper (now inlined) does `f(x)` per element
CLOSURE_CALLS = ('std::ops::FnMut::call_mut', 'std::ops::Fn::call', 'std::ops::FnOnce::call_once')


def _whole_defs(b, l):
    out = []
    for blk in b['blocks']:
        for st in blk['stmts']:
            if st['k'] == 'assign' and st['place']['l'] == l and not st['place']['p']:
                out.append(st)
        t = blk['term']
        if t and t.get('k') == 'call' and t.get('dest') and t['dest']['l'] == l and not t['dest']['p']:
            out.append(None)
    return out


def _trace_closure(b, l):
    """the closure aggregate a local (a reference to / a moved copy of a closure value) comes from, inside body b"""
    for _ in range(8):
        ds = _whole_defs(b, l)
        if len(ds) != 1 or ds[0] is None:
            return None
        rv = ds[0]['rv']
        if rv['k'] == 'aggr' and rv.get('closure'):
            return rv
        if rv['k'] == 'ref' and not rv['place']['p']:
            l = rv['place']['l']
        elif rv['k'] == 'use' and isinstance(rv.get('op'), dict) and 'place' in rv['op'] and not rv['op']['place']['p']:
            l = rv['op']['place']['l']
        else:
            return None
    return None


def _all_places(x, out):
    if isinstance(x, dict):
        if 'l' in x and 'p' in x and isinstance(x['p'], list):
            out.append(x)
            return
        for k, v in x.items():
            if k != 'promoted':
                _all_places(v, out)
    elif isinstance(x, list):
        for v in x:
            _all_places(v, out)


def inline_closure_calls(doc, bodies, done, max_rounds=2):
    """A call `f(args)` that was written INSIDE an inlined private helper, on a parameter `f` which the caller bound to a closure literal,
    is replaced by the closure's body (captured variables become the caller's locals they were captured from; the arguments are the
    members of the argument tuple). `visit_bottom_up(layers, |id| BODY)` thereby reads like the loop it replaced. Calls written in
    the function itself (the `foreach!` macro) are left alone."""
    for _ in range(max_rounds):
        changed = False
        for bname in list(bodies):
            b = bodies[bname]
            sites = []
            for bi, blk in enumerate(b['blocks']):
                t = blk['term']
                if not (t and t['k'] == 'call' and t.get('callee') in CLOSURE_CALLS and t.get('_from') and t.get('target') is not None and not blk['cleanup']):
                    continue
                if len(t['args']) != 2 or not all(isinstance(a, dict) and 'place' in a and not a['place']['p'] for a in t['args']):
                    continue
                agg = _trace_closure(b, t['args'][0]['place']['l'])
                if agg is None or agg['closure'] not in doc['bodies'] or agg['closure'] == bname:
                    continue
                h = doc['bodies'][agg['closure']]
                if len(h['blocks']) > MAX_BLOCKS or not all(isinstance(o, dict) and 'place' in o and not o['place']['p'] for o in agg['ops']):
                    continue
                byref = (h['locals'][1].get('ty') or '').startswith('&')
                k0 = 1 if byref else 0
                pls = []
                _all_places(h['blocks'], pls)
                ok = True
                for pl in pls:
                    if any(isinstance(e, dict) and e.get('idx') == 1 for e in pl['p']):
                        ok = False
                    if pl['l'] == 1:
                        if len(pl['p']) <= k0 or (byref and pl['p'][0] != 'deref') or not (isinstance(pl['p'][k0], dict) and 'f' in pl['p'][k0] and pl['p'][k0]['f'] < len(agg['ops'])):
                            ok = False
                if ok:
                    sites.append((bi, agg, h, byref))
            if not sites:
                continue
            nb = copy.deepcopy(b) if b is doc['bodies'].get(bname) else b
            for (bi, agg, h, byref) in sites:
                lo, bo, po = len(nb['locals']), len(nb['blocks']), len(nb.get('promoted', []))
                t = nb['blocks'][bi]['term']
                nb['locals'].extend(copy.deepcopy(h['locals']))
                for d in h.get('debug', []):
                    v = d['v']
                    if isinstance(v, dict) and 'l' in v and v['l'] != 1:
                        nb['debug'].append({'name': d['name'], 'v': _remap(v, lo, 0, po)})
                nb.setdefault('promoted', []).extend(copy.deepcopy(h.get('promoted', [])))
                A = t['args'][1]['place']['l']
                for j in range(h['arg_count'] - 1):
                    nb['blocks'][bi]['stmts'].append({'k': 'assign', 'place': {'l': lo + 2 + j, 'p': []},
                                                      'rv': {'k': 'use', 'op': {'c': 'move', 'place': {'l': A, 'p': [{'f': j, 'name': str(j), 'adt': None}]}}}, 'span': t['span']})
                cont = bo + len(h['blocks'])
                k0 = 1 if byref else 0
                for hb in h['blocks']:
                    blk2 = _remap(hb, lo, bo, po)
                    pls2 = []
                    _all_places(blk2, pls2)
                    for pl in pls2:
                        if pl['l'] == lo + 1:
                            cap = agg['ops'][pl['p'][k0]['f']]['place']['l']
                            pl['p'] = pl['p'][k0 + 1:]
                            pl['l'] = cap
                    t2 = blk2['term']
                    if t2 and t2['k'] == 'return':
                        blk2['term'] = {'k': 'goto', 'target': cont, 'span': t2['span']}
                    nb['blocks'].append(blk2)
                nb['blocks'].append({'cleanup': False,
                                     'stmts': [{'k': 'assign', 'place': t['dest'], 'rv': {'k': 'use', 'op': {'c': 'move', 'place': {'l': lo, 'p': []}}}, 'span': t['span']}],
                                     'term': {'k': 'goto', 'target': t['target'], 'span': t['span']}})
                nb['blocks'][bi]['term'] = {'k': 'goto', 'target': bo, 'span': t['span']}
                done.append((bname, agg['closure']))
            bodies[bname] = nb
            changed = True
        if not changed:
            break
    return set(c for (a, c) in done if '{closure' in c)
