"""E4 — compile-fail witnesses: runs `cargo +nightly test --doc` on /verif/witness against the current tree and maps the
doc-test verdicts to rule instances (a witness holds iff its compile_fail test AND its compiling twin pass)."""
import os, re, shutil, subprocess, hashlib
from . import extract

PAIRS = {
    'W1': ('W1NotSyncRejected', 'W1Twin', 'a model that is not Sync is rejected by ParallelSolver::custom (E0277); the Sync twin compiles and solves'),
    'W2': ('W2CriticalIsPrivate', 'W2Twin', 'parallel::Critical cannot be named from outside its module (E0603); the public solver type can'),
    'W3': ('W3InitializeNeedsMut', 'W3Twin', 'SimpleCache can be updated through &self but not re-initialised through it (E0596)'),
}


def run(ctx, names, rule='W'):
    repo = extract.REPO
    src = os.path.join(extract.VERIF, 'witness')
    work = os.path.join(extract.CACHE, 'witness-work')
    os.makedirs(os.path.join(work, 'src'), exist_ok=True)
    os.makedirs(os.path.join(work, '.cargo'), exist_ok=True)
    with open(os.path.join(src, 'Cargo.toml')) as f:
        toml = f.read().replace('/repo/ddo', os.path.join(repo, 'ddo'))
    with open(os.path.join(work, 'Cargo.toml'), 'w') as f:
        f.write(toml)
    shutil.copy(os.path.join(src, 'src', 'lib.rs'), os.path.join(work, 'src', 'lib.rs'))
    shutil.copy(os.path.join(repo, 'Cargo.lock'), os.path.join(work, 'Cargo.lock'))
    with open(os.path.join(work, '.cargo', 'config.toml'), 'w') as f:
        f.write('[net]\noffline = true\n')
    env = dict(os.environ, CARGO_NET_OFFLINE='true', CARGO_TARGET_DIR=os.path.join(extract.CACHE, 'witness-target'))
    env.pop('RUSTC_WORKSPACE_WRAPPER', None)
    r = subprocess.run(['cargo', '+nightly', 'test', '--doc', '--offline'], cwd=work, env=env, stdout=subprocess.PIPE, stderr=subprocess.STDOUT, text=True)
    verdict = {}
    for m in re.finditer(r'test src/lib\.rs - (\w+) \(line \d+\)(?: - compile fail)? \.\.\. (\w+)', r.stdout):
        verdict[m.group(1)] = m.group(2)
    for n in names:
        (fail_t, twin_t, what) = PAIRS[n]
        ok = verdict.get(fail_t) == 'ok' and verdict.get(twin_t) == 'ok'
        ctx.check(ok, rule, 'witness/' + n, None, 'witness/src/lib.rs', 'compile-fail witness %s holds with its compiling twin: %s' % (n, what),
                  'compile-fail witness %s does not hold any more (witness: %s, twin: %s): %s' % (n, verdict.get(fail_t), verdict.get(twin_t), what))
    if not verdict:
        ctx.bad(rule, 'witness/build', None, 'witness/', 'the witness crate did not build against the current tree: %s' % r.stdout[-400:].replace('\n', ' | '))
