"""Jump threading with tail duplication on the raw fact bodies (after inlining): a block that assigns a CONSTANT (a bool, or an
aggregate of a known enum variant) to a local and then runs — through a short chain of blocks that only shuffle locals — into a switch
on that constant (or on its discriminant) continues directly at the matching target. The chain is duplicated for that predecessor, so
no statement is skipped and every other path keeps the original blocks. Only infeasible paths are removed (e.g. an inlined helper's
`return None` reaching the caller's `Some(..)` arm)."""
import copy

MAX_CHAIN = 8


TRY_BRANCH = 'std::ops::Try::branch'
FROM_RESIDUAL = 'std::ops::FromResidual::from_residual'
TRY_MAP = {'Some': 'Continue', 'Ok': 'Continue', 'None': 'Break', 'Err': 'Break'}


def _single_succ(t):
    if t is None:
        return None
    if t['k'] == 'goto':
        return t['target']
    if t['k'] == 'drop':
        return t.get('target')
    if t['k'] == 'call' and t.get('callee') == TRY_BRANCH:
        return t.get('target')      # `?`: a pure library call, its block may be duplicated
    return None


def _thread_one(b, P, max_new, dry=False):
    blocks = b['blocks']
    blk = blocks[P]
    if blk['cleanup']:
        return False
    t0 = blk['term']
    residual = None
    if t0 and t0['k'] == 'call' and t0.get('callee') == FROM_RESIDUAL and t0.get('target') is not None and not t0['dest']['p']:
        # `?` taking the error exit: the value built is Err(..) / None
        ty = (t0.get('arg_tys') or [''])[0]
        residual = 'Err' if ty.startswith('std::result::Result<') else ('None' if ty.startswith('std::option::Option<') else None)
    if residual is not None:
        nxt = t0['target']
    else:
        nxt = _single_succ(t0) if t0 and t0['k'] != 'call' else None
    if nxt is None:
        return False
    # constants known at the end of P
    known = {}          # local -> ('bool', v) | ('variant', name)
    for s in blk['stmts']:
        if s['k'] != 'assign':
            continue
        pl = s['place']
        if pl['p']:
            known.pop(pl['l'], None)
            continue
        rv = s['rv']
        if rv['k'] == 'use' and 'const' in rv['op'] and 'bool' in rv['op']['const']:
            known[pl['l']] = ('bool', bool(rv['op']['const']['bool']))
        elif rv['k'] == 'aggr' and rv.get('adt') and rv.get('variant') is not None:
            known[pl['l']] = ('variant', rv['variant'])
        else:
            known.pop(pl['l'], None)
    if blk['term']['k'] == 'drop':
        known.pop(blk['term']['place']['l'], None)
    if residual is not None:
        known = {t0['dest']['l']: ('variant', residual)}
    if not known:
        return False
    chain = []
    cur = nxt
    target = None
    seen = {P}
    while len(chain) < MAX_CHAIN:
        if cur in seen or blocks[cur]['cleanup']:
            return False
        seen.add(cur)
        cb = blocks[cur]
        discr = {}      # local -> int value of a known discriminant
        for s in cb['stmts']:
            if s['k'] != 'assign':
                continue
            pl = s['place']
            if pl['p']:
                return False          # a write through a projection: do not duplicate effects
            rv = s['rv']
            dst = pl['l']
            if rv['k'] == 'use' and 'place' in rv['op'] and not rv['op']['place']['p'] and rv['op']['place']['l'] in known:
                known[dst] = known[rv['op']['place']['l']]
            elif rv['k'] == 'use' and 'const' in rv['op'] and 'bool' in rv['op']['const']:
                known[dst] = ('bool', bool(rv['op']['const']['bool']))
            elif rv['k'] == 'discr' and not rv['place']['p'] and rv['place']['l'] in known and known[rv['place']['l']][0] == 'variant':
                vs = dict((n, v) for (n, v) in (rv.get('variants') or []))
                name = known[rv['place']['l']][1]
                known.pop(dst, None)
                if name in vs:
                    discr[dst] = vs[name]
            else:
                known.pop(dst, None)
                discr.pop(dst, None)
                # a borrow of a tracked local may let it change: stop tracking it
                if rv['k'] in ('ref', 'rawptr') and not rv['place']['p']:
                    known.pop(rv['place']['l'], None)
        t = cb['term']
        if t and t['k'] == 'switch' and 'place' in t['discr'] and not t['discr']['place']['p']:
            x = t['discr']['place']['l']
            val = None
            if x in discr:
                val = discr[x]
            elif x in known and known[x][0] == 'bool':
                val = 1 if known[x][1] else 0
            if val is None:
                return False
            target = t['otherwise']
            for v, tb in t['targets']:
                if v == val:
                    target = tb
            chain.append(cur)
            break
        nx = _single_succ(t)
        if nx is None:
            return False
        if t['k'] == 'drop':
            known.pop(t['place']['l'], None)
        if t['k'] == 'call':
            a0 = t['args'][0] if t['args'] else {}
            src = a0['place']['l'] if ('place' in a0 and not a0['place']['p']) else None
            dl = t['dest']['l'] if not t['dest']['p'] else None
            if dl is None:
                return False
            if src in known and known[src][0] == 'variant' and known[src][1] in TRY_MAP:
                known[dl] = ('variant', TRY_MAP[known[src][1]])
            else:
                known.pop(dl, None)
        chain.append(cur)
        cur = nx
        if not known:
            return False
    if target is None:
        return False
    if len(blocks) + len(chain) > max_new:
        return False
    if dry:
        return True
    # duplicate the chain for P
    base = len(blocks)
    for n, c in enumerate(chain):
        nb = copy.deepcopy(blocks[c])
        if n == len(chain) - 1:
            nb['term'] = {'k': 'goto', 'target': target, 'span': nb['term']['span']}
        else:
            nb['term']['target'] = base + n + 1
        blocks.append(nb)
    blk['term']['target'] = base
    return True


def apply(bodies, fresh):
    """bodies: name -> raw body (mutated in place only if the body object is listed in `fresh`, else copied first)"""
    done = 0
    for name in list(bodies):
        b = bodies[name]
        n0 = len(b['blocks'])
        limit = n0 + 64
        copied = name in fresh
        for P in range(n0):
            t = b['blocks'][P]['term']
            if not t or b['blocks'][P]['cleanup'] or not (t['k'] in ('goto', 'drop') or (t['k'] == 'call' and t.get('callee') == FROM_RESIDUAL)):
                continue
            if not copied:
                # cheap pre-check on the shared object before paying for a deep copy
                if not _thread_one(b, P, limit, dry=True):
                    continue
                b = copy.deepcopy(b)
                bodies[name] = b
                copied = True
            if _thread_one(b, P, limit):
                done += 1
    return done
