"""Jump threading with tail duplication on the raw fact bodies (after inlining): a block that assigns a CONSTANT (a bool, or an
aggregate of a known enum variant) to a local and then runs — through a short chain of blocks that only shuffle locals — into a switch
on that constant (or on its discriminant) continues directly at the matching target. The chain is duplicated for that predecessor, so
no statement is skipped and every other path keeps the original blocks. Only infeasible paths are removed (e.g. an inlined helper's
`return None` reaching the caller's `Some(..)` arm)."""
import copy

MAX_CHAIN = 16


TRY_BRANCH = 'std::ops::Try::branch'
FROM_RESIDUAL = 'std::ops::FromResidual::from_residual'
TRY_MAP = {'Some': 'Continue', 'Ok': 'Continue', 'None': 'Break', 'Err': 'Break'}


def _single_succ(t):
    if t is None:
        return None
    if t['k'] == 'goto':
        return t['target']
    if t['k'] == 'drop':
        return t.get('target')
    if t['k'] == 'call' and t.get('callee') == TRY_BRANCH:
        return t.get('target')      # `?`: a pure library call, its block may be duplicated
    return None


def _succs(t):
    if not t:
        return []
    k = t['k']
    out = []
    if k == 'goto':
        out = [t['target']]
    elif k == 'switch':
        out = [tb for (_, tb) in t['targets']] + [t['otherwise']]
    elif k in ('call', 'drop', 'assert'):
        out = [t.get('target')]
    return [x for x in out if x is not None]


def flag_constants(b):
    """{block: {local: bool}} — the value, at the ENTRY of each block, of the locals that are only ever assigned boolean constants and
    never borrowed (drop flags, hand-written boolean markers), when it is the same on every path into the block (forward must-analysis)"""
    blocks = b['blocks']
    cand, bad = set(), set()
    for blk in blocks:
        for st in blk['stmts']:
            if st['k'] != 'assign':
                continue
            pl, rv = st['place'], st['rv']
            if rv['k'] in ('ref', 'rawptr'):
                bad.add(rv['place']['l'])
            if pl['p']:
                bad.add(pl['l'])
            elif rv['k'] == 'use' and 'const' in rv['op'] and 'bool' in rv['op']['const']:
                cand.add(pl['l'])
            else:
                bad.add(pl['l'])
        t = blk['term']
        if t and t['k'] == 'call' and t.get('dest'):
            bad.add(t['dest']['l'])
    flags = cand - bad - set(range(0, b.get('arg_count', 0) + 1))
    if not flags:
        return {}
    IN = {0: {}}
    work = [0]
    n = 0
    while work and n < 20000:
        n += 1
        bb = work.pop()
        S = dict(IN[bb])
        for st in blocks[bb]['stmts']:
            if st['k'] == 'assign' and not st['place']['p'] and st['place']['l'] in flags:
                S[st['place']['l']] = bool(st['rv']['op']['const']['bool'])
        for tb in _succs(blocks[bb]['term']):
            if tb >= len(blocks) or blocks[tb]['cleanup']:
                continue
            if tb not in IN:
                IN[tb] = dict(S)
                work.append(tb)
            else:
                cur = IN[tb]
                new = {k: v for k, v in cur.items() if S.get(k) == v}
                if new != cur:
                    IN[tb] = new
                    work.append(tb)
    return IN


def _thread_one(b, P, max_new, dry=False, flags=None):
    blocks = b['blocks']
    blk = blocks[P]
    if blk['cleanup']:
        return False
    t0 = blk['term']
    residual = None
    if t0 and t0['k'] == 'call' and t0.get('callee') == FROM_RESIDUAL and t0.get('target') is not None and not t0['dest']['p']:
        # `?` taking the error exit: the value built is Err(..) / None
        ty = (t0.get('arg_tys') or [''])[0]
        residual = 'Err' if ty.startswith('std::result::Result<') else ('None' if ty.startswith('std::option::Option<') else None)
    if residual is not None:
        nxt = t0['target']
    else:
        nxt = _single_succ(t0) if t0 and t0['k'] != 'call' else None
    if nxt is None:
        return False
    # constants known at the end of P
    known = {}          # local -> ('bool', v) | ('variant', name)
    for l_, v_ in ((flags or {}).get(P) or {}).items():
        known[l_] = ('bool', v_)
    n_flags = len(known)
    for s in blk['stmts']:
        if s['k'] != 'assign':
            continue
        pl = s['place']
        if pl['p']:
            known.pop(pl['l'], None)
            continue
        rv = s['rv']
        if rv['k'] == 'use' and 'const' in rv['op'] and 'bool' in rv['op']['const']:
            known[pl['l']] = ('bool', bool(rv['op']['const']['bool']))
        elif rv['k'] == 'aggr' and rv.get('adt') and rv.get('variant') is not None:
            known[pl['l']] = ('variant', rv['variant'])
        else:
            known.pop(pl['l'], None)
    if blk['term']['k'] == 'drop':
        known.pop(blk['term']['place']['l'], None)
    if residual is not None:
        known[t0['dest']['l']] = ('variant', residual)
    if len(known) <= n_flags and not any(s_['k'] == 'assign' and not s_['place']['p'] and s_['place']['l'] in known for s_ in blk['stmts']):
        return False        # nothing is decided in P itself: a flag alone is threaded from the block that sets it
    chain = []
    resolved = {}       # index in chain -> target taken at a switch decided by what is known
    last_good = 0
    cur = nxt
    target = None
    seen = {P}
    while len(chain) < MAX_CHAIN:
        if cur in seen or blocks[cur]['cleanup']:
            break
        seen.add(cur)
        cb = blocks[cur]
        discr = {}      # local -> int value of a known discriminant
        stop = False
        for s in cb['stmts']:
            if s['k'] != 'assign':
                continue
            pl = s['place']
            if pl['p']:
                stop = True           # a write through a projection: do not duplicate effects
                break
            rv = s['rv']
            dst = pl['l']
            if rv['k'] == 'use' and 'place' in rv['op'] and not rv['op']['place']['p'] and rv['op']['place']['l'] in known:
                known[dst] = known[rv['op']['place']['l']]
            elif rv['k'] == 'use' and 'const' in rv['op'] and 'bool' in rv['op']['const']:
                known[dst] = ('bool', bool(rv['op']['const']['bool']))
            elif rv['k'] == 'discr' and not rv['place']['p'] and rv['place']['l'] in known and known[rv['place']['l']][0] == 'variant':
                vs = dict((n, v) for (n, v) in (rv.get('variants') or []))
                name = known[rv['place']['l']][1]
                known.pop(dst, None)
                if name in vs:
                    discr[dst] = vs[name]
            else:
                known.pop(dst, None)
                discr.pop(dst, None)
                # a borrow of a tracked local may let it change: stop tracking it
                if rv['k'] in ('ref', 'rawptr') and not rv['place']['p']:
                    known.pop(rv['place']['l'], None)
        if stop:
            break
        t = cb['term']
        if t and t['k'] == 'switch' and 'place' in t['discr'] and not t['discr']['place']['p']:
            x = t['discr']['place']['l']
            val = None
            if x in discr:
                val = discr[x]
            elif x in known and known[x][0] == 'bool':
                val = 1 if known[x][1] else 0
            if val is None:
                break
            tgt = t['otherwise']
            for v, tb in t['targets']:
                if v == val:
                    tgt = tb
            chain.append(cur)
            resolved[len(chain) - 1] = tgt
            target = tgt
            last_good = len(chain)
            # keep walking: what is known may decide a later switch as well (a drop-flag test in front of the caller's match)
            cur = tgt
            continue
        nx = _single_succ(t)
        if nx is None:
            break
        if t['k'] == 'drop':
            known.pop(t['place']['l'], None)
        if t['k'] == 'call':
            a0 = t['args'][0] if t['args'] else {}
            src = a0['place']['l'] if ('place' in a0 and not a0['place']['p']) else None
            dl = t['dest']['l'] if not t['dest']['p'] else None
            if dl is None:
                break
            if src in known and known[src][0] == 'variant' and known[src][1] in TRY_MAP:
                known[dl] = ('variant', TRY_MAP[known[src][1]])
            else:
                known.pop(dl, None)
        chain.append(cur)
        cur = nx
        if not known:
            break
    if not resolved:
        return False
    chain = chain[:last_good]
    target = resolved[last_good - 1]
    if len(blocks) + len(chain) > max_new:
        return False
    if dry:
        return True
    # duplicate the chain for P
    base = len(blocks)
    for n, c in enumerate(chain):
        nb = copy.deepcopy(blocks[c])
        if n == len(chain) - 1:
            nb['term'] = {'k': 'goto', 'target': target, 'span': nb['term']['span']}
        elif n in resolved:
            nb['term'] = {'k': 'goto', 'target': base + n + 1, 'span': nb['term']['span']}
        else:
            nb['term']['target'] = base + n + 1
        blocks.append(nb)
    blk['term']['target'] = base
    return True


def apply(bodies, fresh):
    """bodies: name -> raw body (mutated in place only if the body object is listed in `fresh`, else copied first)"""
    done = 0
    for name in list(bodies):
        b = bodies[name]
        n0 = len(b['blocks'])
        limit = n0 + 64
        copied = name in fresh
        flags = flag_constants(b)
        for P in range(n0):
            t = b['blocks'][P]['term']
            if not t or b['blocks'][P]['cleanup'] or not (t['k'] in ('goto', 'drop') or (t['k'] == 'call' and t.get('callee') == FROM_RESIDUAL)):
                continue
            if not copied:
                # cheap pre-check on the shared object before paying for a deep copy
                if not _thread_one(b, P, limit, dry=True, flags=flags):
                    continue
                b = copy.deepcopy(b)
                bodies[name] = b
                copied = True
            if _thread_one(b, P, limit, flags=flags):
                done += 1
    return done
