"""E3(b) — abstract interpretation of the MIR of the default method `Solver::gap` over sign/order cells.

Inputs: lb = best_lower_bound(), ub = best_upper_bound(), assumed lb <= ub. The input space is partitioned into cells
(class of lb, class of ub, lb = ub?, order of |lb| and |ub|); inside a cell every comparison between the symbolic
integer expressions below is decided, so the interpreter follows exactly the feasible paths of the cell (it forks when
it cannot decide). Abstract integers are exact symbolic expressions of (lb, ub):

  lb ub | a_lb a_ub (absolute values) | M m (max / min of the absolute values) | D = |ub - lb| | Mm = M - m | const c | TOP

Abstract floats: fconst c | cast(e) (int -> float conversion: monotone, exact at 0, positive stays positive, finite) |
div(x, y) | fsub(x, y) | fabs(x) | TOP.  Anything outside this language evaluates to TOP and the obligations fail closed.
"""
from . import mirlib as M

CLASSES = ('MIN', 'neg', 'zero', 'pos', 'MAX')
ORDER = {c: i for i, c in enumerate(CLASSES)}
IMAX = 2 ** 63 - 1
IMIN = -2 ** 63


def cells():
    out = []
    for slb in CLASSES:
        for sub in CLASSES:
            if ORDER[slb] > ORDER[sub]:
                continue
            rels = []
            if slb == sub:
                rels.append('eq')
                if slb in ('neg', 'pos'):
                    rels.append('lt')
            else:
                rels.append('lt')
            for rel in rels:
                for ar in _absrels(slb, sub, rel):
                    out.append({'lb': slb, 'ub': sub, 'rel': rel, 'abs': ar})
    return out


def _absrels(slb, sub, rel):
    if rel == 'eq':
        return ['=']
    if slb == 'MIN':
        return ['>']
    if slb == 'neg':
        if sub == 'neg':
            return ['>']
        if sub == 'zero':
            return ['>']
        if sub == 'pos':
            return ['<', '=', '>']
        if sub == 'MAX':
            return ['<', '=']          # lb = -MAX belongs to class neg
    if slb == 'zero':
        return ['<']
    if slb == 'pos':
        return ['<']
    return ['=']


def cell_name(c):
    return 'lb:%s ub:%s %s |lb|%s|ub|' % (c['lb'], c['ub'], 'lb=ub' if c['rel'] == 'eq' else 'lb<ub', c['abs'])


def infinite(c):
    return c['ub'] == 'MAX' or c['lb'] == 'MIN'


def opposite(c):
    return ORDER[c['lb']] < ORDER['zero'] < ORDER[c['ub']]


# ---- order oracle --------------------------------------------------------------------------------------------
def _alias(e, c):
    """canonical expression in the cell: M/m are one of a_lb/a_ub"""
    if e == 'M':
        return 'a_ub' if c['abs'] in '<=' else 'a_lb'
    if e == 'm':
        return 'a_lb' if c['abs'] in '<=' else 'a_ub'
    return e


def is_zero(e, c):
    """True / False / None (unknown) : e == 0 for every / no / some valuation of the cell"""
    if isinstance(e, tuple) and e[0] == 'const':
        return e[1] == 0
    e = _alias(e, c)
    if e == 'lb' or e == 'a_lb':
        return c['lb'] == 'zero'
    if e == 'ub' or e == 'a_ub':
        return c['ub'] == 'zero'
    if e == 'D':
        return c['rel'] == 'eq'
    if e == 'Mm':
        return c['abs'] == '='
    return None


def nonneg(e, c):
    if isinstance(e, tuple) and e[0] == 'const':
        return e[1] >= 0
    if e in ('a_lb', 'a_ub', 'M', 'm', 'D', 'Mm'):
        return True
    if e == 'lb':
        return ORDER[c['lb']] >= ORDER['zero']
    if e == 'ub':
        return ORDER[c['ub']] >= ORDER['zero']
    return None


def le(x, y, c):
    """x <= y in the cell: True / False / None"""
    if x == y:
        return True
    x, y = _alias(x, c), _alias(y, c)
    if x == y:
        return True
    zx, zy = is_zero(x, c), is_zero(y, c)
    if zx is True and nonneg(y, c):
        return True
    if zy is True and nonneg(x, c) and zx is False:
        return False
    if isinstance(x, tuple) and isinstance(y, tuple) and x[0] == y[0] == 'const':
        return x[1] <= y[1]
    pair = (x, y)
    if pair == ('lb', 'ub'):
        return True
    if pair == ('ub', 'lb'):
        return c['rel'] == 'eq'
    if pair == ('a_lb', 'a_ub'):
        return c['abs'] in '<='
    if pair == ('a_ub', 'a_lb'):
        return c['abs'] in '>='
    big = 'a_ub' if c['abs'] in '<=' else 'a_lb'       # = M
    small = 'a_lb' if big == 'a_ub' else 'a_ub'        # = m
    # D = M - m when the signs agree (or one is 0), M + m when they are opposite
    if x == 'D':
        if y == big:
            return not opposite(c)            # opposite: D = M + m > M (m > 0)
        if y == small:
            if opposite(c):
                return False
            return None
        if y == 'Mm':
            return not opposite(c)
    if y == 'D':
        if x == 'Mm':
            return True                        # M - m <= D always
        if x == big:
            if opposite(c):
                return True
            return is_zero(small, c) is True   # M <= M - m  iff m = 0
        if x == small:
            if opposite(c):
                return True
            return None
    if x == 'Mm' and y == big:
        return True
    if x == big and y == 'Mm':
        return is_zero(small, c) is True
    if x == small and y == big:
        return True
    if x == big and y == small:
        return c['abs'] == '='
    # constants against atoms
    if isinstance(y, tuple) and y[0] == 'const':
        cls = c['lb'] if x == 'lb' else c['ub'] if x == 'ub' else None
        if cls is not None:
            return _cls_le_const(cls, y[1])
    if isinstance(x, tuple) and x[0] == 'const':
        cls = c['lb'] if y == 'lb' else c['ub'] if y == 'ub' else None
        if cls is not None:
            r = _cls_ge_const(cls, x[1])
            return r
    return None


def _cls_range(cls):
    return {'MIN': (IMIN, IMIN), 'neg': (IMIN + 1, -1), 'zero': (0, 0), 'pos': (1, IMAX - 1), 'MAX': (IMAX, IMAX)}[cls]


def _cls_le_const(cls, k):
    lo, hi = _cls_range(cls)
    if hi <= k:
        return True
    if lo > k:
        return False
    return None


def _cls_ge_const(cls, k):
    lo, hi = _cls_range(cls)
    if lo >= k:
        return True
    if hi < k:
        return False
    return None


def eq(x, y, c):
    a, b = le(x, y, c), le(y, x, c)
    if a is True and b is True:
        return True
    if a is False or b is False:
        return False
    # x <= y known and x != y decidable through zero-ness
    if isinstance(y, tuple) and y[0] == 'const' and x in ('lb', 'ub'):
        cls = c['lb'] if x == 'lb' else c['ub']
        lo, hi = _cls_range(cls)
        if lo == hi:
            return lo == y[1]
        if not (lo <= y[1] <= hi):
            return False
    if isinstance(x, tuple) and x[0] == 'const' and y in ('lb', 'ub'):
        return eq(y, x, c)
    return None


# ---- abstract interpreter --------------------------------------------------------------------------------------
class Result:
    def __init__(self):
        self.returns = []   # (value, problems on the path, trace)


TOP = ('TOP',)


def interpret(body, cell):
    """returns list of (abstract return value, [problems], [blocks])"""
    out = []

    def const_of(op):
        c = op['const']
        if 'int' in c:
            return ('const', c['int'])
        if 'bool' in c:
            return ('bool', c['bool'])
        if 'float' in c:
            txt = c['float'].replace('f32', '').replace('f64', '').replace('_', '')
            try:
                return ('fconst', float(txt))
            except ValueError:
                pass
            # a named float constant: the literal its initialiser assigns (`const GAP_CLOSED: f32 = 0.0`)
            info = (body.facts.consts or {}).get(c.get('named') or '') if isinstance(body.facts.consts, dict) else None
            if info and 'body' in info:
                for blk in info['body'].get('blocks', []):
                    for st in blk['stmts']:
                        if st.get('k') == 'assign' and st['place']['l'] == 0 and not st['place']['p'] and st['rv'].get('k') == 'use' and 'const' in st['rv']['op']:
                            c2 = st['rv']['op']['const']
                            if 'float' in c2 and c2.get('float') != c.get('float'):
                                return const_of(st['rv']['op'])
                            if 'int' in c2:
                                return ('const', c2['int'])
            return TOP
        return TOP

    def rd_place(env, pl):
        v = env.get(pl['l'], TOP)
        for e in pl['p']:
            if e == 'deref':
                continue
            if isinstance(e, dict) and 'f' in e and isinstance(v, tuple) and v[0] == 'pair':
                v = v[1 + e['f']] if e['f'] < 2 else TOP
            elif isinstance(e, dict) and 'f' in e and isinstance(v, tuple) and v[0] == 'rec':
                v = v[1][e['f']] if e['f'] < len(v[1]) else TOP          # a field of a small struct / tuple built from the bounds
            else:
                return TOP
        return v

    def rd(env, op):
        if 'place' in op:
            return rd_place(env, op['place'])
        return const_of(op)

    def is_int(v):
        return v in ('lb', 'ub', 'a_lb', 'a_ub', 'M', 'm', 'D', 'Mm') or (isinstance(v, tuple) and v[0] == 'const')

    def cmp(op, a, b):
        if not (is_int(a) and is_int(b)):
            return None
        if op == 'Eq':
            return eq(a, b, cell)
        if op == 'Ne':
            r = eq(a, b, cell)
            return None if r is None else (not r)
        if op == 'Le':
            return le(a, b, cell)
        if op == 'Ge':
            return le(b, a, cell)
        if op == 'Lt':
            r = le(b, a, cell)
            return None if r is None else (not r)
        if op == 'Gt':
            r = le(a, b, cell)
            return None if r is None else (not r)
        return None

    def sub(a, b, problems, checked):
        """integer a - b: (value, overflow?)"""
        a_, b_ = _alias(a, cell) if isinstance(a, str) else a, _alias(b, cell) if isinstance(b, str) else b
        big = 'a_ub' if cell['abs'] in '<=' else 'a_lb'
        small = 'a_lb' if big == 'a_ub' else 'a_ub'
        if a_ == big and b_ == small:
            return 'Mm', False
        if a_ == small and b_ == big:
            if cell['abs'] == '=':
                return ('const', 0), False
            return TOP, True                      # unsigned underflow
        if (a, b) == ('ub', 'lb'):
            if opposite(cell) or cell['lb'] == 'MIN' and ORDER[cell['ub']] >= ORDER['zero']:
                return TOP, True                  # ub - lb may exceed isize::MAX
            return 'D', False
        if is_zero(b, cell) is True:
            return a, False
        if a == b:
            return ('const', 0), False
        return TOP, True

    def fzero(v):
        """float value is exactly 0: True/False/None"""
        if v[0] == 'fconst':
            return v[1] == 0.0
        if v[0] == 'cast':
            return is_zero(v[1], cell)
        if v[0] == 'fabs':
            return fzero(v[1])
        if v[0] == 'fsub':
            if v[1] == v[2]:
                return True
            return None                            # rounding can collapse two different integers
        if v[0] == 'div':
            zx = fzero(v[1])
            zy = fzero(v[2])
            if zy is False and zx is not None:
                # x / y with y > 0: zero iff x is zero (x >= 1 and y <= 2^64: no underflow in f32/f64)
                return zx if _int_backed(v[1]) and _int_backed(v[2]) else (True if zx else None)
            return None
        return None

    def _int_backed(v):
        return v[0] == 'cast' or (v[0] == 'fabs' and v[1][0] == 'cast')

    def fnonneg(v):
        if v[0] == 'fconst':
            return v[1] >= 0
        if v[0] == 'cast':
            return nonneg(v[1], cell)
        if v[0] == 'fabs':
            return True if not fnan(v[1]) else None
        if v[0] == 'fsub':
            if v[1][0] == 'cast' and v[2][0] == 'cast' and le(v[2][1], v[1][1], cell) is True:
                return True
            return None
        if v[0] == 'div':
            if fnan(v) is not False:
                return None
            a, b = fnonneg(v[1]), fnonneg(v[2])
            if a is True and b is True:
                return True
            return None
        return None

    def fnan(v):
        """may be NaN: False (never) / True (possible)"""
        if v[0] in ('fconst',):
            return v[1] != v[1]
        if v[0] == 'cast':
            return False
        if v[0] in ('fabs',):
            return fnan(v[1])
        if v[0] == 'fsub':
            return fnan(v[1]) or fnan(v[2])       # finite - finite is finite
        if v[0] == 'div':
            if fnan(v[1]) or fnan(v[2]):
                return True
            zx, zy = fzero(v[1]), fzero(v[2])
            if zy is False:
                return False
            if zx is False:
                return False                       # x/0 = +-inf, not NaN
            return True                            # 0/0 possible
        return True

    def fle_one(v):
        if v[0] == 'fconst':
            return v[1] <= 1.0
        if v[0] == 'div':
            if fzero(v[2]) is not False:
                return None if fzero(v[1]) is not True else None
            x, y = v[1], v[2]
            if x[0] == 'fabs':
                x = x[1] if x[1][0] == 'cast' and nonneg(x[1][1], cell) else x
            if x[0] == 'cast' and y[0] == 'cast' and nonneg(x[1], cell) and le(x[1], y[1], cell) is True:
                return True                        # monotone rounding: x <= y  =>  fl(x) <= fl(y)  =>  quotient <= 1
            if x[0] == 'cast' and y[0] == 'cast' and le(x[1], y[1], cell) is False:
                return False
            return None
        if v[0] == 'cast':
            return le(v[1], ('const', 1), cell)
        return None

    def run(bb, env, problems, trace, depth=0):
        if bb in trace:
            out.append((TOP, problems + ['loop in gap(): not analysable'], trace))
            return
        trace = trace + [bb]
        env = dict(env)
        for s in body.stmts(bb):
            if s['k'] != 'assign':
                continue
            rv = s['rv']
            k = rv['k']
            val = TOP
            if k == 'use':
                val = rd(env, rv['op'])
            elif k == 'ref':
                val = rd_place(env, rv['place'])
            elif k == 'bin':
                a, b = rd(env, rv['a']), rd(env, rv['b'])
                op = rv['op']
                if op in ('Eq', 'Ne', 'Lt', 'Le', 'Gt', 'Ge'):
                    r = cmp(op, a, b)
                    val = ('bool', r) if r is not None else ('bool', None)
                elif op in ('Sub', 'SubWithOverflow', 'SubUnchecked'):
                    if isinstance(a, tuple) and a[0] in ('cast', 'fabs', 'fsub', 'fconst', 'div') or isinstance(b, tuple) and b[0] in ('cast', 'fabs', 'fsub', 'fconst', 'div'):
                        val = ('fsub', a, b)
                    else:
                        v, ovf = sub(a, b, problems, op == 'SubWithOverflow')
                        if op == 'SubWithOverflow':
                            val = ('pair', v, ('bool', True if (ovf and v == TOP and False) else (None if ovf else False)))
                        else:
                            if ovf:
                                problems = problems + ['integer subtraction %s - %s may overflow/wrap at %s' % (a, b, body.loc(bb))]
                                v = TOP
                            val = v
                elif op == 'Div':
                    val = ('div', a, b) if isinstance(a, tuple) and isinstance(b, tuple) and a[0] in ('cast', 'fabs', 'fsub', 'fconst', 'div') else TOP
                    if val == TOP:
                        problems = problems + ['division outside the float fragment at %s' % body.loc(bb)]
                elif op in ('BitOr', 'BitAnd') and isinstance(a, tuple) and isinstance(b, tuple) and a[0] == b[0] == 'bool':
                    if op == 'BitOr':
                        val = ('bool', True if (a[1] is True or b[1] is True) else (False if (a[1] is False and b[1] is False) else None))
                    else:
                        val = ('bool', False if (a[1] is False or b[1] is False) else (True if (a[1] is True and b[1] is True) else None))
                else:
                    val = TOP
            elif k == 'aggr' and not rv.get('closure') and len(rv.get('ops') or []) <= 8 and (rv.get('variant') in (None, '0') or rv.get('tuple') or len(rv.get('fields') or []) == len(rv.get('ops') or [])):
                # a private struct / tuple that carries the bounds (`Bounds { ub, lb }`): a record of abstract values, read back field by field
                val = ('rec', tuple(rd(env, o_) for o_ in (rv.get('ops') or [])))
            elif k == 'un':
                a = rd(env, rv['a'])
                if rv['op'] == 'Not' and isinstance(a, tuple) and a[0] == 'bool':
                    val = ('bool', None if a[1] is None else (not a[1]))
                elif rv['op'] == 'Neg' and isinstance(a, tuple) and a[0] in ('cast', 'fconst'):
                    val = TOP
            elif k == 'cast':
                a = rd(env, rv['a'])
                kind = rv['kind']
                if kind == 'IntToFloat' and is_int(a):
                    val = ('cast', a)
                elif kind == 'IntToInt' and is_int(a):
                    ty = rv['ty']
                    if ty in ('i128', 'u128') or (ty in ('usize', 'u64') and nonneg(a, cell)) or (ty in ('isize', 'i64') and a in ('lb', 'ub')):
                        val = a
                    elif ty in ('isize', 'i64') and a in ('a_lb', 'a_ub', 'M', 'm', 'Mm') and cell['lb'] != 'MIN':
                        val = a
                    else:
                        val = TOP
                elif kind == 'FloatToFloat':
                    # f32 <-> f64: monotone, exact at 0 and 1, NaN preserving; quotients >= 2^-64 stay normal in f32
                    val = a if isinstance(a, tuple) and a[0] in ('cast', 'fconst', 'div', 'fabs', 'fsub') else TOP
                else:
                    val = TOP
            if s['place']['p']:
                continue
            env[s['place']['l']] = val
        t = body.term(bb)
        k = t['k']
        if k == 'return':
            out.append((env.get(0, TOP), problems, trace))
            return
        if k == 'goto':
            return run(t['target'], env, problems, trace)
        if k == 'assert':
            c = rd(env, t['cond'])
            may_fail = True
            if isinstance(c, tuple) and c[0] == 'bool' and c[1] is not None:
                may_fail = (c[1] != t['expected'])
            if may_fail:
                problems = problems + ['may panic: %s at %s' % (t['msg'][:60], body.loc(bb))]
            return run(t['target'], env, problems, trace)
        if k == 'switch':
            d = rd(env, t['discr'])
            if isinstance(d, tuple) and d[0] == 'bool' and d[1] is not None:
                tgt = None
                for v, tb in t['targets']:
                    if (v != 0) == d[1]:
                        tgt = tb
                if tgt is None:
                    tgt = t['otherwise']
                return run(tgt, env, problems, trace)
            # undecided: explore every edge (sound over-approximation)
            seen = set()
            for (tb, lab) in body.succ(bb):
                if tb not in seen and not body.is_cleanup(tb):
                    seen.add(tb)
                    run(tb, env, problems, trace)
            return
        if k == 'call':
            callee = t.get('callee') or ''
            last = callee.split('::')[-1]
            a = [rd(env, x) for x in t['args']]
            val = TOP
            if callee.endswith('Solver::best_upper_bound'):
                val = 'ub'
            elif callee.endswith('Solver::best_lower_bound'):
                val = 'lb'
            elif callee.startswith('core::num::') and last == 'unsigned_abs' and a[0] in ('lb', 'ub'):
                val = 'a_' + a[0]
            elif callee.startswith('core::num::') and last in ('abs', 'wrapping_abs', 'saturating_abs') and a[0] in ('lb', 'ub'):
                cls = cell[a[0]]
                if cls == 'MIN' and last != 'saturating_abs':
                    problems = problems + ['%s.abs() overflows for isize::MIN at %s' % (a[0], body.loc(bb))]
                    val = TOP
                else:
                    val = 'a_' + a[0]
            elif callee.startswith('core::num::') and last == 'abs_diff' and set(a[:2]) == {'lb', 'ub'}:
                val = 'D'
            elif callee.startswith('core::num::') and last == 'abs' and isinstance(a[0], tuple) and a[0][0] in ('cast', 'fsub', 'fabs', 'div'):
                val = ('fabs', a[0])
            elif (callee in M.MAX_CALLS or (callee.startswith('core::num::') and last == 'max')) and len(a) == 2:
                val = _minmax('max', a[0], a[1])
            elif (callee in M.MIN_CALLS or (callee.startswith('core::num::') and last == 'min')) and len(a) == 2:
                val = _minmax('min', a[0], a[1])
            elif callee.startswith('core::num::') and last in ('saturating_sub', 'wrapping_sub') and len(a) == 2:
                v, ovf = sub(a[0], a[1], problems, False)
                val = v if not ovf else TOP
            elif callee.startswith('core::num::') and last == 'checked_sub' and len(a) == 2:
                val = TOP
            else:
                problems = problems + ['call to %s is outside the analysed fragment (%s)' % (callee or '?', body.loc(bb))]
            pl = t['dest']
            if not pl['p']:
                env[pl['l']] = val
            if t.get('target') is None:
                return
            return run(t['target'], env, problems, trace)
        if k == 'drop':
            return run(t['target'], env, problems, trace)
        out.append((TOP, problems + ['unsupported terminator %s' % k], trace))

    def _minmax(kind, a, b):
        pair = {a, b} if isinstance(a, str) and isinstance(b, str) else None
        if pair == {'a_lb', 'a_ub'}:
            return 'M' if kind == 'max' else 'm'
        if is_int(a) and is_int(b):
            r = le(a, b, cell)
            if r is True:
                return b if kind == 'max' else a
            if r is False:
                return a if kind == 'max' else b
        return TOP

    import sys
    sys.setrecursionlimit(10000)
    run(0, {}, [], [])
    res = []
    for (v, problems, trace) in out:
        if not isinstance(v, tuple):
            v = ('cast', v) if v != TOP else TOP
        facts = {
            'value': v,
            'nan': fnan(v) if v != TOP else True,
            'nonneg': fnonneg(v) if v != TOP else None,
            'zero': fzero(v) if v != TOP else None,
            'le_one': fle_one(v) if v != TOP else None,
            'is_one': (v[0] == 'fconst' and v[1] == 1.0) if v != TOP else False,
            'problems': problems, 'trace': trace,
        }
        res.append(facts)
    return res


def show(v):
    if not isinstance(v, tuple):
        return str(v)
    if v[0] in ('cast', 'fabs'):
        return '%s(%s)' % ('float' if v[0] == 'cast' else 'abs', show(v[1]))
    if v[0] in ('div', 'fsub'):
        return '(%s %s %s)' % (show(v[1]), '/' if v[0] == 'div' else '-', show(v[2]))
    if v[0] in ('fconst', 'const'):
        return str(v[1])
    return str(v)
