"""Property registry: which rule functions decide which property, with the text that goes into the evidence."""
from .rules import solver_rules as S
from .rules import dd_rules as D

COMMON_ASSUME = [
    'rustc MIR construction, name resolution and the fact extractor (engine/factsdrv) are trusted',
    'user callbacks (Problem, Relaxation, rankings, Cutoff, Dominance) terminate and do not panic; unwinding paths are not analysed',
    'parking_lot, dashmap, binary_heap_plus and std behave as documented',
    'the check decides the listed structural clauses, which are necessary conditions of the property; it does not decide the behaviour as a whole',
]


def c01(ctx):
    S.r_prune_at_pop(ctx)
    S.r_compile_protocol(ctx)
    S.r_enqueue_guard(ctx)
    S.r_complete(ctx)


def c02(ctx):
    S.r_incumbent(ctx)
    S.r_complete(ctx)


def c03(ctx):
    S.r_prune_at_pop(ctx)
    S.r_compile_protocol(ctx)
    S.r_enqueue_guard(ctx)
    S.r_complete(ctx)
    S.r_locks(ctx)
    S.r_check_then_act(ctx)
    S.r_pop_discard(ctx)
    S.r_incumbent(ctx)
    keep = ('par/', 'lock', 'no-reentrant', 'one-acquisition', 'discard', 'mark', 'workitem', 'clear', 'regions')
    ctx.results[:] = [r for r in ctx.results if any(k in r['instance'] for k in keep) or r['verdict'] == 'VIOLATION' and r['rule'] in ('ANCHOR',)]


def c04(ctx):
    S.r_c04(ctx)
    S.r_locks(ctx, rule='R04.6')
    S.r_complete(ctx)
    ctx.results[:] = [r for r in ctx.results if r['rule'].startswith('R04') or r['rule'] == 'ANCHOR']


def c05(ctx):
    S.r_abort(ctx)


def c14(ctx):
    S.r_set_primal(ctx)
    S.r_prune_at_pop(ctx)
    S.r_enqueue_guard(ctx)
    S.r_incumbent(ctx)
    ctx.results[:] = [r for r in ctx.results if r['rule'] in ('R14.1', 'R01.1', 'R01.4', 'ANCHOR') or 'improve-only' in r['instance']]


def c19(ctx):
    S.r_c19(ctx)
    S.r_incumbent(ctx)
    S.r_set_primal(ctx)
    ctx.results[:] = [r for r in ctx.results if r['rule'].startswith('R19') or 'improve-only' in r['instance'] or '/strict' in r['instance'] or r['rule'] == 'ANCHOR']


def cdd(ctx):
    D.r_append(ctx)
    D.r_branch_on(ctx)
    D.r_compile(ctx)
    D.r_squash(ctx)
    D.r_restrict(ctx)
    D.r_relax(ctx)


PROPS = {
    'CDD': dict(fn=cdd, explanation='dev: all diagram rules'),
    'C01': dict(fn=c01, explanation='static rules over rustc MIR (edge-cut reachability, must-pass-through, origin terms): prune polarity at the pop/enqueue sites, restricted->relaxed->enqueue protocol, Complete only on an empty fringe'),
    'C02': dict(fn=c02, explanation='static rules over rustc MIR: incumbent value and solution written together from the exact accessors of one diagram, improve-only guard, reported value = best_sol.map(|_| best_lb)'),
    'C03': dict(fn=c03, explanation='static rules over rustc MIR on ParallelSolver: C01 clauses, lock regions (no re-entrant acquisition, one acquisition per check-then-act), pop-time discard polarity, cache mark guarded'),
    'C04': dict(fn=c04, explanation='checked premises P1-P8 of the deadlock-freedom argument (DESIGN.md C04) on the MIR of parallel.rs: pairing of ongoing, release on every worker exit, notify under lock, wait guards (path-consistent), completion guard, vector length coupled to nb_threads'),
    'C05': dict(fn=c05, explanation='static rules over rustc MIR: Err => abort_search on all paths, abort_proof set, completion unreachable after abort, bound stored at abort covers own node, in-flight nodes and fringe top'),
    'C14': dict(fn=c14, explanation='static rules over rustc MIR: set_primal strictness, both fields written under one guard, no prune site discards ub > best_lb'),
    'C19': dict(fn=c19, explanation='static rules over rustc MIR: best_ub := popped ub, child bound = min(parent, child), incumbent improve-only, Complete sets best_ub := best_lb'),
}
