"""Property registry: which rule functions decide which property, with the text that goes into the evidence."""
import traceback
from .core import MissingAnchor
from .rules import solver_rules as S
from .rules import dd_rules as D
from .rules import store_rules as T
from .rules import gap_rules as GR
from .rules import fringe_rules as FR
from .rules import width_rules as WR
from .rules import viz_rules as VR
from .rules import flags_rules as FL

COMMON_ASSUME = [
    'rustc MIR construction, name resolution and the fact extractor (engine/factsdrv) are trusted',
    'user callbacks (Problem, Relaxation, rankings, Cutoff, Dominance) terminate and do not panic; unwinding paths are not analysed',
    'parking_lot, dashmap, binary_heap_plus and std behave as documented',
    'the check decides the listed structural clauses, which are necessary conditions of the property; it does not decide the behaviour as a whole',
]

# rule function -> rule ids it can report (used to attribute a missing anchor / crash to the right properties)
from .rules import common as CM
RULE_FUNCS = [
    (S.r_prune_at_pop, ['R01.1']),
    (S.r_compile_protocol, ['R01.2', 'R01.3']),
    (S.r_enqueue_guard, ['R01.4']),
    (lambda ctx: S.r_enqueue_guard(ctx, rule='R19.2', need_min=True), ['R19.2']),
    (lambda ctx: S.r_locks(ctx, rule='R04.6'), ['R04.6']),
    (S.r_complete, ['R01.5', 'R02.3', 'R04.5']),
    (S.r_incumbent, ['R02.1', 'R02.2']),
    (S.r_set_primal, ['R14.1']),
    (S.r_locks, ['R03.a']),
    (S.r_check_then_act, ['R03.b']),
    (S.r_pop_discard, ['R03.pop', 'R09.7', 'R09.8']),
    (S.r_pop_unwrap, ['R04.9', 'R01.5']),
    (S.r_c04, ['R04.1', 'R04.2', 'R04.3', 'R04.4', 'R04.7', 'R04.8', 'R04.10', 'R05.4']),
    (S.r_abort, ['R05.2', 'R05.3', 'R05.4']),
    (S.r_c19, ['R19.1', 'R19.6']),
    (S.r_must_explore, ['R09.6']),
    (S.r_open_by_layer, ['R09.8']),
    (D.r_append, ['R02.4', 'R06.2', 'R12.a']),
    (D.r_branch_on, ['R12.a', 'R12.b']),
    (D.r_compile, ['R12.c', 'R12.d', 'R05.1', 'R01.6', 'R13.a', 'R06.3', 'R08.4', 'R07.5']),
    (D.r_squash, ['R01.7', 'R07.1', 'R13.b', 'R12.e', 'R08.3', 'R08.2']),
    (D.r_restrict, ['R13.b', 'R07.4']),
    (D.r_deleted_sites, ['R07.6']),
    (D.r_layers, ['R06.5']),
    (D.r_relax, ['R06.1', 'R12.e', 'R12.f', 'R13.b', 'R07.4']),
    (D.r_thresholds, ['R09.1', 'R09.2', 'R09.5']),
    (D.r_filters, ['R09.3', 'R09.4', 'R09.5', 'R10.6', 'R13.a']),
    (D.r_cutset, ['R08.1', 'R08.2', 'R08.3', 'R08.4', 'R08.5', 'R09.2']),
    (D.r_best_nodes, ['R02.5', 'R02.6']),
    (D.r_reset, ['R06.3', 'R02.5']),
    (FL.r_flags, ['R06.4']),
    (FL.r_flags_in_place, ['R06.4', 'R07.6']),
    (D.r_pooled_layers, ['R15.1', 'R15.2', 'R15.3', 'R15.5']),
    (GR.r_gap, ['R17']),
    (VR.r_viz, ['R20.a', 'R20.b', 'R20.c', 'R20.d']),
    (VR.r_viz_indexing, ['R20.a']),
    (VR.r_viz_escaping, ['R20.e']),
    (WR.r_width_combinators, ['R13.c']),
    (FR.r_simple_fringe, ['R11.a']),
    (FR.r_maxub, ['R11.b']),
    (FR.r_nodup, ['R11.c', 'R11.d', 'R11.e', 'R11.g']),
    (FR.r_heap_index, ['R11.f']),
    (T.r_partial_cmp, ['R10.1']),
    (T.r_dom_cmp, ['R10.2']),
    (T.r_dom_store, ['R10.3', 'R10.4', 'R10.5', 'R18.a', 'R18.c']),
    (T.r_cache_store, ['R18.a', 'R18.b', 'R18.c', 'R18.e']),
    (T.r_dashmap_guards, ['R18.a']),
    (T.r_neutral_components, ['R01.8']),
    (CM.r_key_equality, ['R11.d', 'R18.e', 'R10.5', 'R06.5']),
    (CM.r_clone_fidelity, ['R11.h', 'R18.e', 'R02.7']),
]


def run_rules(ctx, prefixes, keep=None):
    """run every rule function that can report one of `prefixes`; keep the results whose rule id matches"""
    pref = tuple(prefixes)
    for (fn, ids) in RULE_FUNCS:
        if not any(i.startswith(pref) for i in ids):
            continue
        n0 = len(ctx.results)
        try:
            fn(ctx)
        except MissingAnchor as e:
            for i in ids:
                ctx.bad(i, 'ANCHOR/' + str(e)[:80], None, '-', 'anchor missing: %s' % e)
        except Exception as e:
            tb = traceback.format_exc()
            import sys
            sys.stderr.write(tb)
            for i in ids:
                ctx.bad(i, 'ENGINE/crash', None, '-', 'analysis crashed in %s: %r' % (getattr(fn, '__name__', 'rule'), e))
    ctx.results[:] = [r for r in ctx.results if r['rule'].startswith(pref) and (keep is None or keep(r))]
    # R00.1 — guards hoisted out of a callee by the normalisation are judged for the properties whose rules analyse that callee (or the
    # caller the guard was hoisted into): a property that never looks at the function is not concerned
    analysed = set(r['fn'] for r in ctx.results if r.get('fn'))        # the functions the KEPT rule instances of this property are about
    n0 = len(ctx.results)
    try:
        CM.r_hoisted_guards(ctx)
    except Exception as e:
        ctx.bad('R00.1', 'ENGINE/crash', None, '-', 'analysis crashed in r_hoisted_guards: %r' % (e,))
    def concerned(r):
        if r['verdict'] != 'VIOLATION' or r['instance'] == 'ENGINE/crash':
            return r['instance'] == 'no-hoisted-guard' or r['instance'] == 'ENGINE/crash'
        callee_fn = r['instance'].split('/')[1].split('<-')[0]
        return any(b.endswith('::' + callee_fn) for b in analysed)       # the property has rule instances about the CALLEE itself
    ctx.results[n0:] = [r for r in ctx.results[n0:] if concerned(r) or (r['verdict'] == 'holds' and ((r['fn'] in analysed) or r['fn'] is None))]
    # de-duplicate (a rule function may be run for several prefixes)
    seen = set()
    out = []
    for r in ctx.results:
        k = (r['rule'], r['instance'], r['fn'], r['verdict'])
        if k not in seen:
            seen.add(k)
            out.append(r)
    ctx.results[:] = out


def mk(prefixes, keep=None):
    # R00.* (judgement of the normalisations themselves) belongs to every property
    return lambda ctx: run_rules(ctx, prefixes, keep)


def _c03_keep(r):
    if r['rule'] == 'R05.2':
        return r['instance'] == 'par/aborted-only-after-abort'
    if r['rule'].startswith(('R03', 'R02.2')):
        return True
    if r['rule'].startswith(('R01.1', 'R01.2', 'R01.3', 'R01.4', 'R01.5', 'R02.1', 'R02.3', 'R09.7', 'R09.8')):
        return r['instance'].startswith('par/')          # solver-level rules: the parallel instances only
    if 'threshold-order' in r['instance'] or 'threshold-no-manual' in r['instance']:
        return False
    return not r['instance'].startswith('seq/')           # shared diagrams, stores and fringes


C01_RULES = ['R05.2', 'R01.', 'R07.1', 'R07.5', 'R07.6', 'R15.5', 'R15.2', 'R15.1', 'R06.', 'R08.', 'R09.', 'R10.', 'R11.', 'R12.', 'R18.', 'R02.1', 'R02.4', 'R02.5', 'R02.6']


def _c01_keep_both(r):
    if r['rule'] == 'R05.2':
        return 'aborted-only' in r['instance']       # an uninterrupted run must not stop as if it had been aborted
    return 'threshold-order' not in r['instance'] and 'threshold-no-manual' not in r['instance']


def _c01_keep(r):
    return not r['instance'].startswith('par/') and _c01_keep_both(r)


PROPS = {
    'C01': dict(fn=mk(C01_RULES, lambda r: _c01_keep(r)), explanation='prune polarity at the pop / enqueue / rough-bound sites, restricted->relaxed->enqueue protocol, Complete only on an empty fringe, exactness withdrawn on every path that squashes a layer'),
    'C02': dict(fn=mk(['R02.', 'R12.a', 'R06.1', 'R06.2', 'R06.3', 'R11.d', 'R11.e', 'R11.h', 'R08.1', 'R15.2'], lambda r: r['rule'] != 'R15.2' or 'depth' in r['instance']), explanation='incumbent value and solution written together from the exact accessors of one diagram (one lock region in the parallel solver), improve-only guard, reported value = best_sol.map(|_| best_lb); longest-path max-update with witness edge; value and path read from one node; exact-best selection table'),
    'C03': dict(technique='repository-specific static rules over rustc MIR (rustc_private driver): edge-cut reachability, must-pass-through, origin terms, lock regions; compile_fail witnesses (Send + Sync models, private shared state)', witnesses=['W1', 'W2'], fn=mk(['R05.2', 'R01.', 'R02.', 'R03.', 'R04.9', 'R04.7', 'R04.10', 'R13.c', 'R06.', 'R07.1', 'R07.5', 'R07.6', 'R15.5', 'R15.2', 'R15.1', 'R08.', 'R09.', 'R10.', 'R11.', 'R12.', 'R18.'], _c03_keep), explanation='C01 clauses instantiated on ParallelSolver, lock regions (no re-entrant acquisition, one acquisition per check-then-act), pop-time discard polarity, cache mark guarded by must_explore'),
    'C04': dict(technique='repository-specific static rules over rustc MIR (rustc_private driver): edge-cut reachability, must-pass-through, origin terms, lock regions; path-consistent guard enumeration for the condvar protocol; lower-bound interval domain (at least one worker)', fn=mk(['R04.', 'R11.c', 'R09.8', 'R18.a', 'R13.c', 'R08.3'], lambda r: r['rule'].startswith(('R04', 'R11', 'R18', 'R13.c', 'R08.3')) or r['instance'].startswith(('par/', 'clear-zeroes'))), explanation='checked premises P1-P9 of the deadlock-freedom argument (DESIGN.md C04): pairing of ongoing, release on every worker exit, wake-up not before the decrement, wait guards (path-consistent enumeration), completion guard, no re-entrant lock, vector length coupled to nb_threads, spawn range, at least one worker (lower-bound interval domain on every writer of nb_threads); a zero width (which panics a worker) is excluded on the combinators, and the progress rule of the pooled diagram (a root handed back for ever) is included'),
    'C05': dict(fn=mk(['R05.', 'R19.1', 'R19.2', 'R11.', 'R02.1', 'R02.5', 'R01.2', 'R01.3'] + C01_RULES, lambda r: _c01_keep_both(r) or r['rule'].startswith(('R05', 'R19'))), explanation='cutoff => Err without finalisation; Err => abort_search on all paths; abort_proof set; completion unreachable after abort; bound stored at abort covers own node, in-flight nodes and fringe top; sequential best_ub written at pop only; the exactness clause (is_exact only if the value really is the optimum) makes every optimality rule of C01 / C03 a necessary condition as well'),
    'C06': dict(fn=mk(['R06.', 'R02.4', 'R02.6', 'R01.6', 'R01.7', 'R12.e', 'R12.d', 'R07.5', 'R05.1', 'R10.', 'R18.', 'R09.3', 'R09.4', 'R15.1'], lambda r: 'threshold-order' not in r['instance'] and 'threshold-no-manual' not in r['instance']), explanation='arc redirection with relaxed cost, relaxed/deleted flags, exactness propagation, complete reset between compilations (field table from the ADT), flag bits and tables, rough-bound pruning direction, exactness withdrawn when squashing; dominance comparison / store tables, cache-store rules and the in-layer filters (a fresh dominance checker or a cleared cache is an empty store: a wrong comparison prunes inside one isolated compilation)'),
    'C07': dict(fn=mk(['R07.', 'R01.7', 'R02.4', 'R02.5', 'R02.6', 'R13.a', 'R13.b', 'R06.3', 'R12.a', 'R12.d', 'R05.1', 'R10.', 'R18.', 'R09.', 'R15.1'], lambda r: 'threshold-order' not in r['instance'] and 'threshold-no-manual' not in r['instance']), explanation='restricted never merges, exact never squashes, truncation withdraws exactness and flags dropped nodes, squash order, value and path from one node through the best-edge chain, expanded vector is the squashed one; dominance and cache-store rules, threshold rules, the impact query of the pooled diagram'),
    'C08': dict(fn=mk(['R08.', 'R01.4', 'R15.3', 'R15.2', 'R15.1', 'R10.', 'R18.', 'R09.3', 'R09.4', 'R12.e', 'R12.d', 'R06.1', 'R06.2', 'R06.3', 'R02.6', 'R02.4', 'R07.5'], lambda r: (r['rule'] != 'R12.e' or 'relax-' in r['instance'] or 'merge' in r['instance']) and (r['rule'] != 'R15.2' or 'depth' in r['instance']) and 'threshold-order' not in r['instance'] and 'threshold-no-manual' not in r['instance']), explanation='sub-problem fields from one exact, marked node; frontier/LEL admission; progress (first layer never squashed; root test for diagrams that keep nodes in the pool); ub term set; local-bound max-update; push unless ub <= best_lb; dominance and cache-store rules, in-layer filters, depth bookkeeping and impact query of the pooled diagram'),
    'C09': dict(fn=mk(['R09.', 'R18.', 'R03.pop', 'R07.5', 'R07.6', 'R15.5', 'R08.3', 'R08.5', 'R01.8', 'R01.3', 'R10.4'], lambda r: 'threshold-order' not in r['instance'] and 'threshold-no-manual' not in r['instance']), explanation='who writes thresholds and when; explored flag; filter below the root only; filter polarity and theta inheritance; closed list of theta writes with their guards; cache entry fields; mark at pop; must_explore before compiling'),
    'C10': dict(technique='decision-table extraction from rustc MIR by exhaustive case / path enumeration over the finite ordering domains (compared with the product-order / Pareto specification tables); origin terms for keys and thresholds', fn=mk(['R10.', 'R07.6', 'R15.5', 'R01.8', 'R18.', 'R09.'], lambda r: 'threshold-order' not in r['instance'] and 'threshold-no-manual' not in r['instance']), explanation='decision tables extracted by path enumeration with literal consistency: partial_cmp loop automaton (9 cases) and value stage (9 cases), cmp polarity, retain closure table, threshold terms, store keys, in-layer filtering protocol; cache-store and threshold rules (the thresholds that the dominance filter hands to the cache)'),
    'C11': dict(technique='repository-specific static rules over rustc MIR (rustc_private driver): edge-cut reachability, must-pass-through, origin terms, lock regions; finite-case decision tables (merge of duplicates, bubble steps), linear-form / parity evaluation of the heap index arithmetic, structural key equality', fn=mk(['R11.']), explanation='SimpleFringe delegation to BinaryHeap with CompareSubProblem(MaxUB); MaxUB lexicographic order and operand order; NoDupFringe: len/is_empty/clear, pop/push pairing (slot recycled, key forgotten, position recorded), swaps update both tables, dedup key derived from state AND depth, merge table of the Occupied arm (9 cases), bubble-up decision on the merged candidate'),
    'C12': dict(fn=mk(['R12.', 'R15.2', 'R15.1', 'R11.d', 'R11.e', 'R11.h', 'R06.3', 'R08.1']), explanation='provenance (origin terms) of every argument of transition, transition_cost, relax, merge, for_each_in_domain, next_variable; who may call _branch_on; depth counter; merged slice has at least two members; clone fidelity of SubProblem (the fringe hands a clone back) and the impact query of the pooled diagram'),
    'C13': dict(technique='static rules over rustc MIR: must-pass-through (squash before expansion), symbolic vector-length accounting (truncate / push per path), lower-bound interval domain on the width combinators', fn=mk(['R13.', 'R01.2'], lambda r: r['rule'].startswith('R13') or 'max_width' in r['instance']), explanation='squash executed on every expanded layer vector; symbolic length <= max_width at every exit of _restrict/_relax; width guards'),
    'C14': dict(fn=mk(['R14.', 'R02.1', 'R02.2'] + C01_RULES, lambda r: _c01_keep_both(r)), explanation='set_primal strictness table, both fields under one guard; no prune site (pop, enqueue, rough bound, cache filter) discards a node with ub > best_lb; incumbent replaced only on improvement; with a primal of minus infinity the statement is plain optimality, so every optimality rule of C01 / C03 (both solvers) is a necessary condition as well'),
    'C15': dict(fn=mk(['R11.d', 'R03.pop', 'R15.', 'R07.5', 'R08.', 'R12.', 'R06.1', 'R06.2', 'R06.3', 'R09.', 'R02.4', 'R02.5', 'R02.6', 'R13.a', 'R13.b', 'R01.6', 'R01.7'], lambda r: r['rule'].startswith('R15') or r['rule'] in ('R09.6', 'R09.7', 'R11.d', 'R03.pop') or r['instance'].startswith('Pooled')), explanation='Pooled: un-impacted nodes are neither expanded nor removed from the pool; depth assigned when a node leaves the pool and at finalisation; a layer is recorded only when non-empty; progress rule (root never handed out) shared with C08; plus every diagram rule instantiated on Pooled (cut-set, local bounds, thresholds, callback protocol, reset, squash)'),
    'C17': dict(fn=mk(['R17', 'R02.3', 'R05.3', 'R05.4', 'R19.6'] + C01_RULES, lambda r: r['rule'].startswith('R17') or r['rule'] in ('R05.3', 'R05.4', 'R19.6') or (r['rule'].startswith(tuple(C01_RULES)) and _c01_keep_both(r)) or 'bound()' in r['instance'] or 'complete-sets-ub' in r['instance']), level='proof', explanation='abstract interpretation of the MIR of Solver::gap over a partition of all (lb <= ub) into sign/order cells; in each cell every comparison between the symbolic expressions (|lb|, |ub|, max, min, |ub-lb|) is decided, so all feasible paths are followed; obligations per cell: not NaN / no panic, >= 0, = 1 when a bound is infinite, = 0 iff lb = ub, <= 1 when the bounds have the same sign',
                obligations=lambda results: len(results), level_note='Trusted: rustc MIR construction, the fact extractor, the transfer functions of absint_gap.py. The gap function itself is decided completely; the additional structural rules (accessors return the bound fields, completion sets ub := lb in both solvers, no completion after an abort, the bound stored by a parallel abort covers everything that is left; and, for the reading "zero only at optimality" of the title, the optimality rules of C01 / C03: a run that ends with lb = ub on a wrong value reports gap 0) are the necessary conditions under which the bounds fed to gap() are the solver\'s real bounds.', checker_cmd='./check C17 quick',
                trusted_base=['rustc MIR construction', 'engine/factsdrv', 'absint_gap.py transfer functions (int->float conversion is monotone, exact at 0 and keeps positive values positive and finite; x/y with 1 <= x, y <= 2^64 does not underflow; IEEE division)'],
                technique='abstract interpretation (sign/order-cell domain) of the MIR of Solver::gap', level_text='Proof by abstract interpretation: every obligation of the property statement is discharged in every input cell (the cells cover all pairs lb <= ub); no clause of the statement is left undecided.'),
    'C18': dict(technique='static rules over rustc MIR: one DashMap accessor per read-modify-write, guard-lifetime overlap, origin terms (max-update), ADT field-order / derive tables; compile_fail witnesses', witnesses=['W1', 'W3'], fn=mk(['R18.', 'R10.1', 'R10.3', 'R10.4', 'R10.5']), explanation='one DashMap::entry call per read-modify-write (no second accessor), update = Ord::max(new, old), Threshold field order and derives, per-layer indexing, clear/clear_layer/initialize, dominance tables'),
    'C19': dict(fn=mk(['R19.', 'R02.1', 'R14.1', 'R05.', 'R11.'] + C01_RULES, lambda r: r['rule'].startswith(('R19', 'R11')) or 'improve-only' in r['instance'] or '/strict' in r['instance'] or
                      (r['rule'].startswith('R05') and (r['instance'].startswith(('seq/', 'ANCHOR')) or 'sequential' in (r['fn'] or ''))) or
                      (r['rule'].startswith(tuple(C01_RULES)) and _c01_keep(r))),
                explanation='best_ub := popped ub, child bound = min(parent, child), incumbent improve-only, Complete sets best_ub := best_lb, sequential abort handling (the bound reported at a cut-off), fringe order (the reported bound is the top of the fringe); the last clause (from some index on the run is exact with both bounds equal to the optimum) is sequential optimality, so the rules of C01 are necessary conditions as well'),
    'C20': dict(technique='repository-specific static rules over rustc MIR (rustc_private driver): edge-cut reachability, must-pass-through, origin terms, lock regions; panic-site inventory over the call graph, ID provenance for indexing, forward taint analysis (user text to the returned String)', fn=mk(['R20.', 'R15.2', 'R07.6', 'R07.4', 'R06.1', 'R06.4', 'R02.4'], lambda r: r['rule'].startswith(('R20', 'R07.6', 'R06.4')) or 'terminal-layer' in r['instance'] or 'created-' in r['instance'] or 'restrict-deletes-dropped' in r['instance'] or 'arcs-are-never-rewritten' in r['instance'] or 'every-arc-is-stored' in r['instance']), explanation='panic-site inventory of as_graphviz (call graph) with its discharge (layers non-empty after every successful compilation), one emission per visible node (skip only when hidden by configuration), edge label provenance over the inbound list, terminal drawn only when the terminal container is non-empty, user text (Debug of the states) reaches the returned String only through an escaping of the double quote and the backslash (forward taint analysis, taint.py); flag tables and in-place mutation of flags (the deleted flag decides what is drawn), the restricted layer flags exactly the dropped nodes'),
}
