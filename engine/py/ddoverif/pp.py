"""Human-readable rendering of the fact base (development aid and violation reports)."""

def place(p):
    s = '_%d' % p['l']
    for e in p['p']:
        if e == 'deref':
            s = '(*%s)' % s
        elif 'f' in e:
            s = '%s.%s' % (s, e['name'])
        elif 'idx' in e:
            s = '%s[_%d]' % (s, e['idx'])
        elif 'cidx' in e:
            s = '%s[%s%d]' % (s, '-' if e.get('from_end') else '', e['cidx'])
        elif 'dc' in e:
            s = '(%s as %s)' % (s, e['dc'])
        elif 'subslice' in e:
            s = '%s[%d..%d]' % (s, e['subslice'][0], e['subslice'][1])
        else:
            s = '%s.?%s' % (s, e)
    return s

def operand(o):
    if 'place' in o:
        return ('move ' if o['c'] == 'move' else '') + place(o['place'])
    if 'const' in o:
        c = o['const']
        if 'fn' in c:
            return 'fn ' + c['fn']
        if 'param' in c:
            return 'param ' + c['param']
        if 'int' in c:
            return ('%s=' % c['named'].split('::')[-1] if 'named' in c else '') + str(c['int']) + '_' + c['ty']
        if 'bool' in c:
            return str(c['bool']).lower()
        if 'promoted' in c:
            return 'promoted[%d]' % c['promoted']
        if 'named' in c:
            return 'const ' + c['named']
        return 'const ' + c.get('dbg', c.get('float', '?')) + ':' + c['ty']
    return str(o)

def rvalue(r):
    k = r['k']
    if k == 'use': return operand(r['op'])
    if k == 'ref': return ('&mut ' if r['mut'] else '&') + place(r['place'])
    if k == 'rawptr': return '&raw ' + place(r['place'])
    if k == 'bin': return '%s(%s, %s)' % (r['op'], operand(r['a']), operand(r['b']))
    if k == 'un': return '%s(%s)' % (r['op'], operand(r['a']))
    if k == 'cast': return '%s as %s (%s)' % (operand(r['a']), r['ty'], r['kind'])
    if k == 'discr': return 'discriminant(%s)' % place(r['place'])
    if k == 'repeat': return '[%s; %s]' % (operand(r['op']), r['n'])
    if k == 'aggr':
        ops = [operand(o) for o in r['ops']]
        if 'adt' in r:
            return '%s::%s{%s}' % (r['adt'].split('::')[-1], r['variant'], ', '.join('%s: %s' % (f, o) for f, o in zip(r['fields'], ops)))
        if 'closure' in r:
            return 'closure %s [%s]' % (r['closure'], ', '.join(ops))
        return '(%s)' % ', '.join(ops)
    return r.get('dbg', str(r))

def sp(s):
    return '%s:%d' % (s['file'].split('/src/')[-1], s['line']) + ((' <%s>' % s['exp']) if s.get('exp') else '')

def loc(s):
    """file:line for reports"""
    return '%s:%d' % (s['file'], s['line'])

def term(t):
    k = t['k']
    if k == 'goto': return 'goto bb%d' % t['target']
    if k == 'switch':
        return 'switch(%s) [%s, otherwise: bb%d]' % (operand(t['discr']), ', '.join('%d: bb%d' % (v, b) for v, b in t['targets']), t['otherwise'])
    if k == 'call':
        c = t['callee'] or ('indirect ' + operand(t.get('func', {})))
        extra = ''
        if t.get('self_ty'): extra = ' <Self=%s>' % t['self_ty']
        if t.get('resolved'): extra += ' =>' + t['resolved']
        return '%s = %s(%s)%s -> %s' % (place(t['dest']), c, ', '.join(operand(a) for a in t['args']), extra,
                                        'bb%d' % t['target'] if t['target'] is not None else '!')
    if k == 'drop': return 'drop(%s) -> bb%d' % (place(t['place']), t['target'])
    if k == 'assert': return 'assert(%s == %s) -> bb%d' % (operand(t['cond']), t['expected'], t['target'])
    return k

def body(name, b, out=None):
    import sys
    out = out or sys.stdout
    out.write('fn %s  [%s] args=%d\n' % (name, b['kind'], b['arg_count']))
    for d in b['debug']:
        v = d['v']
        out.write('  debug %s => %s\n' % (d['name'], place(v) if 'l' in v else operand(v)))
    for i, l in enumerate(b['locals']):
        out.write('  let _%d: %s\n' % (i, l['ty']))
    for i, blk in enumerate(b['blocks']):
        out.write(' bb%d%s:\n' % (i, ' (cleanup)' if blk['cleanup'] else ''))
        for s in blk['stmts']:
            if s['k'] == 'assign':
                out.write('    %s = %s   // %s\n' % (place(s['place']), rvalue(s['rv']), sp(s['span'])))
            else:
                out.write('    %s %s\n' % (s['k'], place(s['place'])))
        if blk['term']:
            out.write('    %s   // %s\n' % (term(blk['term']), sp(blk['term']['span'])))
    for i, p in enumerate(b.get('promoted', [])):
        out.write(' promoted[%d]:\n' % i)
        for j, blk in enumerate(p['blocks']):
            for s in blk['stmts']:
                if s['k'] == 'assign':
                    out.write('    %s = %s\n' % (place(s['place']), rvalue(s['rv'])))

if __name__ == '__main__':
    import sys, os
    sys.path.insert(0, os.path.join(os.path.dirname(__file__), '..'))
    from ddoverif import extract
    d, _ = extract.extract(os.environ.get('CFG', 'dev'))
    pat = sys.argv[1]
    skip_cleanup = True
    for k, b in d['bodies'].items():
        if pat in k:
            body(k, b)
            print()
