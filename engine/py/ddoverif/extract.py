"""E1 front end: run the rustc_private fact extractor over /repo's *current working tree*
under the real cargo build and return the fact document (cached by content hash)."""
import fcntl, hashlib, json, os, shutil, subprocess, sys, time, uuid

VERIF = os.path.abspath(os.path.join(os.path.dirname(__file__), '..', '..', '..'))
REPO = os.environ.get('DDO_REPO', '/repo')
CACHE = os.environ.get('VERIF_CACHE_DIR') or os.path.join(VERIF, '.cache')   # the override is a development aid (parallel scratch runs)
DRIVER_DIR = os.path.join(VERIF, 'engine', 'factsdrv')
DRIVER = os.path.join(DRIVER_DIR, 'target', 'release', 'factsdrv')

CONFIGS = {
    # dev profile: overflow checks on (a - b appears as SubWithOverflow + Assert)
    'dev': '-Zmir-opt-level=0 -Awarnings',
    # release-shaped MIR: no overflow checks, no debug assertions
    'rel': '-Zmir-opt-level=0 -Awarnings -C debug-assertions=off -C overflow-checks=off',
}


def _sha_file(h, path):
    h.update(path.encode())
    with open(path, 'rb') as f:
        h.update(f.read())


def source_files(repo=REPO):
    out = []
    for rel in ('Cargo.toml', 'Cargo.lock', 'ddo/Cargo.toml', 'ddo/build.rs', 'rust-toolchain', 'rust-toolchain.toml'):
        p = os.path.join(repo, rel)
        if os.path.isfile(p):
            out.append(p)
    for root in ('.cargo', 'ddo/src'):
        for d, _, fs in os.walk(os.path.join(repo, root)):
            for f in fs:
                out.append(os.path.join(d, f))
    return sorted(out)


def tree_hash(repo=REPO):
    h = hashlib.sha256()
    for p in source_files(repo):
        _sha_file(h, p)
    if os.path.isfile(DRIVER):
        _sha_file(h, DRIVER)
    if not os.environ.get('VERIF_NO_CANON'):
        # the cached document is the name-canonicalised one (canon.py): key the cache by the resolver and its reference too
        from . import canon
        from . import hoist
        for p in (canon.REF, canon.__file__, hoist.__file__):
            if os.path.isfile(p):
                _sha_file(h, p)
    else:
        h.update(b'raw')
    return h.hexdigest()[:20]


def ensure_driver():
    if os.path.isfile(DRIVER):
        return
    env = dict(os.environ, CARGO_NET_OFFLINE='true')
    r = subprocess.run(['cargo', 'build', '--release', '--offline'], cwd=DRIVER_DIR, env=env,
                       stdout=subprocess.PIPE, stderr=subprocess.STDOUT, text=True)
    if r.returncode != 0 or not os.path.isfile(DRIVER):
        sys.stderr.write(r.stdout)
        raise SystemExit('cannot build the fact extractor (engine/factsdrv)')


def _sysroot():
    return subprocess.run(['rustc', '+nightly', '--print', 'sysroot'], stdout=subprocess.PIPE, text=True,
                          check=True).stdout.strip()


def extract(config='dev', repo=REPO, verbose=False):
    """Returns (facts dict, info dict). Always reflects the current content of `repo`."""
    assert config in CONFIGS
    os.makedirs(CACHE, exist_ok=True)
    ensure_driver()
    lock = open(os.path.join(CACHE, 'lock'), 'w')
    fcntl.flock(lock, fcntl.LOCK_EX)
    try:
        h = tree_hash(repo)
        cached = os.path.join(CACHE, 'facts-%s-%s.json' % (h, config))
        if os.path.isfile(cached):
            with open(cached) as f:
                doc = json.load(f)
            return doc, {'hash': h, 'config': config, 'cached': True, 'extract_s': 0.0, 'path': cached}
        t0 = time.time()
        target = os.path.join(CACHE, 'target-' + config)
        # cargo's freshness cache would skip the wrapper: forget everything about the member crate
        for sub in ('.fingerprint', 'deps', 'incremental'):
            d = os.path.join(target, 'debug', sub)
            if os.path.isdir(d):
                for e in os.listdir(d):
                    if e.startswith('ddo-') or e.startswith('libddo-'):
                        p = os.path.join(d, e)
                        shutil.rmtree(p) if os.path.isdir(p) else os.unlink(p)
        nonce = uuid.uuid4().hex
        out = os.path.join(CACHE, 'facts-tmp-%s.json' % nonce)
        env = dict(os.environ)
        env.update({
            'LD_LIBRARY_PATH': _sysroot() + '/lib' + (':' + env['LD_LIBRARY_PATH'] if env.get('LD_LIBRARY_PATH') else ''),
            'RUSTFLAGS': CONFIGS[config],
            'RUSTC_WORKSPACE_WRAPPER': DRIVER,
            'CARGO_TARGET_DIR': target,
            'CARGO_NET_OFFLINE': 'true',
            'FACTS_OUT': out, 'FACTS_NONCE': nonce, 'FACTS_CONFIG': config, 'FACTS_CRATE': 'ddo',
        })
        env.pop('RUSTC_WRAPPER', None)
        r = subprocess.run(['cargo', '+nightly', 'check', '--offline', '-p', 'ddo', '--lib'], cwd=repo, env=env,
                           stdout=subprocess.PIPE, stderr=subprocess.STDOUT, text=True)
        if r.returncode != 0:
            sys.stderr.write(r.stdout[-6000:])
            raise SystemExit('fact extraction failed: cargo check of %s did not succeed (config %s)' % (repo, config))
        if not os.path.isfile(out):
            sys.stderr.write(r.stdout[-3000:])
            raise SystemExit('fact extraction failed: the driver did not run (no fact file for this run)')
        with open(out) as f:
            doc = json.load(f)
        if doc.get('nonce') != nonce:
            raise SystemExit('fact extraction failed: stale fact file')
        if not os.environ.get('VERIF_NO_CANON'):
            from . import canon
            doc, notes = canon.resolve(doc)
            if os.path.isfile(canon.REF):
                from . import hoist
                with open(canon.REF) as f:
                    doc, n2 = hoist.apply(doc, json.load(f))
                notes = notes + n2
            doc['canon_notes'] = notes
        with open(out, 'w') as f:
            json.dump(doc, f)
        os.replace(out, cached)
        # keep the cache small: drop fact files of other tree states (keep the 6 most recent)
        olds = sorted((e for e in os.listdir(CACHE) if e.startswith('facts-') and e.endswith('.json')),
                      key=lambda e: os.path.getmtime(os.path.join(CACHE, e)))
        for e in olds[:-6]:
            os.unlink(os.path.join(CACHE, e))
        return doc, {'hash': h, 'config': config, 'cached': False, 'extract_s': round(time.time() - t0, 2), 'path': cached}
    finally:
        fcntl.flock(lock, fcntl.LOCK_UN)
        lock.close()


if __name__ == '__main__':
    cfg = sys.argv[1] if len(sys.argv) > 1 else 'dev'
    d, info = extract(cfg)
    print(info, len(d['bodies']), 'bodies')
