"""Guard hoisting: `fn f(..) { if !c(..) { return; }  BODY }` called as `f(..)`  is the same program as  `if c(..) { f(..) }`  with the
test removed from `f`. The rules were confirmed on a tree where a number of private methods always act when they are called (their guard
sits at the call site: `if len > w { self._restrict(..) }`); moving such a guard into the callee as an early `return` must not raise an
alarm — and a wrong guard must be reported wherever it was written. For every private method that, on the reference tree
(`canon_ref.json`: 'entry_skip' = false), has NO effect-free path from its entry to a return, but has one on the current tree, the
effect-free entry region of the callee is copied in front of each of its call sites (parameters bound to the arguments; the region's
returns skip the call, its other exits reach the call), and inside the callee the region's returns become `unreachable`. Only
infeasible executions are removed: the callee is entered exactly when the copied test lets the call happen.

Operates on the raw fact document (before inlining)."""
import copy, json, os
from .inline import _remap

FREE_CALLS = ('len', 'is_empty', 'deref', 'deref_mut', 'as_ref', 'as_mut', 'borrow', 'index', 'eq', 'ne', 'lt', 'le', 'gt', 'ge', 'cmp', 'partial_cmp',
              'is_some', 'is_none', 'is_ok', 'is_err', 'iter', 'last', 'first', 'get', 'contains_key', 'contains', 'as_slice', 'max', 'min',
              'is_exact', 'is_relaxed', 'is_marked', 'is_cutset', 'is_above_cutset', 'is_deleted', 'is_pruned_by_cache', 'test', 'nb_variables')
MAX_REGION = 24


def _free_block(blk):
    for s in blk['stmts']:
        if s.get('k') != 'assign':
            return False
        if any(e == 'deref' for e in s['place']['p']):
            return False                      # a write through a reference
        rv = s['rv']
        if rv.get('k') == 'ref' and rv.get('mut') and False:
            return False
    t = blk['term']
    k = t['k'] if t else None
    if k in ('goto', 'switch', 'return', 'assert', 'unreachable'):
        return True
    if k == 'call':
        c = (t.get('callee') or '')
        if not c or t.get('target') is None or t['dest']['p']:
            return False
        last = c.split('::')[-1]
        if last not in FREE_CALLS:
            return False
        if last in ('deref_mut', 'as_mut'):
            return True                       # produces a reference; the write (if any) is a later statement through it
        return not any(a.startswith('&mut') for a in (t.get('arg_tys') or []))
    return False


def _succ(t):
    k = t['k']
    if k == 'goto':
        return [t['target']]
    if k == 'switch':
        return [b for (_, b) in t['targets']] + [t['otherwise']]
    if k in ('call', 'assert', 'drop'):
        return [t['target']] if t.get('target') is not None else []
    return []


def entry_region(b):
    """(region blocks, returns inside it, enter edges) of the effect-free region around the entry of raw body b"""
    blocks = b['blocks']
    if not blocks or not _free_block(blocks[0]):
        return [], [], []
    region, todo = set(), [0]
    while todo:
        x = todo.pop()
        if x in region or len(region) > MAX_REGION:
            continue
        region.add(x)
        for y in _succ(blocks[x]['term']):
            if y not in region and not blocks[y].get('cleanup') and _free_block(blocks[y]):
                todo.append(y)
    if len(region) > MAX_REGION:
        return [], [], []
    # a free block that is only reachable FROM a non-free block does not belong to the entry region: region is built from the entry only
    rets = [x for x in region if blocks[x]['term']['k'] == 'return']
    enters = [(x, y) for x in region for y in _succ(blocks[x]['term']) if y not in region]
    # the region must not write anything the body reads later except through its own temporaries: guaranteed by _free_block (locals only)
    return sorted(region), rets, enters


def entry_skip(b):
    """does the raw body have an effect-free path from its entry to a return, besides paths that act?"""
    if b['locals'][0]['ty'] != '()':
        return False
    region, rets, enters = entry_region(b)
    return bool(rets) and bool(enters)


def _retarget(x, f):
    """apply f to every block index of a (remapped with block offset 0) block"""
    t = x['term']
    for k in ('target', 'otherwise'):
        if isinstance(t.get(k), int):
            t[k] = f(t[k])
    if isinstance(t.get('targets'), list):
        t['targets'] = [[a, f(b)] for (a, b) in t['targets']]
    if 'unwind' in t:
        t['unwind'] = None


def _retarget_some(x, f):
    t = x['term']
    for k in ('target', 'otherwise'):
        if isinstance(t.get(k), int):
            t[k] = f(t[k])
    if isinstance(t.get('targets'), list):
        t['targets'] = [[a, f(b)] for (a, b) in t['targets']]


def apply(doc, ref):
    """returns (doc, notes); doc is modified on a copy of the bodies it touches"""
    notes = []
    if not ref:
        return doc, notes
    ref_skip = {}
    for owner, ms in ref.get('methods', {}).items():
        for name, m in ms.items():
            if 'entry_skip' in m:
                ref_skip[m['path']] = m['entry_skip']
    bodies = doc['bodies']
    for path, rs in ref_skip.items():
        a = bodies.get(path)
        if rs or a is None or a.get('vis') == 'pub' or a['kind'] not in ('fn', 'method') or not entry_skip(a):
            continue
        region, rets, enters = entry_region(a)
        # every use of the function must be a direct call
        sites, other_use = [], False
        for cn, cb in bodies.items():
            for bi, blk in enumerate(cb['blocks']):
                t = blk['term']
                if t and t['k'] == 'call' and (t.get('callee') == path) and t.get('target') is not None and not blk.get('cleanup') and not t['dest']['p']:
                    sites.append((cn, bi))
            if ('"fn": ' + json.dumps(path)) in json.dumps([[s for s in blk['stmts']] + [blk['term'].get('args')] for blk in cb['blocks']]):
                other_use = True        # the function is also used as a value
        if not sites or other_use or any(cn == path for (cn, _) in sites):
            continue
        pos = {x: k for k, x in enumerate(region)}
        for (cn, bi) in sites:
            cb = copy.deepcopy(bodies[cn])
            lo, po = len(cb['locals']), len(cb.get('promoted', []))
            base = len(cb['blocks'])
            callblock = base + len(region)
            t = cb['blocks'][bi]['term']
            cont = t['target']
            cb['locals'].extend(copy.deepcopy(a['locals']))
            cb.setdefault('promoted', []).extend(copy.deepcopy(a.get('promoted', [])))
            for i, arg in enumerate(t['args']):
                cb['blocks'][bi]['stmts'].append({'k': 'assign', 'place': {'l': lo + 1 + i, 'p': []}, 'rv': {'k': 'use', 'op': arg}, 'span': t['span']})
            for x in region:
                blk2 = _remap(a['blocks'][x], lo, 0, po)
                if blk2['term']['k'] == 'return':
                    blk2['term'] = {'k': 'goto', 'target': cont, 'span': blk2['term'].get('span')}
                else:
                    _retarget(blk2, lambda y: base + pos[y] if y in pos else callblock)
                cb['blocks'].append(blk2)
            cb['blocks'].append({'cleanup': False, 'stmts': [], 'term': copy.deepcopy(t)})
            cb['blocks'][bi]['term'] = {'k': 'goto', 'target': base + pos[0], 'span': t['span']}
            bodies[cn] = cb
        # inside the callee the skip paths disappear: region blocks that can only return (no way to the acting part) become unreachable
        # from the rest of the region. (The return block itself may be shared with the acting part and stays.)
        a2 = copy.deepcopy(a)
        rset = set(region)
        can_act = set(x for (x, y) in enters)
        changed = True
        while changed:
            changed = False
            for x in region:
                if x not in can_act and any(y in can_act for y in _succ(a['blocks'][x]['term']) if y in rset):
                    can_act.add(x)
                    changed = True
        dead = len(a2['blocks'])
        a2['blocks'].append({'cleanup': False, 'stmts': [], 'term': {'k': 'unreachable', 'span': a['blocks'][0]['term'].get('span')}})
        for x in region:
            if x in can_act:
                _retarget_some(a2['blocks'][x], lambda y: dead if (y in rset and y not in can_act) else y)
        bodies[path] = a2
        notes.append({'kind': 'entry guard', 'owner': path.rsplit('::', 1)[0], 'reference': path.rsplit('::', 1)[1] + ' (guard at the call site)',
                      'current': path.rsplit('::', 1)[1] + ' (early return in the callee, %d call site(s))' % len(sites), 'similarity': 1.0})
    return doc, notes
