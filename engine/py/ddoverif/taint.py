"""Forward taint analysis over the MIR facts (E3e): *user text* — the Debug / Display rendering of a value whose type mentions a generic
type parameter (the user's state type) — must not reach a sink (the String returned by `as_graphviz`) without passing a sanitiser
(an escaping of the double quote). Flow-sensitive per local, may-analysis (union at joins), interprocedural through summaries of the
crate-local callees (memoised on the set of tainted parameters). Nothing is executed.

  sources     core::fmt::rt::Argument::new_debug / new_display / new_* on a reference whose pointee type mentions a type parameter
  propagation copies, moves, references, aggregates (the argument arrays of format_args!), every call whose callee is not listed below
              (format, must_use, deref, as_str, clone, to_string, join, collect, ...): result tainted iff an argument is
  mutators    a call that receives `&mut X` and a tainted argument taints X (push_str, push, extend, write_fmt, add_assign, ...)
  sanitisers  str::replace('"', r) with a replacement that contains no bare quote; str::escape_default / escape_debug / escape_unicode;
              new_debug on a tainted *string* (the Debug rendering of str escapes quotes and backslashes)
"""
import re

SOURCES = ('new_debug', 'new_display', 'new_lower_hex', 'new_upper_hex', 'new_lower_exp', 'new_upper_exp', 'new_octal', 'new_binary', 'new_pointer')
ESCAPERS = ('escape_default', 'escape_debug', 'escape_unicode')
STRINGY = ('str', 'std::string::String', 'alloc::string::String', 'std::borrow::Cow<', 'std::boxed::Box<str>')


def type_params(body_name):
    out = set()
    for grp in re.findall(r'::<([^<>]*(?:<[^<>]*>[^<>]*)*)>', body_name):
        for p in grp.split(','):
            p = p.strip()
            if p and not p.startswith("'") and re.fullmatch(r'[A-Za-z_][A-Za-z0-9_]*', p):
                out.add(p)
    return out


def mentions_param(ty, params):
    return any(re.search(r'(?<![\w:])' + re.escape(p) + r'(?![\w])', ty or '') for p in params)


def _base(pl):
    return pl['l'] if isinstance(pl, dict) and 'l' in pl else None


def _op_local(op):
    if isinstance(op, dict) and 'place' in op:
        return _base(op['place'])
    return None


def _unescape_rust(lit):
    """the text of a Rust string literal as printed by Debug (outer quotes included)"""
    if len(lit) >= 2 and lit[0] == '"' and lit[-1] == '"':
        lit = lit[1:-1]
    out, i = [], 0
    while i < len(lit):
        ch = lit[i]
        if ch == '\\' and i + 1 < len(lit):
            n = lit[i + 1]
            out.append({'n': '\n', 't': '\t', 'r': '\r', '0': '\0', '\\': '\\', '"': '"', "'": "'"}.get(n, '\\' + n))
            i += 2
        else:
            out.append(ch)
            i += 1
    return ''.join(out)


def _const_text(op):
    """the text of a char / str constant operand, when the extractor evaluated it"""
    if not isinstance(op, dict) or 'const' not in op:
        return None
    c = op['const']
    if isinstance(c, dict):
        ty = c.get('ty') or ''
        if 'int' in c and ty == 'char':
            try:
                return chr(c['int'])
            except Exception:
                return None
        if 'dbg' in c and 'str' in ty:
            return _unescape_rust(c['dbg'])
    return None


def const_text(body, op, depth=0):
    """follow a local back to the char / str constant it was initialised with (single definition, through `&*`)"""
    t = _const_text(op)
    if t is not None or depth > 4:
        return t
    l = _op_local(op)
    if l is None:
        return None
    defs = [s for bb in body.live_blocks() for s in body.stmts(bb) if s['k'] == 'assign' and s['place']['l'] == l and not s['place']['p']]
    if len(defs) != 1:
        return None
    rv = defs[0]['rv']
    if rv.get('k') == 'use':
        return const_text(body, rv['op'], depth + 1)
    if rv.get('k') == 'ref':
        return const_text(body, {'c': 'copy', 'place': {'l': rv['place']['l'], 'p': []}}, depth + 1)
    if rv.get('k') == 'cast':
        return const_text(body, rv.get('a') or rv.get('op'), depth + 1)
    return None


def _rv_ops(rv):
    k = rv.get('k')
    if k in ('use', 'cast', 'un'):
        return [rv.get('op') or rv.get('a')]
    if k == 'bin':
        return [rv['a'], rv['b']]
    if k == 'aggr':
        return list(rv.get('ops') or [])
    if k in ('ref', 'discr', 'len'):
        return [{'c': 'copy', 'place': rv['place']}]
    return []


def _join(a, b):
    if a is None:
        return b
    if b is None:
        return a
    return (a[0] | b[0], a[1])


class Taint:
    def __init__(self, F):
        self.F = F
        self.memo = {}
        self.active = set()
        self.sources = set()      # (body name, location) of every source met
        self.bodies = set()       # bodies analysed

    # ------------------------------------------------------------------------------------------------
    def summary(self, body, tainted_params=frozenset(), depth=0):
        """(witness or None) — does `body` return tainted text when the given parameters are tainted; tainted_params is a frozenset of
        (0-based index, bits) pairs; a witness is (bits, text): bits is a subset of {Q: may contain a bare double quote, B: may contain
        a bare backslash, X: escaped in the wrong order, cannot be repaired any more}"""
        key = (body.name, tainted_params)
        if key in self.memo:
            return self.memo[key]
        if key in self.active or depth > 8:
            return None
        self.active.add(key)
        try:
            res = self._run(body, tainted_params, depth)
        finally:
            self.active.discard(key)
        self.memo[key] = res
        return res

    def _run(self, body, tainted_params, depth):
        tainted_params_lvl = dict(tainted_params)
        tainted_params = sorted(tainted_params_lvl)
        params = type_params(body.name)
        self.bodies.add(body.name)
        raw = body.raw
        nargs = raw.get('arg_count', 0)
        # references: r = &o / &mut o (temps have one definition; a re-bound reference keeps every referent)
        refs = {}
        for bb in body.live_blocks():
            for s in body.stmts(bb):
                if s['k'] == 'assign' and not s['place']['p'] and s['rv'].get('k') == 'ref':
                    refs.setdefault(s['place']['l'], set()).add((s['rv']['place']['l'], bool(s['rv'].get('mut'))))

        def referents(l, seen=None):
            seen = seen or set()
            out = set()
            for (o, m) in refs.get(l, ()):
                if o not in seen:
                    seen.add(o)
                    out.add(o)
                    out |= referents(o, seen)
            return out

        def t_local(S, l):
            if l is None:
                return None
            if l in S:
                return S[l]
            for o in referents(l):
                if o in S:
                    return S[o]
            return None

        def t_op(S, op):
            return t_local(S, _op_local(op))

        entry = {}
        for i in tainted_params:
            entry[i + 1] = (tainted_params_lvl.get(i, frozenset('QB')), 'parameter #%d of %s' % (i, body.name.split('::')[-1]))
        IN = {0: dict(entry)}
        work = [0]
        ret_witness = [None]
        live = set(body.live_blocks())
        guard = 0
        while work:
            guard += 1
            if guard > 20000:
                break
            bb = work.pop()
            S = dict(IN.get(bb, {}))
            for s in body.stmts(bb):
                if s['k'] != 'assign':
                    continue
                x = s['place']['l']
                w = None
                for op in _rv_ops(s['rv']):
                    w = _join(w, t_op(S, op))
                if s['place']['p']:
                    if w:                                   # weak update of a part of x (or of what x points to)
                        S[x] = w
                        for o in referents(x):
                            S[o] = w
                    continue
                if s['rv'].get('k') == 'ref':
                    S.pop(x, None)                          # the taint of a reference is that of its referent (looked up on demand)
                    continue
                if w:
                    S[x] = w
                else:
                    S.pop(x, None)
            t = body.term(bb)
            if t['k'] == 'call':
                callee = t.get('callee') or ''
                last = callee.split('::')[-1]
                args = t.get('args') or []
                d = _base(t.get('dest'))
                aw = [t_op(S, a) for a in args]
                anyw = None
                for w_ in aw:
                    anyw = _join(anyw, w_)
                res = None
                if 'fmt::rt::Argument' in callee and last in SOURCES:
                    l0 = _op_local(args[0]) if args else None
                    ty = body.local_ty(l0) if l0 is not None else ''
                    if mentions_param(ty, params):
                        self.sources.add((body.name, body.loc(bb)))
                        res = (frozenset('QB'), '%s of a value of type `%s` at %s' % ('Debug' if last == 'new_debug' else 'Display', ty, body.loc(bb)))
                    elif anyw:
                        stringy = any(x in (ty or '') for x in STRINGY)
                        res = None if (last == 'new_debug' and stringy) else anyw
                elif last in ESCAPERS:
                    res = None
                elif last in ('replace', 'replacen') and 'str' in callee and len(args) >= 3 and aw[0]:
                    pat, rep = const_text(body, args[1]), const_text(body, args[2])
                    bits = set(aw[0][0])
                    plain = rep is not None and rep.count('"') == 0 and rep.count('\\') == 0
                    if pat == '\\' and 'X' not in bits and (rep == '\\\\' or plain):
                        bits.discard('B')                   # backslashes doubled (or gone)
                    elif pat == '"' and plain:
                        bits.discard('Q')                   # quotes replaced by harmless text
                    elif pat == '"' and rep == '\\"':
                        if 'B' in bits:
                            bits.add('X')                   # escaping the quote first: a later doubling of the backslashes breaks the escapes
                        else:
                            bits.discard('Q')
                    res = (frozenset(bits), aw[0][1]) if bits else None
                elif callee in self.F.bodies and self.F.bodies[callee].kind != 'closure':
                    tp = frozenset((i, w[0]) for i, w in enumerate(aw) if w)
                    sub = self.summary(self.F.bodies[callee], tp, depth + 1)
                    res = sub
                    # a crate-local callee that receives &mut X together with tainted text may store it
                    if anyw:
                        for a in args:
                            la = _op_local(a)
                            for (o, m) in refs.get(la, ()):
                                if m:
                                    S[o] = anyw
                else:
                    res = anyw
                    if anyw:
                        for i, a in enumerate(args):
                            la = _op_local(a)
                            if aw[i] is not None and all(x is None for j, x in enumerate(aw) if j != i):
                                continue                    # the only tainted argument is this one: nothing new flows into it
                            for (o, m) in refs.get(la, ()):
                                if m:
                                    S[o] = anyw             # mutator: push_str(&mut out, tainted), write_fmt, extend, add_assign ...
                            if la is not None and 'mut' in (body.local_ty(la) or '')[:6] and la <= nargs and la > 0:
                                S[la] = anyw                # ... through a `&mut` parameter of this function
                if d is not None and not (t.get('dest') or {}).get('p'):
                    if res:
                        S[d] = res
                    else:
                        S.pop(d, None)
                elif d is not None and res:
                    S[d] = res
            if t['k'] == 'return':
                w = t_local(S, 0)
                if w and not ret_witness[0]:
                    ret_witness[0] = w
                # a `&mut` parameter that was tainted also counts as an outflow (conservative)
            for (tb, lab) in body.succ(bb):
                if tb not in live:
                    continue
                cur = IN.get(tb)
                if cur is None:
                    IN[tb] = dict(S)
                    work.append(tb)
                else:
                    changed = False
                    for k_, v_ in S.items():
                        if k_ not in cur:
                            cur[k_] = v_
                            changed = True
                        elif not (v_[0] <= cur[k_][0]):
                            cur[k_] = (cur[k_][0] | v_[0], cur[k_][1])
                            changed = True
                    if changed:
                        work.append(tb)
        return ret_witness[0]
