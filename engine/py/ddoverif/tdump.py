"""dev aid: print guard literals and call-argument origin terms of bodies matching a pattern"""
import sys, os
sys.path.insert(0, os.path.join(os.path.dirname(__file__), '..'))
from ddoverif import extract, mirlib as M, pp
d, _ = extract.extract(os.environ.get('CFG', 'dev'))
F = M.Facts(d)
pat = sys.argv[1]
for k, b in F.bodies.items():
    if pat in k:
        print('==', k)
        for bb in sorted(b.live_blocks()):
            t = b.term(bb)
            if t['k'] == 'switch':
                for (tb, lab) in b.succ(bb):
                    lit = M.edge_literal(b, bb, lab)
                    print('  bb%d -%s-> bb%d :' % (bb, lab, tb), [ (a[0],)+tuple(M.show(x) if isinstance(x, tuple) else x for x in a[1:]) for a in M.lit_atoms(lit)])
            if t['k'] == 'call':
                args = [M.show(b.origin.operand(a, b.term_point(bb))) for a in t['args']]
                print('  bb%d call %s(%s)' % (bb, (t['callee'] or '?').split('::')[-1], '; '.join(args)))
            for i, s in enumerate(b.stmts(bb)):
                if s['k'] == 'assign' and s['place']['p']:
                    print('  bb%d write %s := %s' % (bb, pp.place(s['place']), M.show(b.origin.rvalue(s['rv'], (bb, i)))))
