"""Rule instances on the two solvers (sequential.rs / parallel.rs). Rule ids follow DESIGN.md §4."""
from .. import mirlib as M
from ..core import MissingAnchor
from .common import *


def _ret_term(body):
    rets = body.return_blocks()
    if len(rets) != 1:
        return ('unknown', 'returns')
    return body.origin.place({'l': 0, 'p': []}, body.term_point(rets[0]))


def _unsome(v):
    """payload of Some(x) (a per-worker slot kept as Option<isize>: None = idle), else v itself"""
    if isinstance(v, tuple) and v[:3] == ('aggr', M.OPTION, 'Some') and v[3]:
        return v[3][0][1]
    return v


def _closure_ret(F, t):
    """return term of a closure term ('closure', name, ops)"""
    if isinstance(t, tuple) and t and t[0] == 'closure' and t[1] in F.bodies:
        return _ret_term(F.bodies[t[1]])
    return None


# ------------------------------------------------------------------------------------------------
# R01.1 / E1 — skip a popped node only when ub <= incumbent or the cache says so
# ------------------------------------------------------------------------------------------------
def r_prune_at_pop(ctx, rule='R01.1'):
    for tag, adt in SOLVERS:
        # the root sub-problem is pushed on every path through initialize: its bound is +infinity, nothing can justify dropping it before a
        # diagram has been compiled (a "the primal already reaches the rough bound of the root" shortcut forgets the initial value)
        ib = ctx.body(adt, 'initialize')
        pps = [u_.term_point(bb) if u_ is ib else None for u_ in ctx.unit(ib) for (bb, t) in u_.calls_to('Fringe::push')]
        pps = [p_ for p_ in pps if p_ is not None]
        r0 = ib.reach([(0, 0)], avoid=pps)
        ctx.check(bool(pps) and not any(p_ in r0 for p_ in ret_points(ib)), rule, tag + '/initialize-always-pushes-root', ib, ib.loc(0),
                  'every path through initialize pushes the root sub-problem onto the fringe', 'initialize can return without pushing the root sub-problem: the search then completes at once with whatever incumbent was given')
        b = ctx.body(adt, 'process_one_node')
        cs = compile_calls(b)
        if not ctx.floor(rule, tag, b, len(cs), 2, 'DecisionDiagram::compile call sites in process_one_node'):
            continue
        lb = is_lb(ctx.F)
        node_ub = lambda t: is_subproblem_field(t, 'ub') and M.is_param(t[1])

        def accept(atoms, lit):
            for a in atoms:
                if M.cmp_matches(a, node_ub, lb, '<='):
                    return True
                if a[0] == 'F' and M.is_call(a[1], 'Cache::must_explore'):
                    return True
            return False
        avoid = [b.term_point(bb) for (bb, t) in cs]
        ok, cut, bad = M.guarded(b, ret_points(b), accept, extra_avoid=avoid)
        ctx.stats['guards'] += len(cut)
        ctx.check(ok and len(cut) >= 1, rule, tag + '/skip-before-compile', b, b.loc(cs[0][0]),
                  'every return that precedes the first compilation is taken only on an edge asserting node.ub <=|< best_lb '
                  'or !must_explore (%d such edges)' % len(cut),
                  'a popped sub-problem can be dropped without compilation on a path that does not assert '
                  'node.ub <= best_lb (operands: the popped node\'s ub, the incumbent) nor !cache.must_explore(node)')
        # the hazard side: no edge asserting ub > lb may lead to the skip
        def hazard(atoms, lit):
            return any(M.cmp_matches(a, node_ub, lb, '>=') and '>' in _rel(a, node_ub) for a in atoms)
        _ = hazard


def _rel(atom, left_pred):
    _, a, b, s = atom
    if left_pred(a):
        return s
    mirror = {'<': '>', '>': '<', '=': '='}
    return frozenset(mirror[x] for x in s)


# ------------------------------------------------------------------------------------------------
# R01.2 / R01.3 — restricted, then relaxed, then enqueue
# ------------------------------------------------------------------------------------------------
def _is_exact_of(call_bb, bname):
    def p(t):
        return M.is_field(t, 'is_exact', 'Completion') and M.contains(
            t, lambda x: M.is_call(x, 'DecisionDiagram::compile') and x[3] == (bname, call_bb))
    return p


def r_compile_protocol(ctx, rule='R01.2'):
    for tag, adt in SOLVERS:
        b = ctx.body(adt, 'process_one_node')
        cs = compile_calls(b)
        if len(cs) < 2:
            ctx.floor(rule, tag, b, len(cs), 2, 'compile call sites')
            continue
        (bb1, t1), (bb2, t2) = cs[0], cs[1]
        for (n, (bb, t), want) in ((1, cs[0], 'Restricted'), (2, cs[1], 'Relaxed')):
            inp = b.origin.operand(t['args'][1], b.term_point(bb))
            ct = M.simplify_field(inp, 'comp_type', None)
            got = ct[2] if isinstance(ct, tuple) and ct[0] == 'aggr' and ct[1].endswith('CompilationType') else M.show(ct)
            ctx.check(got == want, rule, '%s/compile#%d-type' % (tag, n), b, b.loc(bb),
                      'compilation #%d is %s' % (n, want), 'compilation #%d has comp_type %s, expected %s' % (n, got, want))
            # the residual handed to the diagram is the popped node, the incumbent is the solver's
            res = M.simplify_field(inp, 'residual', None)
            ctx.check(M.is_param(res) , rule, '%s/compile#%d-residual' % (tag, n), b, b.loc(bb),
                      'residual of compilation #%d is the popped node' % n, 'residual of compilation #%d is %s, not the popped node' % (n, M.show(res)))
            # the other slots of the CompilationInput: each is the solver's component of the same role (a value in the wrong slot type-checks
            # whenever two roles share a type: cache / dominance are distinct traits, but problem / relaxation / ranking / cutoff / width
            # come from fields that a refactoring can cross), and the width is the heuristic's answer for THIS node
            for slot, fld in (('problem', 'problem'), ('relaxation', 'relaxation'), ('ranking', 'ranking'), ('cutoff', 'cutoff'), ('cache', 'cache'), ('dominance', 'dominance')):
                sv = M.simplify_field(inp, slot, None)
                okslot = isinstance(sv, tuple) and M.contains(sv, lambda x, fld=fld: isinstance(x, tuple) and x and x[0] == 'field' and len(x) == 4 and x[2] == fld and (x[3] or '').endswith(('SequentialSolver', 'parallel::Shared')))
                ctx.check(okslot, rule, '%s/compile#%d-%s' % (tag, n, slot), b, b.loc(bb), 'CompilationInput.%s of compilation #%d is the solver\'s %s' % (slot, n, fld),
                          'CompilationInput.%s of compilation #%d is %s, not the solver\'s %s' % (slot, n, M.show(sv)[:100], fld))
            wv = M.simplify_field(inp, 'max_width', None)
            okw = M.contains(wv, lambda x: M.is_call(x, 'WidthHeuristic::max_width') and M.contains(x[2][0], lambda y: isinstance(y, tuple) and y and y[0] == 'field' and len(y) == 4 and y[2] == 'width_heu') and M.is_param(x[2][1]))
            ctx.check(okw and (M.is_call(wv, 'WidthHeuristic::max_width') or (isinstance(wv, tuple) and wv and wv[0] == 'var')), rule, '%s/compile#%d-max_width' % (tag, n), b, b.loc(bb),
                      'max_width of compilation #%d is width_heu.max_width(the popped node)' % n, 'max_width of compilation #%d is %s, not the width heuristic\'s answer for the popped node' % (n, M.show(wv)[:120]))
            lbt = M.simplify_field(inp, 'best_lb', None)
            ctx.check(is_lb(ctx.F)(lbt), rule, '%s/compile#%d-best_lb' % (tag, n), b, b.loc(bb),
                      'best_lb of compilation #%d is the incumbent' % n, 'best_lb of compilation #%d is %s, not the incumbent' % (n, M.show(lbt)))
        ex1 = _is_exact_of(bb1, b.name)
        ex2 = _is_exact_of(bb2, b.name)
        # return between the two compilations: only when the restricted compilation reported exact (or on Err)
        def acc1(atoms, lit):
            return err_edge(atoms) or any(a[0] == 'T' and ex1(a[1]) for a in atoms)
        ok, cut, bad = M.guarded(b, ret_points(b), acc1, starts=b.after(b.term_point(bb1)), extra_avoid=[b.term_point(bb2)])
        ctx.check(ok, rule, tag + '/early-return', b, b.loc(bb1),
                  'the return between the two compilations is taken only when the RESTRICTED compilation reported is_exact (or failed)',
                  'process_one_node can return after the restricted compilation without that compilation having reported is_exact == true')
        # R01.3: after the relaxed compilation, enqueue unless it reported exact
        rule3 = 'R01.3'
        enq = call_points(b, 'enqueue_cutset')
        if ctx.floor(rule3, tag, b, len(enq), 1, 'enqueue_cutset call sites'):
            def acc2(atoms, lit):
                return err_edge(atoms) or any(a[0] == 'T' and ex2(a[1]) for a in atoms)
            cut = _cut_edges(b, acc2)
            r = b.reach(b.after(b.term_point(bb2)), cut_edges=cut, avoid=enq)
            bad = [p for p in ret_points(b) if p in r]
            ctx.check(not bad, rule3, tag + '/enqueue-unless-exact', b, b.loc(bb2),
                      'after the relaxed compilation every path to the return enqueues the cut-set unless that compilation reported is_exact',
                      'a path from the relaxed compilation to the return neither calls enqueue_cutset nor asserts is_exact == true of the relaxed result')
        upd = call_points(b, 'maybe_update_best')
        if ctx.floor(rule3, tag + '/update', b, len(upd), 2, 'maybe_update_best call sites'):
            for n, bbc in ((1, bb1), (2, bb2)):
                cut = _cut_edges(b, lambda atoms, lit: err_edge(atoms))
                targets = ret_points(b) + ([b.term_point(bb2)] if n == 1 else []) + enq
                r = b.reach(b.after(b.term_point(bbc)), cut_edges=cut, avoid=upd)
                bad = [p for p in targets if p in r]
                ctx.check(not bad, rule3, '%s/update-best-after-compile#%d' % (tag, n), b, b.loc(bbc),
                          'the incumbent is refreshed after successful compilation #%d on every path' % n,
                          'a path leaves compilation #%d (Ok) without calling maybe_update_best' % n)


def _cut_edges(body, accept):
    cut = set()
    for b in body.live_blocks():
        t = body.term(b)
        if t and t['k'] == 'switch':
            for (tb, lab) in body.succ(b):
                lit = M.edge_literal(body, b, lab)
                if lit is not None and accept(M.lit_atoms(lit), lit):
                    cut.add((b, lab))
    return cut


# ------------------------------------------------------------------------------------------------
# R01.4 / E3 / E13 — enqueue_cutset: push iff ub > incumbent, child bound capped by the parent's
# ------------------------------------------------------------------------------------------------
def _enqueue_closure(ctx, adt):
    b = ctx.body(adt, 'enqueue_cutset')
    for c in ctx.unit(b)[1:]:
        if c.calls_to('Fringe::push'):
            return b, c
    raise MissingAnchor('the closure of enqueue_cutset that pushes onto the fringe')


def r_enqueue_guard(ctx, rule='R01.4', need_min=False):
    for tag, adt in SOLVERS:
        b, c = _enqueue_closure(ctx, adt)
        if not need_min:
            # the cut-set is drained on EVERY path through enqueue_cutset: a shortcut that returns before (a "nothing left to do" flag set
            # elsewhere, ..) silently drops the cut-set of a node that is still being processed
            dc = [b.term_point(bb) for (bb, t) in b.calls_to('DecisionDiagram::drain_cutset')]
            r0 = b.reach([(0, 0)], avoid=dc)
            ctx.check(bool(dc) and not any(p_ in r0 for p_ in ret_points(b)), rule, tag + '/enqueue-always-drains', b, b.loc(0),
                      'every path through enqueue_cutset drains the cut-set of the diagram', 'enqueue_cutset can return without draining the cut-set: the sub-problems of an inexact relaxed diagram are lost')
        pushes = c.calls_to('Fringe::push')
        lb = is_lb(ctx.F)
        child_ub = lambda t: M.contains(t, lambda x: is_subproblem_field(x, 'ub') and M.is_param(x[1]) and x[1][1] == c.name)

        def accept(atoms, lit):
            return any(M.cmp_matches(a, child_ub, lb, '>=') and '>' in _rel(a, child_ub) for a in atoms)
        ok, cut, bad = M.guarded(c, [c.term_point(bb) for (bb, t) in pushes], accept)
        if need_min:
            cut = []
        else:
            ctx.check(ok, rule, tag + '/push-guard', c, c.loc(pushes[0][0]),
                      'a cut-set node is pushed only on an edge asserting node.ub >|>= best_lb',
                      'Fringe::push in enqueue_cutset is reachable without asserting cutset_node.ub > best_lb')
        # nothing is discarded when ub > lb: from the '>' edge every path reaches push
        for (bbk, lab) in cut:
            tb = [t for (t, l) in c.succ(bbk) if l == lab][0]
            if not any(c.term_point(bb) in c.reach([(tb, 0)]) for (bb, t) in pushes):
                continue      # an edge after the push (e.g. a drop flag that merely remembers the test)
            r = c.reach([(tb, 0)], avoid=[c.term_point(bb) for (bb, t) in pushes])
            bad = [p for p in ret_points(c) if p in r]
            ctx.check(not bad, rule, tag + '/push-must', c, c.loc(bbk),
                      'on the edge asserting ub > best_lb every path pushes the node',
                      'a cut-set node with ub > best_lb can be dropped (a path from the keep edge reaches the return without Fringe::push)')
        # the pushed value is the closure's parameter with its ub possibly overwritten
        for (bb, t) in pushes:
            v = c.origin.operand(t['args'][1], c.term_point(bb))
            ubt = M.simplify_field(v, 'ub', 'common::SubProblem')
            # the cap: a scalar parameter of enqueue_cutset, or the ub of a sub-problem handed to it (the parent node itself)
            cap_scalar = lambda x: M.is_param(x) and x[1] == b.name
            cap_node = lambda x: is_subproblem_field(x, 'ub') and M.is_param(x[1]) and x[1][1] == b.name
            parent_ub = lambda x: cap_scalar(x) or cap_node(x)
            child_own = lambda x: is_subproblem_field(x, 'ub') and M.is_param(x[1]) and x[1][1] == c.name
            is_min = isinstance(ubt, tuple) and ubt[0] == 'min' and any(parent_ub(x) for x in ubt[1]) and \
                any(child_own(x) for x in ubt[1]) and len(ubt[1]) == 2
            own = child_own(ubt)
            if need_min:
                pn = ctx.body(adt, 'process_one_node')
                caps = [x for x in (ubt[1] if is_min else ()) if parent_ub(x)]
                for (cbb, ct) in pn.calls_to('enqueue_cutset'):
                    pidx = (caps[0][2] if cap_scalar(caps[0]) else caps[0][1][2]) if caps else len(ct['args']) - 1
                    ua = pn.origin.operand(ct['args'][pidx], pn.term_point(cbb)) if pidx < len(ct['args']) else None
                    good_cap = (is_subproblem_field(ua, 'ub') and M.is_param(ua[1]) and ua[1][1] == pn.name) if (not caps or cap_scalar(caps[0])) else \
                        (M.is_param(ua) and ua[1] == pn.name and 'SubProblem' in (pn.raw['locals'][ua[2] + 1].get('ty') or ''))
                    ctx.check(good_cap, 'R19.2', tag + '/cap-is-popped-ub', pn, pn.loc(cbb),
                              'the cap handed to enqueue_cutset is the ub of the node being processed',
                              'enqueue_cutset is called with %s instead of the popped node\'s ub: the cap by the parent bound silently disappears' % M.show(ua)[:160])
                ctx.check(is_min, 'R19.2', tag + '/child-ub-cap', c, c.loc(bb),
                          'the bound stored in a pushed cut-set node is min(parent ub, node ub)',
                          'the bound of a pushed cut-set node is %s, not min(parent ub, node ub): a child bound may exceed its parent\'s' % M.show(ubt))
            else:
                ctx.check(is_min or own, rule, tag + '/child-ub-term', c, c.loc(bb),
                          'the bound of a pushed node is its own bound, possibly capped by the parent\'s (min)',
                          'the bound of a pushed cut-set node is %s (neither the node\'s own bound nor min(parent, node))' % M.show(ubt))


# ------------------------------------------------------------------------------------------------
# R01.5 / E16 — Complete only on an empty fringe; Completion fields
# ------------------------------------------------------------------------------------------------
def r_complete(ctx, rule='R01.5'):
    for tag, adt in SOLVERS:
        b = ctx.body(adt, 'get_workload')
        comp = aggr_assigns(b, 'WorkLoad', 'Complete')
        if not ctx.floor(rule, tag, b, len(comp), 1, 'returns of WorkLoad::Complete'):
            continue
        pts = [(bb, i) for (bb, i, s) in comp]
        ok, cut, bad = M.guarded(b, pts, lambda atoms, lit: any(empty_lit(a, lambda x: solver_field(x, 'fringe')) for a in atoms))
        ctx.check(ok, rule, tag + '/complete-empty-fringe', b, b.loc(*pts[0]),
                  'WorkLoad::Complete is returned only on an edge asserting fringe.is_empty()',
                  'WorkLoad::Complete can be returned on a path that does not assert fringe.is_empty()')
        if tag == 'par':
            ongoing0 = lambda a: M.cmp_matches(a, lambda t: solver_field(t, 'ongoing'), lambda t: M.is_const(t, 0), '=')
            ok, cut, bad = M.guarded(b, pts, lambda atoms, lit: any(ongoing0(a) for a in atoms))
            ctx.check(ok, 'R04.5', tag + '/complete-ongoing-zero', b, b.loc(*pts[0]),
                      'WorkLoad::Complete is returned only on an edge asserting ongoing == 0',
                      'WorkLoad::Complete can be returned while a node is still being processed (no edge asserting ongoing == 0)')
    # Complete => best_ub := best_lb, in both solvers (after an uninterrupted run the upper bound equals the value)
    for tag, adt in SOLVERS:
        gwb = ctx.body(adt, 'get_workload')
        comp_ = [(bb, i) for (bb, i, s_) in aggr_assigns(gwb, 'WorkLoad', 'Complete')]
        cw_ = [pt for (pt, d, v, s_) in writes(gwb) if solver_field(d, 'best_ub') and is_lb(ctx.F)(v)]
        r_ = gwb.reach([(0, 0)], avoid=cw_)
        ctx.check(bool(comp_) and bool(cw_) and not any(p_ in r_ for p_ in comp_), 'R02.3', tag + '/complete-sets-ub', gwb, gwb.loc(*comp_[0]) if comp_ else gwb.loc(0),
                  'every return of WorkLoad::Complete is preceded by best_ub := best_lb', 'WorkLoad::Complete can be returned without best_ub := best_lb: a solved run keeps a stale (infinite) upper bound')
    for tag, adt in SOLVERS:
        b = ctx.body(adt, 'maximize', trait='Solver')
        comp = aggr_assigns(b, 'common::Completion')
        if not ctx.floor(rule, tag + '/completion', b, len(comp), 1, 'Completion aggregates in maximize'):
            continue
        for (bb, i, s) in comp:
            v = b.origin.rvalue(s['rv'], (bb, i))
            ex = M.simplify_field(v, 'is_exact', None)
            ctx.check(is_variant_test(ex, lambda x: solver_field(x, 'abort_proof'), 'None'), rule, tag + '/is_exact-origin', b, b.loc(bb, i),
                      'Completion.is_exact = abort_proof.is_none()', 'Completion.is_exact is %s, not abort_proof.is_none()' % M.show(ex))
            bv = M.simplify_field(v, 'best_value', None)
            _check_best_value_term(ctx, rule, tag + '/best_value-origin', b, b.loc(bb, i), bv)
        bv = ctx.body(adt, 'best_value', trait='Solver')
        _check_best_value_term(ctx, 'R02.3', tag + '/best_value()', bv, bv.loc(0), _ret_term(bv))
        for (acc, fld) in (('best_lower_bound', 'best_lb'), ('best_upper_bound', 'best_ub'), ('best_solution', 'best_sol')):
            ab = ctx.body(adt, acc, trait='Solver')
            rt = _ret_term(ab)
            ctx.check(solver_field(rt, fld), 'R02.3', '%s/%s()' % (tag, acc), ab, ab.loc(0),
                      '%s() returns the %s field' % (acc, fld), '%s() returns %s, not the %s field' % (acc, M.show(rt), fld))


def _check_best_value_term(ctx, rule, inst, body, where, bv):
    good = False
    bv = inline_helpers(ctx.F, bv)          # `self.best_value()` written in maximize is the accessor's own term
    om = opt_map(bv)
    if om is not None and solver_field(om[0], 'best_sol'):
        good = is_lb(ctx.F)(om[1])
    ctx.check(good, rule, inst, body, where, 'the reported value is best_sol.map(|_| best_lb): present iff a solution is stored, equal to the incumbent',
              'the reported best value is %s, not best_sol.as_ref().map(|_| best_lb)' % M.show(bv))


# ------------------------------------------------------------------------------------------------
# R02.1 / R02.2 / E7 — incumbent value and solution are written together from the exact accessors
# ------------------------------------------------------------------------------------------------
def r_incumbent(ctx, rule='R02.1'):
    for tag, adt in SOLVERS:
        # who writes best_lb / best_sol (field writes, anywhere in the crate)
        writers = {}
        for body in ctx.F.bodies.values():
            for (pt, dest, val, s) in writes(body):
                for f in ('best_lb', 'best_sol'):
                    if solver_field(dest, f) and (dest[3] or '').endswith('SequentialSolver' if tag == 'seq' else 'Critical'):
                        writers.setdefault(body.name, {}).setdefault(f, []).append((pt, dest, val))
        allowed = {ctx.body(adt, 'maybe_update_best').name, ctx.body(adt, 'set_primal', trait='Solver').name}
        for w in sorted(writers):
            ctx.analysed_bodies.add(w)
            wb = ctx.F.bodies[w]
            ctx.check(w in allowed, rule, tag + '/who-writes-incumbent/' + (wb.fn_name or 'closure'), wb, wb.loc(*list(writers[w].values())[0][0][0]),
                      'incumbent written by a known writer', 'the incumbent (best_lb/best_sol) is written by %s, which is not maybe_update_best or set_primal' % w)
        if not ctx.floor(rule, tag + '/writers', None, len([w for w in writers if w in allowed]), 2, 'writers of the incumbent'):
            continue
        for w in sorted(allowed):
            wb = ctx.F.bodies[w]
            ws = writers.get(w, {})
            # COUPLED: both fields written, under the same guard region: each write point reaches / is reached by the other on all paths
            lbw = ws.get('best_lb', [])
            sow = ws.get('best_sol', [])
            ok = bool(lbw) and bool(sow)
            if ok:
                for (p1, _, _) in lbw:
                    # from p1, avoiding every best_sol write, the return must be unreachable — or p1 is dominated by one
                    r = wb.reach(wb.after(p1), avoid=[p for (p, _, _) in sow])
                    fwd = not any(p in r for p in ret_points(wb))
                    r0 = wb.reach([(0, 0)], avoid=[p for (p, _, _) in sow])
                    bwd = p1 not in r0
                    ok = ok and (fwd or bwd)
                for (p2, _, _) in sow:
                    r = wb.reach(wb.after(p2), avoid=[p for (p, _, _) in lbw])
                    fwd = not any(p in r for p in ret_points(wb))
                    r0 = wb.reach([(0, 0)], avoid=[p for (p, _, _) in lbw])
                    bwd = p2 not in r0
                    ok = ok and (fwd or bwd)
            ctx.check(ok, rule, '%s/coupled/%s' % (tag, wb.fn_name), wb, wb.loc(0),
                      'best_lb and best_sol are written together on every path of %s' % wb.fn_name,
                      '%s writes one of best_lb / best_sol without the other on some path' % wb.fn_name)
            if tag == 'par' and lbw and sow:
                sites = set()
                for (_, dest, _) in lbw + sow:
                    sites |= _lock_sites(dest)
                ctx.check(len(sites) == 1, 'R02.2', '%s/one-lock-region/%s' % (tag, wb.fn_name), wb, wb.loc(0),
                          'both incumbent writes of %s go through one acquisition of the critical lock' % wb.fn_name,
                          'the incumbent writes of %s go through %d different lock acquisitions' % (wb.fn_name, len(sites)))
        # maybe_update_best: origins and strictness
        mb = ctx.body(adt, 'maybe_update_best')
        ws = writers.get(mb.name, {})
        def exact_val(t):
            # mdd.best_exact_value().unwrap_or(MIN)  |  the payload v of `if let Some(v) = mdd.best_exact_value()` / match / unwrap
            f = opt_fold(t)
            if f is not None and M.is_call(f[0], 'DecisionDiagram::best_exact_value') and f[1] == opt_payload(f[0]) and is_min_const(f[2]):
                return f[0]
            if M.is_field(t, '0') and isinstance(t[1], tuple) and t[1][0] == 'variant' and t[1][2] == 'Some' and M.is_call(t[1][1], 'DecisionDiagram::best_exact_value'):
                return t[1][1]
            return None
        for (pt, dest, val) in ws.get('best_lb', []):
            ctx.check(exact_val(val) is not None, rule, tag + '/new-lb-origin', mb, mb.loc(*pt),
                      'new best_lb = mdd.best_exact_value().unwrap_or(MIN)',
                      'the incumbent value is taken from %s, not from the diagram\'s best EXACT value' % M.show(val))
            recv_v = exact_val(val)[2][0] if exact_val(val) is not None else None
            for (pt2, dest2, val2) in ws.get('best_sol', []):
                good = M.is_call(val2, 'DecisionDiagram::best_exact_solution') and (recv_v is None or val2[2][0] == recv_v)
                ctx.check(good, rule, tag + '/new-sol-origin', mb, mb.loc(*pt2),
                          'new best_sol = best_exact_solution() of the same diagram',
                          'the incumbent solution is taken from %s, not from best_exact_solution() of the diagram that provided the value' % M.show(val2))
            lbp = is_lb(ctx.F)
            def accept(atoms, lit, val=val):
                return any(M.cmp_matches(a, lambda t: t == val, lbp, '>=') and '>' in _rel(a, lambda t: t == val) for a in atoms)
            ok, cut, bad = M.guarded(mb, [pt], accept)
            ctx.check(ok, rule, tag + '/improve-only', mb, mb.loc(*pt),
                      'the incumbent is replaced only on an edge asserting new > |>= best_lb',
                      'maybe_update_best can overwrite the incumbent without asserting new_value > best_lb')
            if tag == 'par' and cut:
                # check-then-act: the best_lb read in the guard and the write share the lock acquisition
                gsites = set()
                for (bbk, lab) in cut:
                    for a in M.lit_atoms(M.edge_literal(mb, bbk, lab)):
                        if a[0] == 'cmp':
                            gsites |= _lock_sites(a[1]) | _lock_sites(a[2])
                ctx.check(gsites == _lock_sites(dest) and len(gsites) == 1, 'R02.2', tag + '/check-then-act/maybe_update_best', mb, mb.loc(*pt),
                          'the comparison against best_lb and the write happen under the same lock acquisition',
                          'maybe_update_best compares against a best_lb read under another lock acquisition than the one it writes under (lost update)')


def _lock_sites(t):
    out = set()
    for x in M.walk(t):
        if M.is_call(x, 'lock') and x[3] is not None and 'Mutex' in x[1]:
            out.add(x[3])
    return out


# ------------------------------------------------------------------------------------------------
# C14 / E10 — set_primal: strict improvement only
# ------------------------------------------------------------------------------------------------
def r_set_primal(ctx, rule='R14.1'):
    for tag, adt in SOLVERS:
        b = ctx.body(adt, 'set_primal', trait='Solver')
        ws = [(pt, d, v) for (pt, d, v, s) in writes(b) if solver_field(d, 'best_lb') or solver_field(d, 'best_sol')]
        if not ctx.floor(rule, tag, b, len(ws), 2, 'incumbent writes in set_primal'):
            continue
        value = lambda t: M.is_param(t, index=1)
        lbp = is_lb(ctx.F)
        strict = lambda atoms, lit: any(M.cmp_matches(a, value, lbp, '>') for a in atoms)
        ok, cut, bad = M.guarded(b, [pt for (pt, d, v) in ws], strict)
        ctx.check(ok, rule, tag + '/strict', b, b.loc(0), 'set_primal replaces the incumbent only on an edge asserting value > best_lb (strict)',
                  'set_primal can replace the incumbent without asserting value > best_lb (strictly)')
        # and it does replace it when strictly greater: from the strict edge all paths write both
        for (bbk, lab) in cut:
            tb = [t for (t, l) in b.succ(bbk) if l == lab][0]
            if not any(pt in b.reach([(tb, 0)]) for (pt, d, v) in ws):
                continue      # an edge after the writes (a drop flag that merely remembers the test)
            for f in ('best_lb', 'best_sol'):
                pts = [pt for (pt, d, v) in ws if solver_field(d, f)]
                r = b.reach([(tb, 0)], avoid=pts)
                ctx.check(not any(p in r for p in ret_points(b)), rule, '%s/writes-%s' % (tag, f), b, b.loc(bbk),
                          'on value > best_lb, %s is replaced on every path' % f, 'on value > best_lb a path does not write %s' % f)
        for (pt, d, v) in ws:
            if solver_field(d, 'best_lb'):
                ctx.check(value(v), rule, tag + '/lb-origin', b, b.loc(*pt), 'best_lb := value parameter', 'best_lb := %s' % M.show(v))
            else:
                good = isinstance(v, tuple) and v[0] == 'aggr' and v[2] == 'Some' and M.is_param(v[3][0][1], index=2)
                ctx.check(good, rule, tag + '/sol-origin', b, b.loc(*pt), 'best_sol := Some(solution parameter)', 'best_sol := %s' % M.show(v))
        if tag == 'par':
            sites = set()
            for (pt, d, v) in ws:
                sites |= _lock_sites(d)
            for (bbk, lab) in cut:
                for a in M.lit_atoms(M.edge_literal(b, bbk, lab)):
                    if a[0] == 'cmp':
                        sites |= _lock_sites(a[1]) | _lock_sites(a[2])
            ctx.check(len(sites) == 1, rule, tag + '/one-lock-region', b, b.loc(0), 'test and both writes under one lock acquisition',
                      'set_primal tests and writes under %d lock acquisitions' % len(sites))


# ------------------------------------------------------------------------------------------------
# T8 — lock regions of the parallel solver
# ------------------------------------------------------------------------------------------------
def lock_calls(body):
    return [(bb, t) for (bb, t) in body.calls() if (t.get('callee') or '').endswith('Mutex::<R, T>::lock')]


def lock_region(body, bb):
    """points executed while the guard returned by the lock call in `bb` may still be alive"""
    t = body.term(bb)
    g = t['dest']['l']
    holders = {g}
    # follow moves of the guard into other locals
    changed = True
    while changed:
        changed = False
        for (b2, i, s) in body.assigns(lambda s: s['rv']['k'] == 'use' and 'place' in s['rv']['op']):
            src = s['rv']['op']['place']
            if src['l'] in holders and not src['p'] and not s['place']['p'] and s['place']['l'] not in holders:
                holders.add(s['place']['l'])
                changed = True
    drops = [body.term_point(b2) for b2 in body.live_blocks()
             if body.term(b2)['k'] == 'drop' and body.term(b2)['place']['l'] in holders and not body.term(b2)['place']['p']]
    for b2 in body.live_blocks():
        t2 = body.term(b2)
        if t2['k'] == 'call' and b2 != bb:
            for a in t2['args']:
                if a.get('c') == 'move' and a['place']['l'] in holders and not a['place']['p']:
                    drops.append(body.term_point(b2))
    return body.reach(body.after(body.term_point(bb)), stop=drops), drops


def r_locks(ctx, rule='R03.a'):
    F = ctx.F
    par_bodies = [b for b in F.bodies.values() if 'solver::parallel' in b.name]
    # bodies that (transitively) acquire the critical lock
    def acquires(body, seen=None):
        seen = seen if seen is not None else set()
        if body.name in seen:
            return False
        seen.add(body.name)
        if lock_calls(body):
            return True
        return any(acquires(c, seen) for c in F.callees(body) if 'solver::parallel' in c.name)
    n_regions = 0
    for b in par_bodies:
        for (bb, t) in lock_calls(b):
            ctx.analysed_bodies.add(b.name)
            n_regions += 1
            region, drops = lock_region(b, bb)
            recv = b.origin.operand(t['args'][0], b.term_point(bb))
            ctx.check(M.is_field(recv, 'critical', 'Shared'), rule, 'lock-receiver/%s' % (b.fn_name or 'closure'), b, b.loc(bb),
                      'the mutex locked is Shared.critical', 'a lock call on %s' % M.show(recv))
            bad = []
            for p in region:
                (pb, pi) = p
                if pi == len(b.stmts(pb)) and b.term(pb)['k'] == 'call' and p != b.term_point(bb):
                    ct = b.term(pb)
                    if (ct.get('callee') or '').endswith('Mutex::<R, T>::lock'):
                        bad.append((p, 'locks again'))
                        continue
                    for key in ('resolved', 'callee'):
                        c = ct.get(key)
                        if c and c in F.bodies and 'solver::parallel' in c and acquires(F.bodies[c]):
                            bad.append((p, 'calls %s which takes the lock' % c.split('::')[-1]))
                    # closures passed as arguments run inside the region too
                    for a in ct['args']:
                        at = b.origin.operand(a, p)
                        if isinstance(at, tuple) and at and at[0] == 'closure' and at[1] in F.bodies and acquires(F.bodies[at[1]]):
                            bad.append((p, 'passes closure %s which takes the lock' % at[1].split('::')[-1]))
            ctx.check(not bad, rule, 'no-reentrant-lock/%s@%s' % (b.fn_name or b.name.split('::')[-2] + '::closure', _site_tag(b, bb)), b, b.loc(bb),
                      'no acquisition of the critical lock while it is held (%d points in region)' % len(region),
                      'the non re-entrant critical lock is re-acquired while held: %s at %s' % (bad[0][1] if bad else '', b.loc(*bad[0][0]) if bad else ''))
    ctx.floor(rule, 'regions', None, n_regions, 10, 'lock regions in parallel.rs')


def _site_tag(body, bb):
    """order number of the lock call inside its function (stable under line shifts)"""
    ls = sorted(x for (x, _) in lock_calls(body))
    return '#%d' % ls.index(bb)


def r_check_then_act(ctx, rule='R03.b'):
    """every write to a Critical field that is control dependent on a value read from Critical uses the same acquisition"""
    F = ctx.F
    for name in ('maybe_update_best', 'enqueue_cutset', 'get_workload', 'abort_search', 'notify_node_finished', 'initialize'):
        b = ctx.body(PAR, name)
        for body in ctx.unit(b):
            wsites = set()
            for (pt, dest, val, s) in writes(body):
                if any((x[3] or '').endswith('Critical') for x in M.walk(dest) if isinstance(x, tuple) and x and x[0] == 'field' and len(x) == 4):
                    wsites |= _lock_sites(dest)
            gsites = set()
            for bb in body.live_blocks():
                t = body.term(bb)
                if t['k'] == 'switch':
                    d = body.origin.operand(t['discr'], body.term_point(bb))
                    if M.contains(d, lambda x: isinstance(x, tuple) and x and x[0] == 'field' and len(x) == 4 and (x[3] or '').endswith('Critical')):
                        gsites |= _lock_sites(d)
            # calls on the fringe (push/pop/clear/len/is_empty) are accesses to Critical as well
            for (bb, t) in body.calls(lambda t: (t.get('callee') or '').startswith('abstraction::fringe::Fringe::')):
                recv = body.origin.operand(t['args'][0], body.term_point(bb))
                wsites |= _lock_sites(recv)
            sites = wsites | gsites
            if not sites:
                continue
            # a guard that is bumped / temporarily unlocked is two acquisitions (a condvar wait is judged by R04.4: nothing is assumed after it)
            for (bb, t) in body.calls(lambda t: _releases_lock(t) and 'Condvar' not in (t.get('callee') or '')):
                sites = sites | {('released-and-re-acquired', bb)}
            ctx.check(len(sites) == 1, rule, 'one-acquisition/%s%s' % (name, '' if body is b else '::closure'), body, body.loc(0),
                      'all reads used in tests and all writes of Critical in this function go through one lock acquisition',
                      '%s reads/tests and writes Critical through %d different lock acquisitions (check-then-act across a release)' % (name, len(sites)))


def r_pop_unwrap(ctx):
    """a `fringe.pop().unwrap()` is executed only on a path that asserted the fringe non-empty since the last pop (a panic kills the
    worker — C04 — or the sequential search — C01)"""
    for tag, adt in SOLVERS:
        b = ctx.body(adt, 'get_workload')
        pops = b.calls_to('Fringe::pop')
        unwrapped = []
        for (bb, t) in b.calls_to('unwrap', 'expect'):
            a0 = b.origin.operand(t['args'][0], b.term_point(bb))
            if M.is_call(a0, 'Fringe::pop') and a0[3]:
                unwrapped.append(b.term_point(a0[3][1]))
        rule = 'R04.9' if tag == 'par' else 'R01.5'
        if not ctx.floor(rule, tag + '/pop-unwrap', b, len(unwrapped), 1, 'fringe.pop().unwrap() sites in get_workload'):
            continue
        fr = lambda x: solver_field(x, 'fringe')
        cut = _cut_edges(b, lambda atoms, lit: any(empty_lit(a, fr, empty=False) for a in atoms))
        starts = [(0, 0)] + [p for (bb, t) in pops for p in b.after(b.term_point(bb))]
        r = b.reach(starts, cut_edges=cut, stop=[b.term_point(bb) for (bb, t) in pops])
        bad = [p for p in unwrapped if p in r]
        ctx.check(not bad, rule, tag + '/pop-unwrap-guarded', b, b.loc(bad[0][0]) if bad else b.loc(pops[0][0]),
                  'every fringe.pop().unwrap() is reached only through an edge asserting the fringe non-empty since the previous pop (%d sites)' % len(unwrapped),
                  'fringe.pop().unwrap() can run on an empty fringe (no `!is_empty()` asserted since the last pop): the %s panics' % ('worker thread' if tag == 'par' else 'search'))


def r_pop_discard(ctx, rule='R03.pop'):
    """E2: the parallel get_workload discards the whole fringe only when the popped bound cannot beat the incumbent, and
    zeroes the open counters with it; the cache mark at pop is guarded by must_explore"""
    b = ctx.body(PAR, 'get_workload')
    clears = b.calls_to('Fringe::clear')
    lb = is_lb(ctx.F)
    popped_ub = lambda t: is_subproblem_field(t, 'ub') and any(
        M.contains(d, lambda x: M.is_call(x, 'Fringe::pop')) for d in var_def_terms(b, t[1]))
    if ctx.floor(rule, 'clear', b, len(clears), 1, 'Fringe::clear call in get_workload'):
        ok, cut, bad = M.guarded(b, [b.term_point(bb) for (bb, t) in clears],
                                 lambda atoms, lit: any(M.cmp_matches(a, popped_ub, lb, '<=') for a in atoms))
        ctx.check(ok, rule, 'discard-fringe-polarity', b, b.loc(clears[0][0]),
                  'the whole fringe is discarded only on an edge asserting popped.ub <=|< best_lb',
                  'get_workload can clear the fringe without asserting popped.ub <= best_lb')
        # the counters are zeroed on every path from the clear to the return
        zero = zeroes_all(b, lambda x: solver_field(x, 'open_by_layer'))
        r = b.reach(b.after(b.term_point(clears[0][0])), avoid=zero)
        if zero and any(M.is_const(v_, 0) for (pt_, d_, v_, s_) in writes(b) if pt_ in zero):
            # loop form: the loop must be entered on every path after the clear (the iterator is created unconditionally)
            its = [b.term_point(bb) for (bb, t) in b.calls_to('iter_mut') if M.contains(b.origin.operand(t['args'][0], b.term_point(bb)), lambda x: solver_field(x, 'open_by_layer'))]
            r = b.reach(b.after(b.term_point(clears[0][0])), avoid=its)
        ctx.check(bool(zero) and not any(p in r for p in ret_points(b)), 'R09.8', 'clear-zeroes-open-counters', b, b.loc(clears[0][0]),
                  'discarding the fringe also zeroes open_by_layer on every path', 'the fringe is cleared in get_workload without zeroing open_by_layer')
    marks = b.calls_to('Cache::update_threshold')
    if ctx.floor(rule, 'mark', b, len(marks), 1, 'Cache::update_threshold call in get_workload'):
        (bb, t) = marks[0]
        ok, cut, bad = M.guarded(b, [b.term_point(bb)], lambda atoms, lit: any(a[0] == 'T' and M.is_call(a[1], 'Cache::must_explore') for a in atoms))
        ctx.check(ok, rule, 'mark-explored-guard', b, b.loc(bb), 'the cache is marked explored at pop only when must_explore answered true',
                  'get_workload marks a state explored in the cache without must_explore having answered true')
        args = [b.origin.operand(a, b.term_point(bb)) for a in t['args']]
        good = is_subproblem_field(args[1], 'state') and is_subproblem_field(args[2], 'depth') and is_subproblem_field(args[3], 'value') \
            and args[1][1] == args[2][1] == args[3][1] and M.is_const(args[4], True)
        ctx.check(good, rule, 'mark-explored-args', b, b.loc(bb), 'the mark is (state, depth, value, explored = true) of the popped node',
                  'update_threshold at pop receives (%s)' % ', '.join(M.show(a) for a in args[1:]))
        # the node handed out is the one that was marked
        wi = aggr_assigns(b, 'WorkLoad', 'WorkItem')
        for (wb, i, s) in wi:
            v = b.origin.rvalue(s['rv'], (wb, i))
            ctx.check(M.simplify_field(v, 'node', None) == args[1][1], rule, 'workitem-is-marked-node', b, b.loc(wb, i),
                      'the WorkItem returned is the popped node that was tested', 'the WorkItem is %s' % M.show(v))
        # the sequential solver asks must_explore before compiling (R09.7) — checked by R01.1's accept set; here: the call exists
    sb = ctx.body(SEQ, 'process_one_node')
    me = sb.calls_to('Cache::must_explore')
    cs = compile_calls(sb)
    if ctx.floor('R09.7', 'seq/must_explore', sb, len(me), 1, 'Cache::must_explore call in process_one_node') and cs:
        r = sb.reach([(0, 0)], avoid=[sb.term_point(bb) for (bb, t) in me])
        ctx.check(sb.term_point(cs[0][0]) not in r, 'R09.7', 'seq/must_explore-before-compile', sb, sb.loc(me[0][0]),
                  'the sequential solver consults must_explore before the first compilation on every path',
                  'a path reaches the first compilation without consulting cache.must_explore')
        arg = sb.origin.operand(me[0][1]['args'][1], sb.term_point(me[0][0]))
        ctx.check(M.is_param(arg), 'R09.7', 'seq/must_explore-arg', sb, sb.loc(me[0][0]), 'must_explore is asked about the popped node',
                  'must_explore is asked about %s' % M.show(arg))


# ------------------------------------------------------------------------------------------------
# C04 — premises P1..P8
# ------------------------------------------------------------------------------------------------
def r_c04(ctx):
    F = ctx.F
    gw = ctx.body(PAR, 'get_workload')
    nf = ctx.body(PAR, 'notify_node_finished')
    # ---- P1 pairing -------------------------------------------------------------------------
    ow = {}
    for body in F.bodies.values():
        for (pt, dest, val, s) in writes(body):
            if M.is_field(dest, 'ongoing', 'Critical'):
                ow.setdefault(body.name, []).append((pt, dest, val))
    inc = lambda d, v: v == M.mk_add(('const', 1, None, 'usize'), d)
    dec = lambda d, v: v == ('sub', d, ('const', 1, None, 'usize'))
    for w, lst in sorted(ow.items()):
        wb = F.bodies[w]
        for (pt, d, v) in lst:
            if w == gw.name:
                ctx.check(inc(d, v), 'R04.1', 'ongoing-writers/get_workload', wb, wb.loc(*pt), 'get_workload increments ongoing by one',
                          'get_workload writes ongoing := %s' % M.show(v))
            elif w == nf.name:
                ctx.check(dec(d, v), 'R04.1', 'ongoing-writers/notify_node_finished', wb, wb.loc(*pt), 'notify_node_finished decrements ongoing by one',
                          'notify_node_finished writes ongoing := %s' % M.show(v))
            else:
                ctx.bad('R04.1', 'ongoing-writers/' + (wb.fn_name or 'closure'), wb, wb.loc(*pt), 'ongoing is written outside get_workload / notify_node_finished')
    incs = [pt for (pt, d, v) in ow.get(gw.name, [])]
    wi = [(bb, i) for (bb, i, s) in aggr_assigns(gw, 'WorkLoad', 'WorkItem')]
    others = [(bb, i) for (bb, i, s) in aggr_assigns(gw, 'WorkLoad') if s['rv']['variant'] != 'WorkItem']
    if ctx.floor('R04.1', 'inc', gw, len(incs), 1, 'increments of ongoing in get_workload') and ctx.floor('R04.1', 'workitem', gw, len(wi), 1, 'WorkItem returns'):
        r = gw.reach([(0, 0)], avoid=incs)
        ctx.check(not any(p in r for p in wi), 'R04.1', 'workitem-implies-increment', gw, gw.loc(*wi[0]),
                  'every path returning WorkItem increments ongoing', 'a path returns WorkItem without incrementing ongoing')
        for p in incs:
            r = gw.reach(gw.after(p))
            ctx.check(not any(q in r for q in others) and not any(q in r for q in incs), 'R04.1', 'increment-implies-workitem', gw, gw.loc(*p),
                      'after incrementing ongoing the function can only return WorkItem, and increments once',
                      'after incrementing ongoing, get_workload can return a non-WorkItem workload or increment again (a unit of ongoing nobody releases)')
    # ---- P2 release on all exits of the worker ------------------------------------------------
    mx = ctx.body(PAR, 'maximize', trait='Solver')
    worker = None
    for c in ctx.unit(mx):
        if c.calls_to('get_workload'):
            worker = c
    if worker is None:
        raise MissingAnchor('worker closure (calls get_workload) in ParallelSolver::maximize')
    gwc = worker.calls_to('get_workload')
    nfc = [worker.term_point(bb) for (bb, t) in worker.calls_to('notify_node_finished')]
    starts = []
    for bb in worker.live_blocks():
        t = worker.term(bb)
        if t['k'] == 'switch':
            for (tb, lab) in worker.succ(bb):
                lit = M.edge_literal(worker, bb, lab)
                if lit and lit[0] == 'in' and lit[2] == frozenset(['WorkItem']) and M.is_call(lit[1], 'get_workload'):
                    starts.append((tb, 0))
    if ctx.floor('R04.2', 'worker', worker, len(starts), 1, 'WorkItem arm of the worker loop') and ctx.floor('R04.2', 'notify', worker, len(nfc), 1, 'notify_node_finished calls'):
        Z = [worker.term_point(bb) for (bb, t) in gwc] + ret_points(worker)
        r = worker.reach(starts, avoid=nfc)
        ctx.check(not any(z in r for z in Z), 'R04.2', 'release-on-every-exit', worker, worker.loc(starts[0][0]),
                  'every path from the WorkItem arm to the next get_workload or to the end of the worker calls notify_node_finished (abort path included)',
                  'a worker path leaves the WorkItem arm (loop back-edge or exit) without notify_node_finished: ongoing is never released and the other workers wait forever')
        once = True
        for p in nfc:
            r = worker.reach(worker.after(p), stop=Z)
            if any(q in r for q in nfc):
                once = False
        ctx.check(once, 'R04.2', 'release-exactly-once', worker, worker.loc(nfc[0][0]), 'notify_node_finished is called at most once per work item',
                  'notify_node_finished can be called twice for one work item (ongoing underflow)')
        # worker id and depth arguments
        for (bb, t) in worker.calls_to('notify_node_finished'):
            a = [worker.origin.operand(x, worker.term_point(bb)) for x in t['args']]
            ga = worker.origin.operand(gwc[0][1]['args'][1], worker.term_point(gwc[0][0]))
            ctx.check(a[1] == ga, 'R04.8', 'notify-thread-id@%d' % nfc.index(worker.term_point(bb)), worker, worker.loc(bb),
                      'notify_node_finished receives the same worker id as get_workload', 'worker id mismatch: %s vs %s' % (M.show(a[1]), M.show(ga)))
            ctx.check(is_subproblem_field(a[2], 'depth') and M.contains(a[2], lambda x: M.is_call(x, 'get_workload')), 'R04.8',
                      'notify-depth@%d' % nfc.index(worker.term_point(bb)), worker, worker.loc(bb),
                      'notify_node_finished receives the depth of the work item', 'depth argument is %s' % M.show(a[2]))
        # the per-worker slot of the in-flight bounds is the worker's own: in get_workload and in notify_node_finished every write to
        # upper_bounds[I] has I = the parameter that receives the worker id at the call sites above (slot 0 / another worker's slot would
        # lose the bound of a node in flight: unsound ub at an abort, C05)
        for (fb_, argpos) in ((gw, 1), (nf, 1)):
            for (pt, dest, val, st) in writes(fb_):
                if isinstance(dest, tuple) and dest[0] == 'index' and M.is_field(dest[1], 'upper_bounds', 'Critical'):
                    ctx.check(M.is_param(dest[2], index=argpos) and dest[2][1] == fb_.name, 'R05.4', 'in-flight-slot-is-own/%s' % fb_.fn_name, fb_, fb_.loc(*pt),
                              '%s writes the in-flight bound of the calling worker (upper_bounds[thread_id])' % fb_.fn_name,
                              '%s writes upper_bounds[%s], not the slot of the calling worker' % (fb_.fn_name, M.show(dest[2])))
        # ... the bound registered for a popped node is that node's ub, and the bound handed to abort_search is the ub of the work item
        for (pt, dest, val, st) in writes(gw):
            val = _unsome(val)
            if isinstance(dest, tuple) and dest[0] == 'index' and M.is_field(dest[1], 'upper_bounds', 'Critical'):
                ctx.check(is_subproblem_field(val, 'ub') and M.contains(val, lambda x: M.is_call(x, 'Fringe::pop')) or
                          (is_subproblem_field(val, 'ub') and any(M.contains(d_, lambda x: M.is_call(x, 'Fringe::pop')) for d_ in var_def_terms(gw, val[1]))),
                          'R05.4', 'in-flight-bound-is-popped-ub', gw, gw.loc(*pt),
                          'the in-flight bound registered at pop is the ub of the popped node', 'get_workload registers %s as the in-flight bound of the popped node' % M.show(val)[:120])
        for (bb, t) in worker.calls_to('abort_search'):
            a = [worker.origin.operand(x, worker.term_point(bb)) for x in t['args']]
            ubs = [x for x in a if is_subproblem_field(x, 'ub') and M.contains(x, lambda y: M.is_call(y, 'get_workload'))]
            ctx.check(len(ubs) == 1, 'R05.4', 'abort-receives-work-item-ub', worker, worker.loc(bb),
                      'abort_search receives the ub of the work item being processed', 'abort_search is called with (%s): none of them is the ub of the work item' % ', '.join(M.show(x)[:60] for x in a[1:]))
        # P8 spawn bound
        ga = worker.origin.operand(gwc[0][1]['args'][1], worker.term_point(gwc[0][0]))
        rng = [x for x in M.walk(ga) if isinstance(x, tuple) and x and x[0] == 'aggr' and x[1].endswith('Range')]
        good = bool(rng) and M.is_const(dict(rng[0][3])['start'], 0) and M.is_field(dict(rng[0][3])['end'], 'nb_threads', 'ParallelSolver') \
            and M.contains(ga, lambda x: M.is_call(x, 'Iterator::next'))
        ctx.check(good, 'R04.8', 'spawn-range', worker, worker.loc(gwc[0][0]), 'worker ids range over 0..self.nb_threads',
                  'the worker id is %s, not an element of 0..self.nb_threads' % M.show(ga))
    # ---- P3 notify_node_finished --------------------------------------------------------------
    decs = [pt for (pt, d, v) in ow.get(nf.name, [])]
    na = nf.calls_to('Condvar::notify_all')
    if ctx.floor('R04.3', 'notify_all', nf, len(na), 1, 'Condvar::notify_all call in notify_node_finished') and ctx.floor('R04.3', 'dec', nf, len(decs), 1, 'decrement of ongoing'):
        nap = [nf.term_point(bb) for (bb, t) in na]
        r = nf.reach([(0, 0)], avoid=nap)
        ctx.check(not any(p in r for p in ret_points(nf)), 'R04.3', 'notify-all-on-every-path', nf, nf.loc(na[0][0]),
                  'every path through notify_node_finished wakes all waiters', 'a path through notify_node_finished does not call monitor.notify_all()')
        r = nf.reach([(0, 0)], avoid=decs)
        ctx.check(not any(p in r for p in ret_points(nf)), 'R04.3', 'decrement-on-every-path', nf, nf.loc(*decs[0]),
                  'every path decrements ongoing', 'a path through notify_node_finished does not decrement ongoing')
        recv = nf.origin.operand(na[0][1]['args'][0], nap[0])
        ctx.check(M.is_field(recv, 'monitor', 'Shared'), 'R04.3', 'notify-on-monitor', nf, nf.loc(na[0][0]), 'the condvar notified is Shared.monitor',
                  'notify_all on %s' % M.show(recv))
        lk = lock_calls(nf)
        good = bool(lk)
        if lk:
            region, drops = lock_region(nf, lk[0][0])
            for p in nap:
                # the wake-up must not precede the critical section of the decrement: either it is issued inside it, or no
                # decrement can follow it (notifying after the unlock is fine: the waiter re-tests under the lock)
                after = nf.reach(nf.after(p))
                if p not in region and any(d in after for d in decs):
                    good = False
        ctx.check(good, 'R04.3', 'notify-not-before-decrement', nf, nf.loc(na[0][0]),
                  'the wake-up is issued inside or after the critical section that decrements ongoing',
                  'notify_all can be executed before the critical section that decrements ongoing: a waiter wakes, re-tests the old state and sleeps again')
    ctx.check(not nf.calls_to('Condvar::notify_one'), 'R04.3', 'no-notify-one', nf, nf.loc(0), 'no notify_one', 'notify_one wakes a single waiter only')
    # ---- P4 wait ------------------------------------------------------------------------------
    waits = gw.calls_to('Condvar::wait')
    allwaits = [(b.name, bb) for b in F.bodies.values() if 'solver::parallel' in b.name for (bb, t) in b.calls()
                if 'Condvar' in (t.get('callee') or '') and 'wait' in (t.get('callee') or '').split('::')[-1]]
    ctx.check(len(allwaits) == len(waits), 'R04.4', 'wait-sites', gw, gw.loc(0), 'the only condvar wait is in get_workload (%d site)' % len(waits),
              'a condvar wait exists outside get_workload: %s' % allwaits)
    ctx.floor('R04.4', 'wait', gw, len(waits), 1, 'Condvar::wait call in get_workload')
    for wn, (wbb, wt) in enumerate(waits):
        wp = gw.term_point(wbb)
        a = [gw.origin.operand(x, wp) for x in wt['args']]
        ctx.check(M.is_field(a[0], 'monitor', 'Shared') and M.is_call(a[1], 'lock') and M.is_field(a[1][2][0], 'critical', 'Shared'),
                  'R04.4', 'wait-args#%d' % wn, gw, gw.loc(wbb), 'wait(monitor, guard of critical)', 'wait is called with (%s, %s)' % (M.show(a[0]), M.show(a[1])))
        # path-consistent check (B1'): on every feasible path to the wait, fringe.is_empty() holds (last query) and ongoing != 0
        res = _paths_to(gw, wp)
        ctx.stats['paths'] += res['n']
        ctx.check(res['n'] > 0 and not res['bad_empty'], 'R04.4', 'wait-only-when-fringe-empty#%d' % wn, gw, gw.loc(wbb),
                  'on each of the %d feasible paths to the wait the fringe was observed empty since its last mutation' % res['feasible'],
                  'a worker can wait although the fringe was not observed empty (it sleeps while work is available)')
        ctx.check(res['n'] > 0 and not res['bad_ongoing'], 'R04.4', 'no-wait-when-ongoing-zero#%d' % wn, gw, gw.loc(wbb),
                  'no feasible path reaches the wait with ongoing == 0 (the completion test precedes it): somebody is left to wake the waiter',
                  'a worker can wait while ongoing == 0 and the fringe is empty: nobody is left to wake it up')
        # after the wait the function returns without assuming anything
        r = gw.reach(gw.after(wp))
        ctx.check(not any(p in r for p in [gw.term_point(bb) for (bb, t) in gw.calls_to('Fringe::pop')]), 'R04.4', 'return-after-wait#%d' % wn, gw, gw.loc(wbb),
                  'after waking up the worker returns to its loop (re-evaluates everything)', 'after the wait the function goes on to pop without re-testing')
    # ---- P6 no re-entrant lock : r_locks ; P7 vector length coupled to nb_threads ---------------
    r_nb_threads(ctx)


def _paths_to(gw, wp):
    """enumerate loop-free paths to `wp`; atoms on fringe.is_empty() are versioned by the number of fringe mutations seen"""
    paths = M.enumerate_paths(gw, (0, 0), stops=[wp], max_paths=20000)
    n = feasible = 0
    bad_empty = []
    bad_ongoing = []
    for (edges, blocks, end) in paths:
        if end != wp:
            continue
        n += 1
        atoms = []
        epoch = 0
        emap = {}
        for k, (b, lab) in enumerate(edges):
            # mutations executed in block b (its terminator call) before taking the edge are counted at the call
            lit = M.edge_literal(gw, b, lab)
            if lit is not None:
                for a in M.lit_atoms(lit):
                    atoms.append(_version(a, emap))
            # the edge leads into blocks[k+1]; a call terminator of that block mutating the fringe bumps the epoch
        # recompute with epochs: walk blocks in order
        atoms = []
        epoch = 0
        for k, b in enumerate(blocks):
            t = gw.term(b)
            if k < len(edges):
                (eb, lab) = edges[k]
                lit = M.edge_literal(gw, eb, lab)
                if lit is not None:
                    for a in M.lit_atoms(lit):
                        atoms.append(_strip_sites(a, epoch))
            if t['k'] == 'call' and (t.get('callee') or '').split('::')[-1] in ('push', 'pop', 'clear') and 'Fringe' in (t.get('callee') or ''):
                if (b, len(gw.stmts(b))) != wp:
                    epoch += 1
            if t['k'] == 'call' and (b, len(gw.stmts(b))) != wp and _releases_lock(t):
                # the critical mutex is released and re-acquired here (MutexGuard::bump / unlocked, a condvar wait): whatever was tested
                # before says nothing about the state after it — other workers have run in between
                atoms = []
                epoch += 1
            if t['k'] == 'call' and (b, len(gw.stmts(b))) != wp and k < len(blocks) - 1:
                # writes to `ongoing` bump its version too (none before the wait today)
                pass
        if not M.consistent(atoms):
            continue
        feasible += 1
        empt = [a for a in atoms if a[0] in ('T', 'F') and isinstance(a[1], tuple) and a[1][0] == 'q_is_empty']
        last = [a for a in empt if a[1][1] == epoch]
        if not any(a[0] == 'T' for a in last):
            bad_empty.append(edges)
        ong = [a for a in atoms if a[0] == 'cmp' and M.is_field(a[1], 'ongoing', 'Critical') and M.is_const(a[2], 0)]
        if not any('=' not in a[3] for a in ong):
            bad_ongoing.append(edges)
    return {'n': n, 'feasible': feasible, 'bad_empty': bad_empty, 'bad_ongoing': bad_ongoing}


def _releases_lock(t):
    c = t.get('callee') or ''
    last = c.split('::')[-1]
    if 'MutexGuard' in c and last in ('bump', 'unlocked', 'unlocked_fair', 'unlock_fair', 'leak'):
        return True
    if 'Condvar' in c and last.startswith('wait'):
        return True
    if 'Mutex' in c and last in ('force_unlock', 'force_unlock_fair'):
        return True
    return False


def _version(a, emap):
    return a


def _strip_sites(a, epoch):
    """Fringe::is_empty(fringe)@site  ->  ('q_is_empty', epoch): two queries with no fringe mutation in between are one atom"""
    if a[0] in ('T', 'F') and M.is_call(a[1], 'Fringe::is_empty'):
        return (a[0], ('q_is_empty', epoch))
    return a


def _places_of(x):
    """all place dicts inside an rvalue / operand JSON fragment"""
    out = []
    if isinstance(x, dict):
        if 'l' in x and 'p' in x and isinstance(x['p'], list):
            out.append(x)
        for v in x.values():
            out.extend(_places_of(v))
    elif isinstance(x, list):
        for v in x:
            out.extend(_places_of(v))
    return out


def r_nb_threads(ctx):
    """P7: every writer of ParallelSolver.nb_threads re-establishes upper_bounds.len() == nb_threads; one idle marker"""
    F = ctx.F
    markers = []
    n_writers = 0
    # every Vec of Critical that is indexed by the worker id (today: upper_bounds) — found, not listed: a per-worker table added later
    # is subject to the same obligation
    per_worker = {'upper_bounds'}
    for wb_ in (ctx.body(PAR, 'get_workload'), ctx.body(PAR, 'notify_node_finished')):
        for u_ in ctx.unit(wb_):
            for bb_ in u_.live_blocks():
                for i_, s_ in enumerate(u_.stmts(bb_)):
                    if s_['k'] != 'assign':
                        continue
                    for pl_ in [s_['place']] + [x for x in _places_of(s_['rv'])]:
                        fs_ = [e for e in pl_['p'] if isinstance(e, dict) and 'f' in e and (e.get('adt') or '').endswith('parallel::Critical')]
                        ix_ = [e for e in pl_['p'] if isinstance(e, dict) and 'idx' in e]
                        if fs_ and ix_ and pl_['p'].index(ix_[0]) > pl_['p'].index(fs_[-1]):
                            it_ = u_.origin.place({'l': ix_[0]['idx'], 'p': []}, (bb_, i_))
                            if M.is_param(it_, index=1) and it_[1] == wb_.name:
                                per_worker.add(fs_[-1]['name'])
            # Vec indexing is a call of Index / IndexMut
            for (bb_, t_) in u_.calls_to('index', 'index_mut'):
                a_ = [u_.origin.operand(x, u_.term_point(bb_)) for x in t_['args']]
                if len(a_) == 2 and isinstance(a_[0], tuple) and a_[0] and a_[0][0] == 'field' and len(a_[0]) == 4 and (a_[0][3] or '').endswith('parallel::Critical') \
                        and M.is_param(a_[1], index=1) and a_[1][1] == wb_.name:
                    per_worker.add(a_[0][2])
    extra_tables = sorted(per_worker - {'upper_bounds'})
    for body in F.bodies.values():
        if 'solver::parallel' not in body.name:
            continue
        # constructor aggregates
        for (bb, i, s) in aggr_assigns(body, 'parallel::ParallelSolver'):
            n_writers += 1
            ctx.analysed_bodies.add(body.name)
            v = body.origin.rvalue(s['rv'], (bb, i))
            n = M.simplify_field(v, 'nb_threads', None)
            ubs = [x for x in M.walk(v) if isinstance(x, tuple) and x and x[0] == 'aggr' and x[1].endswith('parallel::Critical')]
            ok = False
            if ubs:
                ub = dict(ubs[0][3]).get('upper_bounds')
                if M.is_call(ub, 'from_elem') and ub[2][1] == n:
                    ok = True
                    markers.append((body, (bb, i), ub[2][0]))
            ctx.check(ok, 'R04.7', 'ctor-len/' + (body.fn_name or '?'), body, body.loc(bb, i), 'constructor sizes upper_bounds with the same value as nb_threads',
                      'constructor builds upper_bounds with a length other than nb_threads')
            for f_ in extra_tables:
                tv = dict(ubs[0][3]).get(f_) if ubs else None
                ctx.check(M.is_call(tv, 'from_elem') and tv[2][1] == n, 'R04.7', 'ctor-len/%s/%s' % (f_, body.fn_name or '?'), body, body.loc(bb, i),
                          'constructor sizes the per-worker table %s with nb_threads' % f_, 'constructor builds the per-worker table %s with a length other than nb_threads' % f_)
        # later writes of the field
        fw = [(bb, i, s) for (bb, i, s) in body.assigns(lambda s: s['place']['p'] and isinstance(s['place']['p'][-1], dict)
                                                         and s['place']['p'][-1].get('name') == 'nb_threads' and (s['place']['p'][-1].get('adt') or '').endswith('ParallelSolver'))]
        for (bb, i, s) in fw:
            n_writers += 1
            ctx.analysed_bodies.add(body.name)
            n = body.origin.rvalue(s['rv'], (bb, i))
            ok = False
            for (pt, dest, val, st) in writes(body):
                if M.is_field(dest, 'upper_bounds', 'Critical') and M.is_call(val, 'from_elem') and val[2][1] == n:
                    ok = True
                    markers.append((body, pt, val[2][0]))
            for (cb, ct) in body.calls_to('resize'):
                a = [body.origin.operand(x, body.term_point(cb)) for x in ct['args']]
                if M.is_field(a[0], 'upper_bounds', 'Critical') and a[1] == n:
                    ok = True
                    markers.append((body, body.term_point(cb), a[2]))
            for f_ in extra_tables:
                okf = any(M.is_field(dest, f_, 'Critical') and M.is_call(val, 'from_elem') and val[2][1] == n for (pt, dest, val, st) in writes(body)) or \
                    any(M.is_field(body.origin.operand(ct['args'][0], body.term_point(cb)), f_, 'Critical') and body.origin.operand(ct['args'][1], body.term_point(cb)) == n for (cb, ct) in body.calls_to('resize'))
                ctx.check(okf, 'R04.7', 'writer-len/%s/%s' % (f_, body.fn_name or '?'), body, body.loc(bb, i), '%s re-sizes the per-worker table %s together with nb_threads' % (body.fn_name, f_),
                          '%s changes nb_threads without re-sizing Critical.%s, which workers index with their id: a worker with a high id panics out of bounds holding a unit of `ongoing`, the others wait forever' % (body.fn_name, f_))
            ctx.check(ok, 'R04.7', 'writer-len/' + (body.fn_name or '?'), body, body.loc(bb, i),
                      '%s re-sizes upper_bounds together with nb_threads' % body.fn_name,
                      '%s changes nb_threads without re-sizing Critical.upper_bounds (indexed by worker id): a worker indexes out of bounds, panics '
                      'holding a unit of `ongoing`, the others wait forever' % body.fn_name)
        for (pt, dest, val, st) in writes(body):
            if isinstance(dest, tuple) and dest[0] == 'index' and M.is_field(dest[1], 'upper_bounds', 'Critical') and body.fn_name == 'notify_node_finished':
                markers.append((body, pt, val))
    ctx.floor('R04.7', 'writers', None, n_writers, 2, 'writers of nb_threads (constructor + with_nb_threads)')
    # R04.10 — at least one worker: with nb_threads = 0 the spawn loop starts nobody, the root stays on the fringe and maximize() still
    # reports is_exact (abort_proof is None): the search is declared complete with an open sub-problem. Every writer of nb_threads
    # therefore stores a value whose lower bound is >= 1 (`n.max(1)`, `clamp(1, _)`, `NonZeroUsize::get`, `if n == 0 {1} else {n}`, or a
    # write reachable only under `n > 0` / `n != 0`, e.g. behind an assert) — lower-bound interval domain of R13.c
    from .width_rules import lower_bound
    def _atoms_on_all_paths(body_, point_):
        out_ = []
        for bbk in body_.live_blocks():
            if body_.term(bbk)['k'] != 'switch':
                continue
            for (tb, lab) in body_.succ(bbk):
                if point_ not in body_.reach([(0, 0)], cut_edges=[(bbk, lab)]):
                    out_ += list(M.lit_atoms(M.edge_literal(body_, bbk, lab)))
        return out_
    for body in F.bodies.values():
        if 'solver::parallel' not in body.name:
            continue
        sites = [((bb, i), M.simplify_field(body.origin.rvalue(s_['rv'], (bb, i)), 'nb_threads', None)) for (bb, i, s_) in aggr_assigns(body, 'parallel::ParallelSolver')]
        sites += [((bb, i), body.origin.rvalue(s_['rv'], (bb, i))) for (bb, i, s_) in body.assigns(
            lambda s_: s_['place']['p'] and isinstance(s_['place']['p'][-1], dict) and s_['place']['p'][-1].get('name') == 'nb_threads' and (s_['place']['p'][-1].get('adt') or '').endswith('ParallelSolver'))]
        for (pt, n) in sites:
            lbv = lower_bound(n, _atoms_on_all_paths(body, pt))
            ctx.check(lbv >= 1, 'R04.10', 'at-least-one-worker/' + (body.fn_name or '?'), body, body.loc(*pt),
                      '%s stores a number of worker threads >= 1 (%s)' % (body.fn_name, M.show(n)[:80]),
                      '%s can store nb_threads = 0 (%s has lower bound %d): maximize() then spawns no worker, leaves the root on the fringe and still reports is_exact = true / no solution' % (body.fn_name, M.show(n)[:80], lbv))
    vals = set(m[2] for m in markers)
    one = len(vals) == 1 and is_min_const(list(vals)[0])
    if len(vals) == 1 and list(vals)[0] == M.MK_NONE:
        # slots kept as Option<isize>: None is neutral provided the abort skips it (flatten / filter_map / flat_map before the max)
        try:
            asb_ = ctx.body(PAR, 'abort_search')
            one = any(M.contains(asb_.origin.operand(a_, asb_.term_point(bb_)), lambda x: M.is_field(x, 'upper_bounds', 'Critical'))
                      for (bb_, t_) in asb_.calls_to('flatten', 'filter_map', 'flat_map') for a_ in t_['args'][:1])
        except MissingAnchor:
            one = False
    if markers:
        ctx.check(one and len(markers) >= 3, 'R05.4', 'idle-marker', markers[0][0], markers[0][0].loc(*markers[0][1]),
                  'idle workers hold the neutral element of the max taken at abort (isize::MIN, or None skipped by the reader) in upper_bounds at all %d places' % len(markers),
                  'the idle marker of upper_bounds is not uniformly isize::MIN (%s): the max over in-flight bounds at abort is wrong' % sorted(M.show(v) for v in vals))


# ------------------------------------------------------------------------------------------------
# C05 — abort handling in the solvers
# ------------------------------------------------------------------------------------------------
def r_abort(ctx):
    F = ctx.F
    # R05.2: Err => abort_search on all paths; abort_proof := Some(reason)
    for tag, adt in SOLVERS:
        mx = ctx.body(adt, 'maximize', trait='Solver')
        loopb = None
        for c in ctx.unit(mx):
            if c.calls_to('process_one_node'):
                loopb = c
        if loopb is None:
            raise MissingAnchor('%s: body calling process_one_node' % tag)
        pon = loopb.calls_to('process_one_node')[0]
        starts = []
        for bb in loopb.live_blocks():
            if loopb.term(bb)['k'] == 'switch':
                for (tb, lab) in loopb.succ(bb):
                    lit = M.edge_literal(loopb, bb, lab)
                    if lit and lit[0] == 'in' and lit[2] == frozenset(['Err']) and M.is_call(lit[1], 'process_one_node'):
                        starts.append((tb, 0))
        ab = [loopb.term_point(bb) for (bb, t) in loopb.calls_to('abort_search')]
        proof_w = [(pt, d, v) for (pt, d, v, s) in writes(loopb) if solver_field(d, 'abort_proof')]
        if not ab:
            # the abort handling is written (or was inlined) in place: the abort IS the write abort_proof := Some(..)
            ab = [pt for (pt, d, v) in proof_w if isinstance(v, tuple) and v[0] == 'aggr' and v[2] == 'Some']
        if ctx.floor('R05.2', tag + '/err-arm', loopb, len(starts), 1, 'Err arm on the result of process_one_node') and \
                ctx.floor('R05.2', tag + '/abort-call', loopb, len(ab), 1, 'abort_search call'):
            Z = ret_points(loopb) + [loopb.term_point(bb) for (bb, t) in loopb.calls_to('get_workload')]
            r = loopb.reach(starts, avoid=ab)
            ctx.check(not any(z in r for z in Z), 'R05.2', tag + '/err-implies-abort', loopb, loopb.loc(starts[0][0]),
                      'an Err from process_one_node reaches abort_search on every path', 'an Err from process_one_node can be dropped without abort_search (is_exact stays true)')
            if tag == 'seq':
                # R05.3 (sequential idiom): no way back to get_workload after the abort (break)
                r = loopb.reach(loopb.after(ab[0]))
                back = any(loopb.term_point(bb) in r for (bb, t) in loopb.calls_to('get_workload'))
                gwb = ctx.body(adt, 'get_workload')
                guarded_write = _ub_collapse_guarded(ctx, gwb)
                ctx.check((not back) or guarded_write, 'R05.3', 'seq/no-complete-after-abort', loopb, loopb.loc(ab[0][0]),
                          'after abort_search the sequential loop never asks for work again (so best_ub := best_lb is unreachable after an abort)',
                          'after abort_search the loop calls get_workload again, whose completion branch overwrites best_ub with best_lb on the emptied fringe')
        asbs = [x for x in F.find(adt=adt, name='abort_search') if x.name in F.bodies]
        if asbs:
            asb = asbs[0]
            ws = [(pt, d, v) for (pt, d, v, s) in writes(asb) if solver_field(d, 'abort_proof')]
            good = bool(ws) and all(isinstance(v, tuple) and v[0] == 'aggr' and v[2] == 'Some' and M.is_param(v[3][0][1]) for (pt, d, v) in ws)
            if good:
                r = asb.reach([(0, 0)], avoid=[pt for (pt, d, v) in ws])
                good = not any(p in r for p in ret_points(asb))
        else:
            # in place: the proof recorded is the reason carried by the Err of process_one_node
            asb = loopb
            good = bool(proof_w) and all(isinstance(v, tuple) and v[0] == 'aggr' and v[2] == 'Some' and M.contains(v[3][0][1], lambda x: M.is_call(x, 'process_one_node')) for (pt, d, v) in proof_w)
        ctx.check(good, 'R05.2', tag + '/abort-sets-proof', asb, asb.loc(0), 'abort_search records abort_proof = Some(reason) on every path',
                  'abort_search does not set abort_proof := Some(reason) on every path')
        if tag == 'seq':
            # the bound left at a cut-off is the ub of the node popped last (R19.1); a node popped although it is stale (ub <= best_lb) is
            # dropped at once, WITHOUT polling the cutoff — an Err that can leave process_one_node before the staleness test aborts the
            # search with best_ub = that stale ub < best_lb. Accepted: every Err exit lies behind an edge asserting node.ub > best_lb (or >=), or the
            # abort handler clamps the bound with the incumbent (max(.., best_lb)).
            pb_ = ctx.body(adt, 'process_one_node')
            errs_ = [(bb_, i_) for (bb_, i_, s_) in aggr_assigns(pb_, 'Result', 'Err') if s_['place']['l'] == 0]
            errs_ += [pb_.term_point(bb_) for (bb_, t_) in pb_.calls_to('FromResidual::from_residual', 'from_residual') if not t_['dest']['p'] and t_['dest']['l'] == 0]
            lbp_ = is_lb(F)
            nub_ = lambda t: is_subproblem_field(t, 'ub') and M.is_param(t[1])
            okg_, cut_, _ = M.guarded(pb_, errs_, lambda atoms, lit: any(M.cmp_matches(a_, nub_, lbp_, '>=') for a_ in atoms)) if errs_ else (False, [], [])
            clamp_ = any(solver_field(d_, 'best_ub') and M.contains(v_, lambda x: isinstance(x, tuple) and x and x[0] == 'max' and any(lbp_(y) for y in x[1]))
                         for (pt_, d_, v_, s_) in writes(asb))
            ctx.check(bool(errs_) and (okg_ or clamp_), 'R05.2', 'seq/no-abort-on-a-stale-node', pb_, pb_.loc(*errs_[0]) if errs_ else pb_.loc(0),
                      'process_one_node can fail (cut-off) only behind the staleness test node.ub > best_lb: the bound left at an abort is never below the incumbent',
                      'process_one_node can return Err (cut-off) for a node that was popped although its ub <= best_lb (a poll in front of the staleness test): the abort leaves best_ub = that stale ub, below the lower bound')
        # the proof of an abort is withdrawn (abort_proof := None outside the constructor: a solver that can be asked to maximize again)
        # only together with a FULL reset of what the aborted search left behind: the abort discards the open sub-problems, so every
        # "explored" mark still in the cache speaks about a search whose remainder was thrown away — a later run that trusts those marks
        # skips the root and proves optimality of the interrupted incumbent. Accepted: the abort handler clears the cache and the fringe on
        # every path (today), or the function that withdraws the proof does.
        modkey = 'solver::sequential' if tag == 'seq' else 'solver::parallel'
        def _clears_all(body_, starts_=None):
            starts_ = starts_ or [(0, 0)]
            for what_ in ('Cache::clear', 'Fringe::clear'):
                pts_ = [body_.term_point(bb_) for u_ in [body_] for (bb_, t_) in u_.calls_to('clear') if (t_.get('callee') or '').endswith(what_) or what_.split('::')[0].lower() in M.show(u_.origin.operand(t_['args'][0], u_.term_point(bb_))).lower()]
                if not pts_:
                    return False
                r_ = body_.reach(starts_, avoid=pts_)
                if any(p_ in r_ for p_ in ret_points(body_)):
                    return False
            return True
        # the abort handler: abort_search, or (written / inlined in place) what follows the write abort_proof := Some(..)
        if asbs:
            handler_ok = _clears_all(asb)
        else:
            somes_ = [pt for (pt, d, v) in proof_w if isinstance(v, tuple) and v[0] == 'aggr' and v[2] == 'Some']
            handler_ok = bool(somes_) and _clears_all(loopb, [q for pt in somes_ for q in loopb.after(pt)])
        withdrawn = []
        for wb_ in F.bodies.values():
            if modkey not in wb_.name:
                continue
            for (pt, d, v, s) in writes(wb_):
                if solver_field(d, 'abort_proof') and isinstance(v, tuple) and v and ((v[0] == 'aggr' and v[2] == 'None') or M.is_call(v, 'take')):
                    withdrawn.append((wb_, pt))
        if not withdrawn:
            ctx.ok('R05.2', tag + '/proof-withdrawn-only-with-a-full-reset', asb, asb.loc(0), 'abort_proof is never reset after construction: an aborted solver never claims exactness again')
        for (wb_, pt) in withdrawn:
            ctx.analysed_bodies.add(wb_.name)
            good = handler_ok or _clears_all(wb_)
            ctx.check(good, 'R05.2', tag + '/proof-withdrawn-only-with-a-full-reset', wb_, wb_.loc(*pt),
                      '%s withdraws abort_proof, and the abort handler (or %s itself) clears the cache and the fringe on every path' % (wb_.fn_name, wb_.fn_name),
                      '%s resets abort_proof to None, but neither the abort handler nor %s clears BOTH the cache and the fringe on every path: the next maximize() meets "explored" marks '
                      'of a search whose open sub-problems were discarded, skips them and reports the interrupted incumbent as proven optimal' % (wb_.fn_name, wb_.fn_name))
    # R05.3 (parallel): the collapse best_ub := best_lb must be guarded by abort_proof.is_none() under the same lock
    gw = ctx.body(PAR, 'get_workload')
    ctx.check(_ub_collapse_guarded(ctx, gw), 'R05.3', 'par/complete-guarded-by-abort', gw, gw.loc(0),
              'in the parallel get_workload the write best_ub := best_lb / return Complete is reachable only when abort_proof is None (same lock region)',
              'ParallelSolver::get_workload can declare completion (best_ub := best_lb) after an abort emptied the fringe: the abort test does not precede the completion test')
    # R05.4: bound stored by the parallel abort
    asb = ctx.body(PAR, 'abort_search')
    ws = [(pt, d, v) for (pt, d, v, s) in writes(asb) if solver_field(d, 'best_ub')]
    pops = asb.calls_to('Fringe::pop')
    clears = asb.calls_to('Fringe::clear')
    if ctx.floor('R05.4', 'best_ub-writes', asb, len(ws), 1, 'writes of best_ub in abort_search'):
        flat = []
        for (pt, d, v) in ws:
            for (conds, leaf) in M.cases(v):
                flat.append((pt, d, leaf, conds))
        for n, (pt, d, v, conds) in enumerate(flat):
            items = v[1] if isinstance(v, tuple) and v[0] == 'max' else (v,)
            has_param = any(M.is_param(x) and x[1] == asb.name for x in items)
            def running_max(x):
                # `let mut m = MIN; for ub in upper_bounds.iter() { if ub > m { m = ub } }`: an accumulator that starts at MIN and is only
                # ever replaced, behind `elem > m` / `elem >= m`, by the element of an iteration over upper_bounds
                if not (isinstance(x, tuple) and x and x[0] == 'var' and x[1] == asb.name):
                    return False
                ok_, n_elem = True, 0
                for d_ in asb.defs().get(x[2], []):
                    if d_[2] not in ('whole', 'call'):
                        return False
                    t_ = asb.origin._def_term(x[2], d_, 0)
                    if is_min_const(t_):
                        continue
                    if not (M.contains(t_, lambda y: M.is_call(y, 'Iterator::next')) and M.contains(t_, lambda y: M.is_field(y, 'upper_bounds', 'Critical'))):
                        return False
                    n_elem += 1
                    g_, _, _ = M.guarded(asb, [(d_[0], d_[1])], lambda atoms, lit, t_=t_: any(M.cmp_matches(a_, lambda u: u == t_, lambda u: u == x, '>=') or M.cmp_matches(a_, lambda u: u == t_, lambda u: u == x, '>') for a_ in atoms))
                    ok_ = ok_ and g_
                return ok_ and n_elem >= 1
            has_inflight = any((M.contains(x, lambda y: M.is_field(y, 'upper_bounds', 'Critical')) and M.contains(x, lambda y: M.is_call(y, 'Iterator::max', 'max', 'fold'))) or running_max(x) for x in items)
            def is_top(x):
                # ub of the sub-problem on top of the fringe, MIN (or nothing) when the fringe is empty
                f = opt_fold(x)
                if f is not None:
                    return M.is_call(f[0], 'Fringe::pop') and is_subproblem_field(f[1], 'ub') and f[1][1] == opt_payload(f[0])
                return is_subproblem_field(x, 'ub') and M.contains(x, lambda y: M.is_call(y, 'Fringe::pop'))
            has_top = any(is_top(x) for x in items)
            prev = any(solver_field(x, 'best_ub') for x in items)
            # the previous value may be skipped only on the edge asserting best_ub == MAX
            first_abort = lambda atoms: any(
                M.cmp_matches(a, lambda t: solver_field(t, 'best_ub'), lambda t: is_max_const(t), '=') for a in atoms)
            if not prev:
                ok, cut, bad = M.guarded(asb, [pt], lambda atoms, lit: first_abort(atoms))
                prev = ok or first_abort([a for c_ in conds for a in M.lit_atoms(c_)])
            ctx.check(has_param, 'R05.4', 'abort-bound/own-node#%d' % n, asb, asb.loc(*pt), 'the stored bound covers the aborting node', 'best_ub := %s ignores the aborting node\'s bound' % M.show(v))
            ctx.check(has_inflight, 'R05.4', 'abort-bound/in-flight#%d' % n, asb, asb.loc(*pt), 'the stored bound covers the nodes other workers are processing (max over upper_bounds)',
                      'ParallelSolver::abort_search stores a bound that ignores the nodes still in flight on other workers (upper_bounds is not read): lb can end above ub')
            ctx.check(has_top, 'R05.4', 'abort-bound/fringe-top#%d' % n, asb, asb.loc(*pt), 'the stored bound covers the open sub-problems (top of the fringe)',
                      'ParallelSolver::abort_search stores a bound that ignores the sub-problems still on the fringe (dropped by clear())')
            # ... and the incumbent: another worker may have found a value above every piece of open work after this node was popped
            has_lb = any(is_lb(ctx.F)(x) for x in items)
            ctx.check(has_lb, 'R05.4', 'abort-bound/incumbent#%d' % n, asb, asb.loc(*pt), 'the stored bound is at least the incumbent (max with best_lb)',
                      'ParallelSolver::abort_search stores a bound that ignores the incumbent: when another worker has already found a value above the open work, ub ends below lb and below the optimum')
            ctx.check(prev, 'R05.4', 'abort-bound/previous#%d' % n, asb, asb.loc(*pt), 'a second abort can only raise the stored bound (max with the previous one, or first abort)',
                      'best_ub is overwritten without max-combining the previously stored bound')
        # an abort may leave best_ub untouched (first recorded bound stands) only if that bound can only have been written by an
        # earlier abort — which requires that a worker never releases its unit of `ongoing` (making completion reachable for the
        # others) before it has recorded its abort
        wp_ = [pt for (pt, d, v) in ws]
        r_ = asb.reach([(0, 0)], avoid=wp_)
        must_write = not any(p_ in r_ for p_ in ret_points(asb))
        mxp = ctx.body(PAR, 'maximize', trait='Solver')
        worker_ = [c_ for c_ in ctx.unit(mxp) if c_.calls_to('abort_search')]
        order_ok = False
        if worker_:
            w_ = worker_[0]
            ab_ = [w_.term_point(bb) for (bb, t) in w_.calls_to('abort_search')]
            gwp_ = [w_.term_point(bb) for (bb, t) in w_.calls_to('get_workload')]
            order_ok = True
            for (bb, t) in w_.calls_to('notify_node_finished'):
                if any(a_ in w_.reach(w_.after(w_.term_point(bb)), stop=gwp_) for a_ in ab_):
                    order_ok = False
        ctx.check(must_write or order_ok, 'R05.4', 'abort-bound/recorded-on-every-abort', asb, asb.loc(0),
                  'every abort records a bound, or (first bound stands) no worker releases its unit of ongoing before recording its abort, so that bound can only come from an abort',
                  'abort_search can leave best_ub untouched while a worker releases `ongoing` (notify_node_finished) before calling abort_search: another worker can declare completion '
                  '(best_ub := best_lb) in between and that value survives the abort')
        if pops and clears:
            r = asb.reach(asb.after(asb.term_point(clears[0][0])))
            ctx.check(asb.term_point(pops[0][0]) not in r, 'R05.4', 'abort-bound/peek-before-clear', asb, asb.loc(pops[0][0]),
                      'the top of the fringe is read before the fringe is cleared', 'the fringe is cleared before its top bound is read')
    # Aborted is answered only when an abort was recorded (otherwise the search stops at once and reports an 'exact' nothing)
    for tag_, adt_ in SOLVERS:
        gw_ = ctx.body(adt_, 'get_workload')
        ab_ = [(bb_, i_) for (bb_, i_, s_) in aggr_assigns(gw_, 'WorkLoad', 'Aborted')]
        if ab_:
            ok_, _, _ = M.guarded(gw_, ab_, lambda atoms, lit: any(opt_is(a_, lambda x: solver_field(x, 'abort_proof'), 'Some') for a_ in atoms))
            ctx.check(ok_, 'R05.2', tag_ + '/aborted-only-after-abort', gw_, gw_.loc(*ab_[0]), 'get_workload answers Aborted only on an edge asserting abort_proof is Some',
                      'get_workload can answer Aborted although no abort was recorded: the search stops without exploring and reports is_exact = true')
    # the in-flight table the abort reads is filled when a worker takes a node: upper_bounds[thread_id] := ub of the node handed out
    gwb = ctx.body(PAR, 'get_workload')
    wi_ = aggr_assigns(gwb, 'WorkLoad', 'WorkItem')
    ubw = [(pt, d, v) for (pt, d, v, s) in writes(gwb) if isinstance(d, tuple) and d[0] == 'index' and solver_field(d[1], 'upper_bounds')]
    good = bool(wi_) and bool(ubw)
    for (bb_, i_, s_) in wi_:
        item = gwb.origin.rvalue(s_['rv'], (bb_, i_))
        node_t = dict(item[3]).get('node') if isinstance(item, tuple) and item[0] == 'aggr' else None
        okw = [pt for (pt, d, v0_) in ubw for v in [_unsome(v0_)] if M.is_param(d[2]) and d[2][1] == gwb.name and is_subproblem_field(v, 'ub') and (node_t is None or v[1] == node_t or
               (isinstance(node_t, tuple) and node_t[0] == 'var' and isinstance(v[1], tuple) and v[1][0] == 'var' and v[1][2] == node_t[2]))]
        r_ = gwb.reach([(0, 0)], avoid=okw)
        good = good and bool(okw) and (bb_, i_) not in r_
    ctx.check(good, 'R05.4', 'abort-bound/in-flight-recorded-at-pop', gwb, gwb.loc(wi_[0][0], wi_[0][1]) if wi_ else gwb.loc(0),
              'every path that hands a node to a worker records upper_bounds[thread_id] := node.ub (the table an aborting worker takes its bound from)',
              'a worker can take a node without recording its bound in upper_bounds[thread_id]: an abort by another worker then stores a bound that ignores this in-flight node')
    r_nb_threads_marker_only(ctx)


def r_nb_threads_marker_only(ctx):
    # the idle-marker consistency is part of R05.4 (neutral element of the max); computed by r_nb_threads
    keep = len(ctx.results)
    r_nb_threads(ctx)
    ctx.results[keep:] = [r for r in ctx.results[keep:] if r['rule'] == 'R05.4']


def _ub_collapse_guarded(ctx, gw):
    """every write best_ub := best_lb (and every Complete return) in get_workload is reachable only across an edge asserting
    abort_proof.is_none()"""
    pts = [pt for (pt, d, v, s) in writes(gw) if solver_field(d, 'best_ub') and is_lb(ctx.F)(v)]
    pts += [(bb, i) for (bb, i, s) in aggr_assigns(gw, 'WorkLoad', 'Complete')]
    if not pts:
        return True
    def acc(atoms, lit):
        for a in atoms:
            if opt_is(a, lambda x: solver_field(x, 'abort_proof'), 'None'):
                return True
        return False
    ok, cut, bad = M.guarded(gw, pts, acc)
    return ok


# ------------------------------------------------------------------------------------------------
# C19 / C05 (d) — sequential anytime mechanisms
# ------------------------------------------------------------------------------------------------
def r_c19(ctx):
    gw = ctx.body(SEQ, 'get_workload')
    pops = gw.calls_to('Fringe::pop')
    if ctx.floor('R19.1', 'pop', gw, len(pops), 1, 'Fringe::pop in sequential get_workload'):
        pp_ = gw.term_point(pops[0][0])
        ws = [(pt, d, v) for (pt, d, v, s) in writes(gw) if solver_field(d, 'best_ub')]
        popped_ub = lambda v: is_subproblem_field(v, 'ub') and M.contains(v, lambda x: M.is_call(x, 'Fringe::pop'))
        pw = [pt for (pt, d, v) in ws if popped_ub(v)]
        r = gw.reach(gw.after(pp_), avoid=pw)
        ctx.check(bool(pw) and not any(p in r for p in ret_points(gw)), 'R19.1', 'best_ub-is-popped-ub', gw, gw.loc(pops[0][0]),
                  'on every path that pops, best_ub := ub of the popped node', 'a path pops a node without setting best_ub to its ub')
        for (pt, d, v) in ws:
            ctx.check(popped_ub(v) or is_lb(ctx.F)(v), 'R19.1', 'best_ub-writes', gw, gw.loc(*pt), 'best_ub is written only with the popped ub or, on completion, best_lb',
                      'best_ub := %s' % M.show(v))
        comp = [(bb, i) for (bb, i, s) in aggr_assigns(gw, 'WorkLoad', 'Complete')]
        cw = [pt for (pt, d, v) in ws if is_lb(ctx.F)(v)]
        if comp:
            r = gw.reach([(0, 0)], avoid=cw)
            ctx.check(bool(cw) and not any(p in r for p in comp), 'R19.6', 'complete-sets-ub', gw, gw.loc(*comp[0]), 'on Complete, best_ub := best_lb',
                      'Complete is returned without best_ub := best_lb')
    # who writes best_ub at all (sequential)
    for body in ctx.F.bodies.values():
        for (pt, d, v, s) in writes(body):
            if M.is_field(d, 'best_ub', 'SequentialSolver'):
                ctx.check(body.name == gw.name, 'R19.1', 'who-writes-best_ub/' + (body.fn_name or 'closure'), body, body.loc(*pt),
                          'best_ub written in get_workload only', 'best_ub of the sequential solver is written in %s' % body.name)
    # R19.5 monotone incumbent: R02.1 improve-only + R14 strict (re-used by the property module)


# ------------------------------------------------------------------------------------------------
# R09.6 — must_explore decision table (one-sided, site E6); R09.8 — open_by_layer accounting / clear_layer
# ------------------------------------------------------------------------------------------------
def r_must_explore(ctx, rule='R09.6'):
    F = ctx.F
    bodies = [b for b in F.bodies.values() if b.fn_name == 'must_explore' and b.kind != 'closure' and ((b.trait_default or '').endswith('cache::Cache') or (b.impl_trait or '').endswith('cache::Cache'))]
    ctx.floor(rule, 'impls', None, len(bodies), 2, 'must_explore bodies (trait default + EmptyCache)')
    from .dd_rules import _path_ret
    for b in bodies:
        ctx.analysed_bodies.add(b.name)
        who = (b.impl_self_adt or 'Cache(default)').split('::')[-1]
        n = 0
        bad = []
        for (atoms, rt, blocks, end) in bool_fn_paths(b):
            n += 1
            if M.is_const(rt, True):
                continue   # exploring is always allowed
            # the path may answer false: that is admissible only if value < theta, or value == theta and explored
            val = lambda t: is_subproblem_field(t, 'value') and M.is_param(t[1], index=1)
            def th(t, f):
                return M.is_field(t, f, 'Threshold') and M.contains(t, lambda x: M.is_call(x, 'Cache::get_threshold') and is_subproblem_field(x[2][1], 'state')
                                                                      and is_subproblem_field(x[2][2], 'depth') and x[2][1][1] == x[2][2][1] and M.is_param(x[2][1][1], index=1))
            rel = frozenset('<=>')
            for a in atoms:
                if a[0] == 'cmp':
                    if val(a[1]) and th(a[2], 'value'):
                        rel = rel & a[3]
                    elif val(a[2]) and th(a[1], 'value'):
                        rel = rel & frozenset({'<': '>', '>': '<', '=': '='}[x] for x in a[3])
            explored_true = any(a[0] == 'T' and th(a[1], 'explored') for a in atoms)
            if M.is_const(rt, False):
                ok = rel <= frozenset('<') or (rel == frozenset('=') and explored_true) or (rel <= frozenset('<=') and explored_true)
            elif isinstance(rt, tuple) and rt[0] == 'not' and th(rt[1], 'explored'):
                ok = rel <= frozenset('<=')
            else:
                ok = False
            if not ok:
                bad.append((sorted(rel), M.show(rt)))
        ctx.stats['paths'] += n
        ctx.check(n > 0 and not bad, rule, 'table/' + who, b, b.loc(0),
                  'must_explore (%s): on each of the %d paths the answer can be false only when value < theta, or value == theta and the threshold is explored (no threshold => true)' % (who, n),
                  'must_explore can answer false in a case where the sub-problem must be explored (value > theta, or value == theta with an unexplored threshold, or no threshold): %s' % bad[:3])


def r_open_by_layer(ctx, rule='R09.8'):
    F = ctx.F
    obl = lambda t: isinstance(t, tuple) and t[0] == 'index' and solver_field(t[1], 'open_by_layer')
    for tag, adt in SOLVERS:
        # ---- pushes -----------------------------------------------------------------------------
        b, c = _enqueue_closure(ctx, adt)
        pushes = c.calls_to('Fringe::push')
        ws = [(pt, d, v) for (pt, d, v, s) in writes(c) if obl(d)]
        good = bool(ws) and bool(pushes)
        if good:
            (pbb, pt_) = pushes[0]
            pp_ = c.term_point(pbb)
            pushed = c.origin.operand(pt_['args'][1], pp_)
            (wp, d, v) = ws[0]
            depth_ok = is_subproblem_field(d[2], 'depth') and M.is_param(d[2][1]) and d[2][1][1] == c.name
            delta = [x for x in v[1] if x != d] if isinstance(v, tuple) and v[0] == 'add' and d in v[1] else []
            dl = delta[0] if len(delta) == 1 else None
            delta_ok = isinstance(dl, tuple) and dl[0] == 'sub' and M.is_call(dl[1], 'Fringe::len') and M.is_call(dl[2], 'Fringe::len') and dl[1][3] and dl[2][3]
            if delta_ok:
                after_p, before_p = c.term_point(dl[1][3][1]), c.term_point(dl[2][3][1])
                delta_ok = after_p in c.reach(c.after(pp_)) and pp_ in c.reach(c.after(before_p)) and pp_ not in c.reach(c.after(after_p))
            r = c.reach(c.after(pp_), avoid=[wp])
            must = not any(p in r for p in ret_points(c))
            good = depth_ok and delta_ok and must
        ctx.check(good, rule, tag + '/push-accounting', c, c.loc(pushes[0][0]) if pushes else c.loc(0),
                  'every push of a cut-set node is followed by open_by_layer[node.depth] += len_after - len_before (a coalescing fringe is counted correctly)',
                  'the open-node counter is not updated with (fringe.len() after - before) at the pushed node\'s depth after each push')
        ib = ctx.body(adt, 'initialize')
        ps = ib.calls_to('Fringe::push')
        ws = [(pt, d, v) for (pt, d, v, s) in writes(ib) if obl(d)]
        good = bool(ps) and bool(ws)
        if good:
            pushed = inline_helpers(F, ib.origin.operand(ps[0][1]['args'][1], ib.term_point(ps[0][0])))
            dp = M.simplify_field(pushed, 'depth', 'common::SubProblem')
            (wp, d, v) = ws[0]
            good = M.is_const(dp, 0) and M.is_const(d[2], 0) and v == M.mk_add(d, ('const', 1, None, 'usize'))
        ctx.check(good, rule, tag + '/root-accounting', ib, ib.loc(ps[0][0]) if ps else ib.loc(0), 'the root (depth 0) is pushed and open_by_layer[0] += 1', 'the root push is not accounted for in open_by_layer[0]')
        # ---- pops -------------------------------------------------------------------------------
        gw = ctx.body(adt, 'get_workload')
        pops = [gw.term_point(bb) for (bb, t) in gw.calls_to('Fringe::pop')]
        def popped_depth(t):
            return is_subproblem_field(t, 'depth') and any(M.contains(x, lambda y: M.is_call(y, 'Fringe::pop')) for x in var_def_terms(gw, t[1]))
        decs = [pt for (pt, d, v, s) in writes(gw) if obl(d) and popped_depth(d[2]) and v == ('sub', d, ('const', 1, None, 'usize'))]
        zero = zeroes_all(gw, lambda x: solver_field(x, 'open_by_layer'))
        zero += [gw.term_point(bb) for (bb, t) in gw.calls_to('iter_mut') if M.contains(gw.origin.operand(t['args'][0], gw.term_point(bb)), lambda x: solver_field(x, 'open_by_layer'))]
        good = bool(pops) and bool(decs)
        for p in pops:
            r = gw.reach(gw.after(p), avoid=decs + zero)
            if any(q in r for q in ret_points(gw)) or any(q in r for q in pops if q != p) or (p in r):
                good = False
        for dpt in decs:
            r = gw.reach(gw.after(dpt), stop=pops)
            if any(q in r for q in decs):
                good = False
        ctx.check(good, rule, tag + '/pop-accounting', gw, gw.loc(pops[0][0]) if pops else gw.loc(0),
                  'every popped node is followed, before the function returns or pops again, by exactly one open_by_layer[popped.depth] -= 1 (or all counters are zeroed with the fringe)',
                  'a popped node is not accounted for exactly once in open_by_layer (cache layers are cleared too early or never)')
        # ---- clear_layer ------------------------------------------------------------------------
        cl = gw.calls_to('Cache::clear_layer')
        if ctx.floor(rule, tag + '/clear_layer', gw, len(cl), 1, 'Cache::clear_layer call'):
            (bb, t) = cl[0]
            cp = gw.term_point(bb)
            arg = gw.origin.operand(t['args'][1], cp)
            fal0 = lambda x: solver_field(x, 'first_active_layer')
            # cursor idiom: `for layer in self.first_active_layer.. { .. self.first_active_layer = layer + 1; }` — the loop variable of a
            # RangeFrom that starts at the field, with the field advanced to `layer + 1` in every iteration that goes on, IS the field at
            # the top of each iteration (induction: start = field; next = previous + 1 = field)
            cursor = []
            for it_ in iterations(ctx, gw):
                if it_['kind'] != 'for' or it_['where'] is not gw:
                    continue
                src_ = it_['src']
                if isinstance(src_, tuple) and src_ and src_[0] == 'aggr' and (src_[1] or '').endswith('RangeFrom') and fal0(dict(src_[3]).get('start')):
                    adv_ = [pt_ for (pt_, d_, v_, s_) in writes(gw) if fal0(d_) and v_ == M.mk_add(it_['item'], ('const', 1, None, 'usize'))]
                    if adv_ and every_iteration_does(dict(it_, ends=[it_['at']]), adv_):
                        cursor.append(it_['item'])
            fal = lambda x: fal0(x) or any(x == c_ for c_ in cursor)
            ok1, _, _ = M.guarded(gw, [cp], lambda atoms, lit: any(M.cmp_matches(a, fal, lambda x: M.is_call(x, 'Problem::nb_variables'), '<') for a in atoms))
            def zero_open(x):
                terms = x[1] if isinstance(x, tuple) and x[0] == 'add' else (x,)
                has_open = any(obl(y) and fal(y[2]) for y in terms)
                has_ong = any(isinstance(y, tuple) and y[0] == 'index' and solver_field(y[1], 'ongoing_by_layer') and fal(y[2]) for y in terms)
                return has_open and (has_ong or tag == 'seq') and len(terms) == (2 if tag == 'par' else 1)
            ok2, _, _ = M.guarded(gw, [cp], lambda atoms, lit: any(M.cmp_matches(a, zero_open, lambda x: M.is_const(x, 0), '=') for a in atoms))
            fw = [pt for (pt, d, v, s) in writes(gw) if fal0(d) and (v == M.mk_add(d, ('const', 1, None, 'usize')) or any(v == M.mk_add(c_, ('const', 1, None, 'usize')) for c_ in cursor))]
            r = gw.reach(gw.after(cp), avoid=fw)
            ok3 = bool(fw) and cp not in r and not any(q in r for q in ret_points(gw))
            ctx.check(fal(arg) and ok1 and ok2 and ok3, rule, tag + '/clear_layer-protocol', gw, gw.loc(bb),
                      'clear_layer(l) is called only for l = first_active_layer < nb_variables with no open%s node at l, and the counter then advances' % (' or ongoing' if tag == 'par' else ''),
                      'a cache layer can be cleared while nodes of that layer are still open%s (or for a layer other than first_active_layer, or without advancing)' % (' / being processed' if tag == 'par' else ''))
        if tag == 'par':
            # ongoing_by_layer: +1 with the work item's depth, -1 in notify_node_finished
            ong = lambda t: isinstance(t, tuple) and t[0] == 'index' and solver_field(t[1], 'ongoing_by_layer')
            wi = [(pt, d, v) for (pt, d, v, s) in writes(gw) if ong(d)]
            good = bool(wi) and all(popped_depth(d[2]) and v == M.mk_add(d, ('const', 1, None, 'usize')) for (pt, d, v) in wi)
            ctx.check(good, rule, 'par/ongoing_by_layer-inc', gw, gw.loc(*wi[0][0]) if wi else gw.loc(0), 'a handed-out node is counted in ongoing_by_layer at its depth', 'ongoing_by_layer is not incremented at the depth of the node handed out')
            nf = ctx.body(adt, 'notify_node_finished')
            wd = [(pt, d, v) for (pt, d, v, s) in writes(nf) if ong(d)]
            good = bool(wd) and all(M.is_param(d[2], index=2) and v == ('sub', d, ('const', 1, None, 'usize')) for (pt, d, v) in wd)
            ctx.check(good, rule, 'par/ongoing_by_layer-dec', nf, nf.loc(*wd[0][0]) if wd else nf.loc(0), 'a finished node is un-counted at the depth passed by the worker', 'ongoing_by_layer is not decremented at the finished node\'s depth')
