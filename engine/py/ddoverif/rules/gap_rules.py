"""C17 — Solver::gap decided completely by abstract interpretation over sign/order cells (absint_gap)."""
from .. import mirlib as M
from .. import absint_gap as G
from ..core import MissingAnchor


def r_gap(ctx, rule='R17'):
    bs = [b for b in ctx.F.bodies.values() if b.fn_name == 'gap' and b.kind != 'closure' and ((b.trait_default or '').endswith('solver::Solver') or (b.impl_trait or '').endswith('solver::Solver'))]
    if not bs:
        raise MissingAnchor('Solver::gap')
    for b in bs:
        ctx.analysed_bodies.add(b.name)
        who = (b.impl_self_adt or 'Solver(default)').split('::')[-1]
        cells = G.cells()
        for c in cells:
            name = G.cell_name(c)
            res = G.interpret(b, c)
            ctx.stats['paths'] += len(res)
            where = b.loc(0)
            if not res:
                ctx.bad(rule + '.total', '%s/%s' % (who, name), b, where, 'no return reached in cell %s' % name)
                continue
            # O1 no NaN, no panic / overflow
            probs = [p for r in res for p in r['problems']]
            nan = any(r['nan'] for r in res)
            vals = ', '.join(sorted(set(G.show(r['value']) for r in res)))
            ctx.check(not nan and not probs, rule + '.1', '%s/not-NaN-no-panic/%s' % (who, name), b, where,
                      'cell %s: result %s is never NaN and no overflow/panic can occur' % (name, vals),
                      'cell %s: gap() = %s may be NaN or panic: %s' % (name, vals, '; '.join(probs[:3]) if probs else 'divisor and dividend may both be 0'))
            # O2 non-negative
            ctx.check(all(r['nonneg'] is True for r in res), rule + '.2', '%s/non-negative/%s' % (who, name), b, where,
                      'cell %s: result >= 0' % name, 'cell %s: gap() = %s cannot be shown non-negative' % (name, vals))
            if G.infinite(c):
                # O3 = 1 while a bound is infinite
                ctx.check(all(r['is_one'] for r in res), rule + '.3', '%s/one-when-infinite/%s' % (who, name), b, where,
                          'cell %s (a bound is infinite): result is exactly 1' % name, 'cell %s: a bound is still infinite but gap() = %s, not 1' % (name, vals))
            else:
                # O4 zero iff lb == ub
                want = (c['rel'] == 'eq')
                ctx.check(all(r['zero'] is want for r in res), rule + '.4', '%s/zero-iff-equal/%s' % (who, name), b, where,
                          'cell %s: result is %s' % (name, 'exactly 0 (bounds coincide)' if want else 'never 0 (bounds differ)'),
                          'cell %s: gap() = %s %s' % (name, vals, 'is not 0 although lb = ub' if want else 'may be 0 although the bounds differ'))
                # O5 <= 1 when the bounds have the same sign
                if not G.opposite(c):
                    ctx.check(all(r['le_one'] is True for r in res), rule + '.5', '%s/at-most-one-same-sign/%s' % (who, name), b, where,
                              'cell %s (same sign): result <= 1' % name, 'cell %s: bounds have the same sign but gap() = %s cannot be shown <= 1' % (name, vals))
        ctx.floor(rule, who + '/cells', b, len(cells), 20, 'input cells')
