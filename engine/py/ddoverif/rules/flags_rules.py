"""R06.4 — NodeFlags: every accessor / mutator / constructor is summarised as an expression over the 8 flag bits (the helpers test / set /
add / remove are inlined at MIR level, so any spelling — helper calls, masks, direct bit operations — yields such an expression) and the
expression is compared with the specification by truth table: all 256 bit patterns (x both values of the boolean argument). The
specification is written in terms of the NAMES of the flag constants; their values are read from the crate."""
from .. import mirlib as M
from .common import ret_points
from ..core import MissingAnchor
from .common import *

NF = 'node_flags::NodeFlags'


class Unknown(Exception):
    pass


def bv_eval(F, t, env, depth=0):
    """value (int 0..255 or bool) of a term under env = {'bits': int, 'params': {index: value}, 'self': param index of the receiver}"""
    if depth > 30 or not isinstance(t, tuple) or not t:
        raise Unknown(M.show(t))
    k = t[0]
    if k == 'const':
        if isinstance(t[1], bool):
            return t[1]
        if isinstance(t[1], int):
            return t[1]
        raise Unknown(M.show(t))
    if k == 'param':
        if t[2] in env['params']:
            return env['params'][t[2]]
        raise Unknown(M.show(t))
    if k == 'field' and t[2] == '0' and M.is_param(t[1]) and t[1][2] == env.get('self'):
        return env['bits']
    if env.get('bits_term') is not None and t == env['bits_term']:
        return env['bits']
    if k == 'aggr' and t[1].endswith('NodeFlags') and len(t[3]) == 1:
        return ('flags', bv_eval(F, t[3][0][1], env, depth + 1))
    if k == 'field' and t[2] == '0':
        v = bv_eval(F, t[1], env, depth + 1)
        if isinstance(v, tuple) and v[0] == 'flags':
            return v[1]
        raise Unknown(M.show(t))
    if k == 'bin':
        a, b = bv_eval(F, t[2], env, depth + 1), bv_eval(F, t[3], env, depth + 1)
        if isinstance(a, bool) != isinstance(b, bool):
            raise Unknown(M.show(t))
        op = t[1]
        if op == 'BitAnd': return (a and b) if isinstance(a, bool) else (a & b)
        if op == 'BitOr': return (a or b) if isinstance(a, bool) else (a | b)
        if op == 'BitXor': return (a != b) if isinstance(a, bool) else (a ^ b)
        raise Unknown(M.show(t))
    if k == 'not':
        a = bv_eval(F, t[1], env, depth + 1)
        return (not a) if isinstance(a, bool) else ((~a) & 0xFF)
    if k == 'cmp':
        a, b = bv_eval(F, t[2], env, depth + 1), bv_eval(F, t[3], env, depth + 1)
        return {'Eq': a == b, 'Ne': a != b, 'Lt': a < b, 'Le': a <= b, 'Gt': a > b, 'Ge': a >= b}[t[1]]
    if k == 'ite':
        c = atoms_true(F, M.lit_atoms(t[1]), env, depth + 1)
        return bv_eval(F, t[2] if c else t[3], env, depth + 1)
    if k == 'cast':
        return bv_eval(F, t[2], env, depth + 1)
    if k == 'call' and isinstance(t[1], str) and t[1] in F.bodies:
        # another NodeFlags function (a constructor / accessor that is itself an anchor): its own summary
        cb = F.bodies[t[1]]
        if (cb.impl_self_adt or '').endswith('NodeFlags'):
            args = [bv_eval(F, a, env, depth + 1) for a in t[2]]
            s = summarise(F, cb)
            a0 = args[0] if args else None
            bits = a0[1] if isinstance(a0, tuple) and a0[0] == 'flags' else (a0 if isinstance(a0, int) and not isinstance(a0, bool) else 0)
            r = s(bits, {i: a for i, a in enumerate(args)})
            return r[0]
    raise Unknown(M.show(t))


def atoms_true(F, atoms, env, depth=0):
    for a in atoms:
        if a[0] in ('T', 'F'):
            v = bv_eval(F, a[1], env, depth)
            if v != (a[0] == 'T'):
                return False
        elif a[0] == 'cmp':
            x, y = bv_eval(F, a[1], env, depth), bv_eval(F, a[2], env, depth)
            rel = '<' if x < y else ('=' if x == y else '>')
            if rel not in a[3]:
                return False
        elif a[0] == 'eqc':
            if bv_eval(F, a[1], env, depth) != a[2]:
                return False
        elif a[0] == 'nec':
            if bv_eval(F, a[1], env, depth) in a[2]:
                return False
        elif a[0] == 'const':
            if not a[1]:
                return False
        else:
            raise Unknown(str(a[0]))
    return True


_SUMMARIES = {}


def summarise(F, b):
    """function (bits, {param index: value}) -> (returned value, bits afterwards) computed from the loop-free paths of `b`"""
    key = (id(F), b.name)
    if key in _SUMMARIES:
        return _SUMMARIES[key]
    from .dd_rules import _path_ret
    if b.back_edges():
        raise Unknown('loop in ' + b.name)
    paths = []
    # switches of (debug_)assert!s: one side can only panic. Their conditions are post-/pre-conditions that hold on every returning path
    # by the no-panic assumption; they may be evaluated AFTER the write, so they must not be judged on the initial bits
    rets_ = set(bb_ for (bb_, _) in ret_points(b))
    def returns_(bb_):
        return any(p_[0] in rets_ for p_ in b.reach([(bb_, 0)])) or bb_ in rets_
    assert_sw = set(bbk for bbk in b.live_blocks() if b.term(bbk)['k'] == 'switch' and any(not returns_(tb) for (tb, lab) in b.succ(bbk)))
    for (edges, blocks, end) in M.enumerate_paths(b, (0, 0)):
        atoms = M.path_atoms(b, [e_ for e_ in edges if e_[0] not in assert_sw])
        if not M.consistent(atoms):
            continue
        rt = _path_ret(b, blocks, end)
        ws = [(pt, s) for (k, pt, s) in M.path_effects(b, blocks, (0, 0), end) if k == 'write']
        newbits = None
        for (pt, s) in ws:
            d = b.origin.place(s['place'], pt)
            if not (M.is_field(d, '0') and M.is_param(d[1], index=0)):
                raise Unknown('write to %s' % M.show(d))
            if newbits is not None:
                raise Unknown('two writes on one path')
            newbits = b.origin.rvalue(s['rv'], pt)
        paths.append((atoms, rt, newbits))

    def fn(bits, params):
        env = {'bits': bits, 'params': params, 'self': 0}
        hit = [p for p in paths if atoms_true(F, p[0], env)]
        if len(hit) != 1:
            raise Unknown('%d feasible paths' % len(hit))
        (atoms, rt, nb) = hit[0]
        ret = None
        if rt is not None and b.local_ty(0) != '()':
            ret = bv_eval(F, rt, env)
        return (ret, bv_eval(F, nb, env) if nb is not None else bits)
    _SUMMARIES[key] = fn
    return fn


def r_flags(ctx):
    F = ctx.F
    consts = {k.split('::')[-1]: v['int'] for k, v in F.consts.items() if 'NodeFlags::F_' in k and 'int' in v}
    vals = sorted(consts.values())
    anyb = ctx.body(NF, 'is_exact')
    good = len(consts) >= 7 and all(v > 0 and (v & (v - 1)) == 0 for v in vals) and len(set(vals)) == len(vals)
    ctx.check(good, 'R06.4', 'flag-bits', anyb, anyb.loc(0), 'the %d NodeFlags constants are pairwise distinct single bits' % len(consts), 'NodeFlags constants are not pairwise distinct single bits: %s' % consts)
    need = ('F_EXACT', 'F_RELAXED', 'F_MARKED', 'F_CUTSET', 'F_ABOVE_CUTSET', 'F_DELETED', 'F_CACHE')
    if any(n not in consts for n in need):
        raise MissingAnchor('NodeFlags constants %s' % [n for n in need if n not in consts])
    C = consts
    ALL = range(256)

    def table(fn, spec, argsets, what, bad):
        b = ctx.body(NF, fn)
        n = 0
        err = None
        try:
            s = summarise(F, b)
            for args in argsets:
                for bits in ALL:
                    n += 1
                    got = s(bits, args)
                    want = spec(bits, args)
                    if got != want and err is None:
                        err = 'bits=%#04x args=%s: got %s, specified %s' % (bits, args, got, want)
        except Unknown as e:
            err = 'cannot be summarised as a bit-vector expression (%s)' % e
        ctx.stats['paths'] += n
        ctx.check(err is None, 'R06.4', fn, b, b.loc(0), '%s (truth table over %d cases)' % (what, n), '%s: %s' % (bad, err))

    getters = [('is_relaxed', 'F_RELAXED'), ('is_marked', 'F_MARKED'), ('is_cutset', 'F_CUTSET'), ('is_above_cutset', 'F_ABOVE_CUTSET'), ('is_deleted', 'F_DELETED'), ('is_pruned_by_cache', 'F_CACHE')]
    for (fn, c) in getters:
        table(fn, lambda bits, a, c=c: (bool(bits & C[c]), bits), [{}], '%s() <=> bit %s' % (fn, c), 'NodeFlags::%s does not test exactly %s' % (fn, c))
    table('is_exact', lambda bits, a: (bool(bits & C['F_EXACT']) and not (bits & C['F_RELAXED']), bits), [{}], 'is_exact() <=> F_EXACT set and F_RELAXED clear',
          'NodeFlags::is_exact is not F_EXACT && !F_RELAXED')
    setters = [('set_exact', 'F_EXACT'), ('set_relaxed', 'F_RELAXED'), ('set_marked', 'F_MARKED'), ('set_cutset', 'F_CUTSET'), ('set_above_cutset', 'F_ABOVE_CUTSET'), ('set_deleted', 'F_DELETED'), ('set_pruned_by_cache', 'F_CACHE')]
    for (fn, c) in setters:
        table(fn, lambda bits, a, c=c: (None, (bits | C[c]) if a[1] else (bits & ~C[c] & 0xFF)), [{1: True}, {1: False}], '%s(v) sets / clears exactly bit %s' % (fn, c),
              'NodeFlags::%s does not set / clear exactly %s' % (fn, c))
    # the generic helpers are public: masks are arbitrary bytes (a sample of single bits, pairs and the extremes keeps the table small)
    masks = sorted(set([0, 0xFF] + [1 << i for i in range(8)] + [C['F_CUTSET'] | C['F_ABOVE_CUTSET'], C['F_EXACT'] | C['F_RELAXED'], 0x55, 0xAA]))
    table('test', lambda bits, a: ((bits & a[1]) == a[1], bits), [{1: m} for m in masks], 'test(mask) <=> all bits of mask are set', 'NodeFlags::test is not (bits & mask) == mask')
    table('add', lambda bits, a: (None, bits | a[1]), [{1: m} for m in masks], 'add(mask) sets the bits of mask', 'NodeFlags::add is not bits |= mask')
    table('remove', lambda bits, a: (None, bits & ~a[1] & 0xFF), [{1: m} for m in masks], 'remove(mask) clears the bits of mask', 'NodeFlags::remove is not bits &= !mask')
    table('set', lambda bits, a: (None, (bits | a[1]) if a[2] else (bits & ~a[1] & 0xFF)), [{1: m, 2: v} for m in masks for v in (True, False)], 'set(mask, v) = add / remove',
          'NodeFlags::set does not add on true / remove on false')
    table('new_exact', lambda bits, a: (('flags', C['F_EXACT']), bits), [{}], 'new_exact() = NodeFlags(F_EXACT)', 'NodeFlags::new_exact is not exactly F_EXACT')
    table('new_relaxed', lambda bits, a: (('flags', C['F_RELAXED']), bits), [{}], 'new_relaxed() = NodeFlags(F_RELAXED)', 'NodeFlags::new_relaxed is not exactly F_RELAXED')
    table('new', lambda bits, a: (('flags', C['F_RELAXED'] if a[0] else C['F_EXACT']), bits), [{0: True}, {0: False}], 'new(relaxed) = new_relaxed() | new_exact()', 'NodeFlags::new does not build relaxed / exact flags')


def bits_always_set(F, old_term, new_term):
    """(set of bit values that `new_term` has set whatever the previous byte `old_term` was, True iff every other bit is unchanged), or None"""
    try:
        always = 0xFF
        others_same = True
        res = []
        for bits in range(256):
            v = bv_eval(F, new_term, {'bits': bits, 'params': {}, 'self': None, 'bits_term': old_term})
            res.append(v)
            always &= v
        for bits in range(256):
            if (res[bits] & ~always & 0xFF) != (bits & ~always & 0xFF):
                others_same = False
        return always, others_same
    except Unknown:
        return None


def r_flags_in_place(ctx):
    """R06.4 / R07.6 — NodeFlags is `Copy`: `let mut f = node.flags; f.set_deleted(false);` changes a copy. Every flag mutator called in the
    diagram modules on a local that was copied out of a node's `flags` field must be followed, on every path to the function's end, by
    a write of that local back into a `flags` field (or the mutator is called on the field itself, the normal case)."""
    F = ctx.F
    n_calls = 0
    for b in F.bodies.values():
        if '::mdd::clean::' not in b.name and '::mdd::pooled::' not in b.name:
            continue
        for (bb, t) in b.calls():
            c = t.get('callee') or ''
            if 'node_flags::NodeFlags::' not in c or not (t.get('arg_tys') or [''])[0].startswith('&mut'):
                continue
            n_calls += 1
            a0 = t['args'][0]
            if not (isinstance(a0, dict) and 'place' in a0 and not a0['place']['p']):
                continue
            r = a0['place']['l']
            defs = [s for bb2 in b.live_blocks() for s in b.stmts(bb2) if s['k'] == 'assign' and s['place']['l'] == r and not s['place']['p']]
            if len(defs) != 1 or defs[0]['rv'].get('k') != 'ref' or defs[0]['rv']['place']['p']:
                continue            # a borrow of a field place (node.flags) or something we do not follow: the in-place case
            L = defs[0]['rv']['place']['l']
            if 'NodeFlags' not in (b.local_ty(L) or '') or (b.local_ty(L) or '').startswith('&'):
                continue
            # L is a by-value NodeFlags local: was it copied out of a node?
            ldefs = [(bb2, i, s) for bb2 in b.live_blocks() for (i, s) in enumerate(b.stmts(bb2)) if s['k'] == 'assign' and s['place']['l'] == L and not s['place']['p']]
            copied = [x for x in ldefs if x[2]['rv'].get('k') == 'use' and 'place' in x[2]['rv']['op'] and any(isinstance(e, dict) and e.get('name') == 'flags' for e in x[2]['rv']['op']['place']['p'])]
            if not copied:
                continue            # built locally (NodeFlags::new_*): it is stored by whoever uses it
            ctx.analysed_bodies.add(b.name)
            cp = b.term_point(bb)
            backs = [(bb2, i) for bb2 in b.live_blocks() for (i, s) in enumerate(b.stmts(bb2)) if s['k'] == 'assign' and s['place']['p'] and
                     isinstance(s['place']['p'][-1], dict) and s['place']['p'][-1].get('name') == 'flags' and s['rv'].get('k') == 'use' and
                     'place' in s['rv']['op'] and s['rv']['op']['place']['l'] == L and not s['rv']['op']['place']['p']]
            reach = b.reach(b.after(cp), avoid=backs)
            good = bool(backs) and not any(p in reach for p in ret_points(b))
            for rid in ('R06.4', 'R07.6'):
                ctx.check(good, rid, 'flags-mutated-in-place/%s@%s' % (c.split('::')[-1], b.fn_name or 'closure'), b, b.loc(bb),
                          'a flag set copied out of a node is written back after being changed',
                          '%s is called on a COPY of a node\'s flags (NodeFlags is Copy) that is never written back: the node keeps its old flags (e.g. a recycled node stays flagged deleted and disappears from the drawing)' % c.split('::')[-1])
    ctx.check(n_calls >= 20, 'R06.4', 'flags-mutated-in-place/calls-found', None, '-', '%d flag mutator calls in the diagram modules inspected (all act on the field itself)' % n_calls,
              'anchor missing: expected at least 20 NodeFlags mutator calls in the diagram modules, found %d' % n_calls)
