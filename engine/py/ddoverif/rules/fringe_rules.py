"""C11 — fringes: SimpleFringe delegation, MaxUB order, NoDupFringe bookkeeping, dedup key, merge table."""
from .. import mirlib as M
from ..core import MissingAnchor
from .common import *
from .solver_rules import _ret_term, _closure_ret, _cut_edges, _rel
from .dd_rules import _path_ret

SF = 'simple::SimpleFringe'
ND = 'no_duplicate::NoDupFringe'


def _nd_field(t, name):
    return M.is_field(t, name, 'NoDupFringe') and M.is_param(t[1], index=0)


def r_simple_fringe(ctx, rule='R11.a'):
    for (fn, callee, nargs) in (('push', 'push', 2), ('pop', 'pop', 1), ('clear', 'clear', 1), ('len', 'len', 1)):
        b = ctx.body(SF, fn, trait='Fringe')
        cs = [(bb, t) for (bb, t) in b.calls() if 'binary_heap_plus' in (t.get('callee') or '') and t['callee'].split('::')[-1] == callee]
        good = len(cs) == 1 and len(b.calls()) == 1
        if good:
            a = [b.origin.operand(x, b.term_point(cs[0][0])) for x in cs[0][1]['args']]
            good = M.is_field(a[0], 'heap', 'SimpleFringe') and (nargs == 1 or M.is_param(a[1], index=1))
            if fn in ('pop', 'len'):
                good = good and _ret_term(b) == b.origin.call(cs[0][1], b.term_point(cs[0][0]))
        ctx.check(good, rule, 'delegates/' + fn, b, b.loc(0), 'SimpleFringe::%s delegates to BinaryHeap::%s of its heap and nothing else' % (fn, callee), 'SimpleFringe::%s does not simply delegate to BinaryHeap::%s' % (fn, callee))
    nb = ctx.body(SF, 'new')
    rt = _ret_term(nb)
    h = M.simplify_field(rt, 'heap', None)
    good = M.is_call(h, 'from_vec_cmp') and 'binary_heap_plus' in h[1] and M.is_call(h[2][1], 'new') and 'CompareSubProblem' in h[2][1][1] and M.is_param(h[2][1][2][0], index=0)
    ctx.check(good, rule, 'heap-comparator', nb, nb.loc(0), 'the heap is ordered by CompareSubProblem(o) (max-heap on the ranking)', 'SimpleFringe::new builds its heap with %s' % M.show(h)[:200])


def r_maxub(ctx, rule='R11.b'):
    b = ctx.body('subproblem_ranking::MaxUB', 'compare', trait='SubProblemRanking')
    rt = _ret_term(b)
    sp = lambda t, f, i: is_subproblem_field(t, f) and M.is_param(t[1], index=i)
    # then / then_with chains are in normal form ('lex', (c1, c2, c3)) whatever their nesting or the helpers they go through
    good = isinstance(rt, tuple) and rt and rt[0] == 'lex' and len(rt[1]) == 3
    if good:
        (c1, r2, r3) = rt[1]
        good = M.is_call(c1, 'Ord::cmp') and sp(c1[2][0], 'ub', 1) and sp(c1[2][1], 'ub', 2)
        good = good and M.is_call(r2, 'Ord::cmp') and sp(r2[2][0], 'value', 1) and sp(r2[2][1], 'value', 2)
        good = good and M.is_call(r3, 'StateRanking::compare') and sp(r3[2][1], 'state', 1) and sp(r3[2][2], 'state', 2)
    if not good:
        good = _lexico_table(ctx, b, sp)
    ctx.check(good, rule, 'maxub-order', b, b.loc(0), 'MaxUB::compare(l, r) = l.ub ? r.ub, then l.value ? r.value, then ranking(l.state, r.state), operands in that order',
              'MaxUB::compare is not cmp(l.ub, r.ub).then(cmp(l.value, r.value)).then(ranking(l.state, r.state)): %s' % M.show(rt)[:300])
    cb = ctx.body('utils::CompareSubProblem', 'compare', trait='Compare')
    rt = _ret_term(cb)
    good = M.is_call(rt, 'SubProblemRanking::compare') and M.is_param(rt[2][1], index=1) and M.is_param(rt[2][2], index=2)
    ctx.check(good, rule, 'compare-forwards', cb, cb.loc(0), 'CompareSubProblem::compare forwards (l, r) unswapped', 'CompareSubProblem::compare returns %s' % M.show(rt))


def _lexico_table(ctx, b, sp):
    """path-table form of the lexicographic order: on every path the result is the first non-Equal comparison among
    cmp(l.ub, r.ub), cmp(l.value, r.value), ranking(l.state, r.state)"""
    is_ub = lambda t: M.is_call(t, 'Ord::cmp') and sp(t[2][0], 'ub', 1) and sp(t[2][1], 'ub', 2)
    is_val = lambda t: M.is_call(t, 'Ord::cmp') and sp(t[2][0], 'value', 1) and sp(t[2][1], 'value', 2)
    is_rank = lambda t: M.is_call(t, 'StateRanking::compare') and sp(t[2][1], 'state', 1) and sp(t[2][2], 'state', 2)
    paths = bool_fn_paths(b)
    if not paths:
        return False
    def rel_of(atoms, fa, fb):
        rel = frozenset('<=>')
        for a in atoms:
            if a[0] == 'cmp':
                if sp(a[1], fa, 1) and sp(a[2], fb, 2):
                    rel &= a[3]
                elif sp(a[2], fa, 1) and sp(a[1], fb, 2):
                    rel &= frozenset({'<': '>', '>': '<', '=': '='}[c] for c in a[3])
        return rel
    names = {'<': 'Less', '=': 'Equal', '>': 'Greater'}
    for (atoms, rt, blocks, end) in paths:
        ru = rel_of(atoms, 'ub', 'ub')
        rv = rel_of(atoms, 'value', 'value')
        const = rt[2] if isinstance(rt, tuple) and rt and rt[0] == 'aggr' and rt[1].endswith('cmp::Ordering') else None
        if '=' not in ru or ru != frozenset('='):
            # ub decides on this path (or is not known equal): the result must be the ub comparison
            if ru == frozenset('='):
                pass
            elif is_ub(rt) or (const is not None and ru == frozenset({v: k for k, v in names.items()}[const])):
                continue
            else:
                return False
        if rv != frozenset('='):
            if is_val(rt) or (const is not None and len(rv) == 1 and names[list(rv)[0]] == const):
                continue
            return False
        if not is_rank(rt):
            return False
    return True


PLUMBING = ('clone', 'as_ref', 'deref', 'borrow', 'to_owned', 'into', 'from', 'new', 'as_ptr', 'cloned', 'copied')


def _carries(t, pred, depth=0):
    """the term selected by pred is a *component* of t: reached through aggregates and reference / smart-pointer plumbing only"""
    if depth > 12 or not isinstance(t, tuple) or not t:
        return False
    if pred(t):
        return True
    if t[0] == 'aggr':
        return any(_carries(v, pred, depth + 1) for (f, v) in t[3])
    if t[0] == 'tuple':
        return any(_carries(v, pred, depth + 1) for v in t[1])
    if t[0] == 'call' and t[1].split('::')[-1] in PLUMBING and t[2]:
        return _carries(t[2][0], pred, depth + 1)
    if t[0] in ('ref', 'deref', 'cast') and len(t) > 1:
        return any(_carries(x, pred, depth + 1) for x in t[1:] if isinstance(x, tuple))
    return False


def r_nodup(ctx):
    F = ctx.F
    # ---- (c) len / is_empty / clear ----------------------------------------------------------------
    lb = ctx.body(ND, 'len', trait='Fringe')
    rt = _ret_term(lb)
    ctx.check(M.is_call(rt, 'len') and _nd_field(rt[2][0], 'heap'), 'R11.c', 'len', lb, lb.loc(0), 'len() = heap.len()', 'len() returns %s' % M.show(rt))
    ib = ctx.body(ND, 'is_empty')
    rt = _ret_term(ib)
    ctx.check(M.is_call(rt, 'is_empty') and _nd_field(rt[2][0], 'heap'), 'R11.c', 'is_empty', ib, ib.loc(0), 'is_empty() = heap.is_empty()', 'is_empty() returns %s' % M.show(rt))
    name, info = F.adt(ND)
    if info is None:
        raise MissingAnchor('NoDupFringe ADT')
    containers = [f[0] for f in info['variants'][0]['fields'] if f[1].startswith(('std::vec::Vec', 'std::collections::HashMap', 'std::collections::hash_map::HashMap', 'fxhash::FxHashMap'))]
    cb = ctx.body(ND, 'clear', trait='Fringe')
    for f in containers:
        pts = [cb.term_point(bb) for (bb, t) in cb.calls_to('clear') if _nd_field(cb.origin.operand(t['args'][0], cb.term_point(bb)), f)]
        r = cb.reach([(0, 0)], avoid=pts)
        ctx.check(bool(pts) and not any(p in r for p in ret_points(cb)), 'R11.c', 'clear/' + f, cb, cb.loc(0), 'clear() empties `%s` on every path' % f,
                  'NoDupFringe::clear does not empty `%s`: stale entries survive a clear (positions / recycled slots / keys of a previous search)' % f)
    ctx.floor('R11.c', 'containers', cb, len(containers), 5, 'container fields of NoDupFringe')
    # ---- push ------------------------------------------------------------------------------------------
    pb = ctx.body(ND, 'push', trait='Fringe')
    ent = [(bb, t) for (bb, t) in pb.calls_to('entry') if _nd_field(pb.origin.operand(t['args'][0], pb.term_point(bb)), 'states')]
    if not ctx.floor('R11.d', 'entry', pb, len(ent), 1, 'states.entry(..) in push'):
        return
    key = pb.origin.operand(ent[0][1]['args'][1], pb.term_point(ent[0][0]))
    node = lambda t, f: is_subproblem_field(t, f) and M.is_param(t[1], index=1)
    has_state = M.contains(key, lambda x: node(x, 'state'))
    has_depth = M.contains(key, lambda x: node(x, 'depth'))
    ctx.check(has_state and has_depth, 'R11.d', 'dedup-key/push', pb, pb.loc(ent[0][0]),
              'push looks the sub-problem up under a key derived from BOTH its state and its depth (like the cache and the dominance store)',
              'NoDupFringe::push identifies a sub-problem by %s: equal states at different depths are coalesced into one entry' % M.show(key))
    # ... and the key IS the state (compared with Eq on a hit), not a digest of it: the state reaches the key through tuples / structs and
    # reference or Arc plumbing only — a hash / fingerprint of the state identifies two colliding sub-problems with each other
    ctx.check(_carries(key, lambda x: node(x, 'state')), 'R11.d', 'dedup-key-carries-the-state/push', pb, pb.loc(ent[0][0]),
              'the dedup key contains the state itself (an Eq comparison decides a hit)',
              'NoDupFringe::push identifies a sub-problem by %s: the state enters the key through a function (a digest), so two distinct sub-problems whose digests collide are coalesced' % M.show(key)[:200])
    entt = pb.origin.call(ent[0][1], pb.term_point(ent[0][0]))
    def arm(name_):
        return [(tb, 0) for bbk in pb.live_blocks() if pb.term(bbk)['k'] == 'switch' for (tb, lab) in pb.succ(bbk)
                if (lambda lit: lit and lit[0] == 'in' and lit[1] == entt and lit[2] == frozenset([name_]))(M.edge_literal(pb, bbk, lab))]
    vac, occ = arm('Vacant'), arm('Occupied')
    # process_action is a soft anchor (inlined into push and pop on every tree): "the arm is over" = the dispatch to bubble_up /
    # bubble_down, or the end of the function
    pa = call_points(pb, 'bubble_up', 'bubble_down') + ret_points(pb)
    if not (ctx.floor('R11.c', 'vacant-arm', pb, len(vac), 1, 'Vacant arm') and ctx.floor('R11.e', 'occupied-arm', pb, len(occ), 1, 'Occupied arm') and
            ctx.floor('R11.c', 'process_action', pb, len(call_points(pb, 'bubble_up')), 1, 'dispatch to bubble_up in push')):
        return
    # vacant: exactly one heap entry, position recorded, key inserted, slot filled, bubble-up requested
    hp = [(bb, t) for (bb, t) in pb.calls_to('push') if _nd_field(pb.origin.operand(t['args'][0], pb.term_point(bb)), 'heap')]
    good = len(hp) == 1
    if good:
        hpp = pb.term_point(hp[0][0])
        idt = pb.origin.operand(hp[0][1]['args'][1], hpp)
        r = pb.reach(vac, avoid=[hpp])
        good = not any(p in r for p in pa)
        ctx.check(good, 'R11.c', 'vacant/heap-push', pb, pb.loc(hp[0][0]), 'a new key adds exactly one heap entry on every path', 'the Vacant arm can reach process_action without pushing onto the heap')
        # position
        pw = [(pt, d, v) for (pt, d, v, s) in writes(pb) if isinstance(d, tuple) and d[0] == 'index' and _nd_field(d[1], 'pos')]
        okp = False
        for (pt, d, v) in pw:
            if d[2] == M.simplify_field(idt, '0', None) and isinstance(v, tuple) and v[0] == 'sub' and M.is_call(v[1], 'len') and _nd_field(v[1][2][0], 'heap') and M.is_const(v[2], 1) and v[1][3]:
                lenp = pb.term_point(v[1][3][1])
                if lenp in pb.reach(pb.after(hpp)) and hpp not in pb.reach(pb.after(lenp)):
                    r = pb.reach(pb.after(hpp), avoid=[pt])
                    okp = not any(p in r for p in pa)
        ctx.check(okp, 'R11.c', 'vacant/position-recorded', pb, pb.loc(hp[0][0]), 'after the heap push, pos[id] := heap.len() - 1 on every path (also for a recycled slot)',
                  'the position of a newly pushed id is not recorded as heap.len() - 1 after the heap push on every path: a recycled slot keeps a stale position and bubble_up starts from the wrong place')
        ins = [(bb, t) for (bb, t) in pb.calls_to('insert') if M.contains(pb.origin.operand(t['args'][0], pb.term_point(bb)), lambda x: x == entt)]
        oki = len(ins) == 1 and pb.origin.operand(ins[0][1]['args'][1], pb.term_point(ins[0][0])) == idt
        if oki:
            r = pb.reach(vac, avoid=[pb.term_point(ins[0][0])])
            oki = not any(p in r for p in pa)
        ctx.check(oki, 'R11.c', 'vacant/key-inserted', pb, pb.loc(ent[0][0]), 'the key is bound to the new id on every path', 'the Vacant arm does not insert key -> id on every path')
        # the id is either a fresh slot (nodes.len() before nodes.push(node), with a pos slot pushed) or a recycled one overwritten with node
        defs = [x for leaf in M.leaves(idt) for x in var_def_terms(pb, leaf)]
        fresh = [d for d in defs if isinstance(d, tuple) and d[0] == 'aggr' and M.is_call(M.simplify_field(d, '0', None), 'len') and _nd_field(M.simplify_field(d, '0', None)[2][0], 'nodes')]
        rec = [d for d in defs if M.contains(d, lambda x: M.is_call(x, 'pop') and _nd_field(x[2][0], 'recycle_bin'))]
        np_ = [(bb, t) for (bb, t) in pb.calls_to('push') if _nd_field(pb.origin.operand(t['args'][0], pb.term_point(bb)), 'nodes')]
        pp_ = [(bb, t) for (bb, t) in pb.calls_to('push') if _nd_field(pb.origin.operand(t['args'][0], pb.term_point(bb)), 'pos')]
        nw = [(pt, d, v) for (pt, d, v, s) in writes(pb) if isinstance(d, tuple) and d[0] == 'index' and _nd_field(d[1], 'nodes') and rec and M.contains(d[2], lambda x: M.is_call(x, 'pop'))]
        oks = len(defs) == 2 and len(fresh) == 1 and len(rec) == 1 and len(np_) == 1 and len(pp_) == 1 and len(nw) == 1 and M.is_param(pb.origin.operand(np_[0][1]['args'][1], pb.term_point(np_[0][0])), index=1) and M.is_param(nw[0][2], index=1)
        ctx.check(oks, 'R11.c', 'vacant/slot', pb, pb.loc(vac[0][0]), 'the node is stored in a fresh slot (nodes.push + pos.push) or in a recycled slot (overwritten)', 'the Vacant arm does not store the node in a fresh or recycled slot consistently')
    # action of the vacant arm: BubbleUp(id)
    act = _action_defs(pb)
    # ---- (e) occupied arm: merge table ---------------------------------------------------------------------
    idx = None
    for (bb, t) in pb.calls_to('get'):
        tt = pb.origin.call(t, pb.term_point(bb))
        if M.contains(tt, lambda x: x == entt):
            idx = M.simplify_field(tt, '0', None)
    if idx is None:
        raise MissingAnchor('id of the occupied entry')
    old = lambda t, f: is_subproblem_field(t, f) and isinstance(t[1], tuple) and t[1][0] == 'index' and _nd_field(t[1][1], 'nodes') and t[1][2] == idx
    oldnode = lambda t: isinstance(t, tuple) and t[0] == 'index' and _nd_field(t[1], 'nodes') and t[2] == idx
    is_maxub = lambda t: isinstance(t, tuple) and t[0] == 'max' and len(t[1]) == 2 and any(node(x, 'ub') for x in t[1]) and any(old(x, 'ub') for x in t[1])
    merged = lambda t: isinstance(t, tuple) and t[0] == 'upd' and M.is_param(t[1], index=1) and t[2] == ('ub',) and is_maxub(t[3])
    cmpc = [(bb, t) for (bb, t) in pb.calls_to('Compare::compare', 'compare')]
    good = len(cmpc) == 1
    wn = [(pt, d, v) for (pt, d, v, s) in writes(pb) if oldnode(d) or (M.is_field(d, 'ub', 'SubProblem') and oldnode(d[1]))]
    if good:
        (cbb, ct) = cmpc[0]
        cp = pb.term_point(cbb)
        a = [pb.origin.operand(x, cp) for x in ct['args']]
        good = merged(a[1]) and oldnode(a[2]) and _nd_field(a[0], 'cmp')
        # the comparison looks at the OLD entry: no write to nodes[id] can precede it
        for (pt, d, v) in wn:
            if cp in pb.reach(pb.after(pt)):
                good = False
        ctt = pb.origin.call(ct, cp)
    ctx.check(good, 'R11.e', 'occupied/priority-test', pb, pb.loc(cmpc[0][0]) if cmpc else pb.loc(occ[0][0]),
              'the bubble-up decision compares the merged candidate (new value, ub = max(new.ub, old.ub)) with the old entry before it is modified',
              'the bubble-up decision of the Occupied arm does not compare (node with ub := max(new.ub, old.ub)) against the unmodified old entry: the survivor can outrank its heap parent without being moved up')
    if good:
        bu = [(bb, i) for (bb, i, s) in aggr_assigns(pb, 'Action', 'BubbleUp') if (bb, i) in pb.reach(occ, stop=pa)]
        gr = lambda atoms, lit: any(a_[0] == 'cmp' and ((a_[1] == ctt and _ord_name(a_[2]) == 'Greater') or (a_[2] == ctt and _ord_name(a_[1]) == 'Greater')) and a_[3] == frozenset('=') for a_ in atoms) or \
            any(a_[0] == 'in' and a_[1] == ctt and a_[2] == frozenset(['Greater']) for a_ in atoms)
        ok1, cut, bad_ = M.guarded(pb, bu, gr, starts=occ)
        ok2 = bool(bu)
        for (bbk, lab) in cut:
            tb = [t_ for (t_, l) in pb.succ(bbk) if l == lab][0]
            if not any(q in pb.reach([(tb, 0)]) for q in bu):
                continue        # a later test of the same fact (the dispatch on the action that was built): the decision is upstream
            r = pb.reach([(tb, 0)], avoid=bu)
            ok2 = ok2 and not any(p in r for p in pa)
        for (bb, i) in bu:
            v = pb.origin.rvalue(pb.stmts(bb)[i]['rv'], (bb, i))
            ok2 = ok2 and M.simplify_field(M.simplify_field(v, '0', None), '0', None) == idx
        ctx.check(ok1 and ok2, 'R11.e', 'occupied/bubble-up-iff-greater', pb, pb.loc(cmpc[0][0]), 'BubbleUp(id) is requested exactly when the merged candidate compares Greater than the old entry',
                  'the Occupied arm does not request BubbleUp(id) exactly when compare(merged, old) == Greater')
    # survivor table over o(new.value, old.value) x o(new.ub, old.ub)
    rows = []
    for st in occ:
        for (edges, blocks, end) in M.enumerate_paths(pb, st, stops=pa):
            atoms = M.path_atoms(pb, edges)
            if not M.consistent(atoms):
                continue
            rv = frozenset('<=>')
            ru = frozenset('<=>')
            for a_ in atoms:
                if a_[0] == 'cmp':
                    if node(a_[1], 'value') and old(a_[2], 'value'):
                        rv &= a_[3]
                    elif node(a_[2], 'value') and old(a_[1], 'value'):
                        rv &= frozenset({'<': '>', '>': '<', '=': '='}[x] for x in a_[3])
                    elif node(a_[1], 'ub') and old(a_[2], 'ub'):
                        ru &= a_[3]
                    elif node(a_[2], 'ub') and old(a_[1], 'ub'):
                        ru &= frozenset({'<': '>', '>': '<', '=': '='}[x] for x in a_[3])
            holder = 'old'
            ub = 'old'
            unknown = False
            for (k, pt, s) in M.path_effects(pb, blocks, st, end):
                if k != 'write':
                    continue
                d = pb.origin.place(s['place'], pt)
                v = pb.origin.rvalue(s['rv'], pt)
                if oldnode(d):
                    if merged(v):
                        holder, ub = 'new', 'max'
                    elif M.is_param(v, index=1):
                        holder, ub = 'new', 'new'
                    else:
                        unknown = True
                elif M.is_field(d, 'ub', 'SubProblem') and oldnode(d[1]):
                    if is_maxub(v):
                        ub = 'max'
                    elif node(v, 'ub'):
                        ub = 'new'
                    else:
                        unknown = True
            rows.append((rv, ru, holder, ub, unknown))
    bad = []
    for x in '<=>':
        for y in '<=>':
            hits = [r for r in rows if x in r[0] and y in r[1]]
            if not hits:
                bad.append((x, y, 'no path'))
                continue
            for (rv, ru, holder, ub, unknown) in hits:
                if unknown:
                    bad.append((x, y, 'unrecognised write'))
                    continue
                want_holder = {'>': ('new',), '<': ('old',), '=': ('new', 'old')}[x]
                # final ub must equal max(new.ub, old.ub)
                ub_ok = ub == 'max' or (ub == 'new' and y in '>=') or (ub == 'old' and y in '<=')
                if holder not in want_holder or not ub_ok:
                    bad.append((x, y, 'holder=%s ub=%s' % (holder, ub)))
    ctx.stats['paths'] += len(rows)
    ctx.check(not bad and len(rows) > 0, 'R11.e', 'occupied/merge-table', pb, pb.loc(occ[0][0]),
              'merge table over o(new.value, old.value) x o(new.ub, old.ub) (9 cases, %d paths): the survivor is the holder of the larger value with its own path, and carries max of the two bounds' % len(rows),
              'the Occupied arm deviates from the merge table (survivor = larger value with its own path, ub = max) in case(s) (value?, ub?, what): %s' % bad[:4])
    # both arms end in process_action(action) with an action naming the right id
    # ---- pop ----------------------------------------------------------------------------------------------
    qb = ctx.body(ND, 'pop', trait='Fringe')
    sr = [(bb, t) for (bb, t) in qb.calls_to('swap_remove', 'remove', 'pop') if _nd_field(qb.origin.operand(t['args'][0], qb.term_point(bb)), 'heap')]
    if not ctx.floor('R11.c', 'pop/root-removal', qb, len(sr), 1, 'removal of the heap root in pop'):
        return
    (sbb, st_) = sr[0]
    srp = qb.term_point(sbb)
    idt = qb.origin.call(st_, srp)
    a = [qb.origin.operand(x, srp) for x in st_['args']]
    ctx.check(st_['callee'].endswith('swap_remove') and M.is_const(a[1], 0), 'R11.c', 'pop/takes-root', qb, qb.loc(sbb), 'pop removes heap[0] (swap_remove(0))', 'pop removes %s' % M.show(idt))
    rb = [qb.term_point(bb) for (bb, t) in qb.calls_to('push') if _nd_field(qb.origin.operand(t['args'][0], qb.term_point(bb)), 'recycle_bin') and qb.origin.operand(t['args'][1], qb.term_point(bb)) == idt]
    r = qb.reach(qb.after(srp), avoid=rb)
    ctx.check(bool(rb) and not any(p in r for p in ret_points(qb)), 'R11.c', 'pop/recycles-slot', qb, qb.loc(sbb), 'every path that removed the root recycles its slot',
              'a path of pop removes the heap root but does not recycle its slot (early exit)')
    rm = [(bb, t) for (bb, t) in qb.calls_to('remove') if _nd_field(qb.origin.operand(t['args'][0], qb.term_point(bb)), 'states')]
    good = bool(rm)
    if good:
        k = qb.origin.operand(rm[0][1]['args'][1], qb.term_point(rm[0][0]))
        popped = lambda t, f: is_subproblem_field(t, f) and isinstance(t[1], tuple) and t[1][0] == 'index' and _nd_field(t[1][1], 'nodes') and t[1][2] == M.simplify_field(idt, '0', None)
        ks, kd = M.contains(k, lambda x: popped(x, 'state')), M.contains(k, lambda x: popped(x, 'depth'))
        ctx.check(ks and kd, 'R11.d', 'dedup-key/pop', qb, qb.loc(rm[0][0]), 'pop forgets the key (state, depth) of the popped node: the same lookup path as push',
                  'NoDupFringe::pop removes the key %s: not derived from both state and depth of the popped node' % M.show(k)[:200])
        # push and pop use the SAME function of the sub-problem as key: with the sub-problem abstracted to a placeholder the two key
        # terms are identical (a key inserted under (state, depth + 1) and removed under (state, depth) is never removed: the next push
        # of that sub-problem is merged into a dead slot and lost)
        def _abstract(t, is_sub):
            if isinstance(t, tuple):
                if is_sub(t):
                    return ('SUBPROBLEM',)
                return tuple(_abstract(x, is_sub) for x in t)
            return t
        kpush = _abstract(key, lambda x: M.is_param(x, index=1) and x[1] == pb.name)
        popped_node = lambda x: isinstance(x, tuple) and x and x[0] == 'index' and _nd_field(x[1], 'nodes') and x[2] == M.simplify_field(idt, '0', None)
        kpop = _abstract(k, popped_node)
        strip_site = lambda t: tuple(strip_site(x) for x in t[:3]) + (None,) if isinstance(t, tuple) and t and t[0] == 'call' and len(t) == 4 else (tuple(strip_site(x) for x in t) if isinstance(t, tuple) else t)
        ctx.check(strip_site(kpush) == strip_site(kpop), 'R11.d', 'dedup-key/same-at-push-and-pop', qb, qb.loc(rm[0][0]),
                  'pop removes the key under which push inserted the sub-problem (the same expression of its state and depth)',
                  'push inserts under %s but pop removes %s: the entry of a popped sub-problem can stay behind' % (M.show(key)[:90], M.show(k)[:90]))
        ctx.check(_carries(k, lambda x: popped(x, 'state')), 'R11.d', 'dedup-key-carries-the-state/pop', qb, qb.loc(rm[0][0]), 'the key forgotten by pop contains the state itself',
                  'NoDupFringe::pop removes the key %s: a digest of the state, not the state' % M.show(k)[:200])
        r = qb.reach(qb.after(srp), avoid=[qb.term_point(rm[0][0])])
        good = not any(p in r for p in ret_points(qb))
    ctx.check(good, 'R11.c', 'pop/forgets-key', qb, qb.loc(sbb), 'every path that removed the root forgets its key', 'a path of pop removes the heap root but leaves its key in `states`: a later push of that sub-problem is merged into a dead slot and lost')
    # result = Some(clone of nodes[id]); None only on empty
    for (edges, blocks, end) in M.enumerate_paths(qb, (0, 0)):
        atoms = M.path_atoms(qb, edges)
        if not M.consistent(atoms):
            continue
        rt = _path_ret(qb, blocks, end)
        removed = any(k_ == 'call' and pt == srp for (k_, pt, s) in M.path_effects(qb, blocks, (0, 0), end))
        if removed:
            okr = isinstance(rt, tuple) and rt[0] == 'aggr' and rt[2] == 'Some' and isinstance(rt[3][0][1], tuple) and rt[3][0][1][0] == 'index' and rt[3][0][1][2] == M.simplify_field(idt, '0', None)
        else:
            okr = isinstance(rt, tuple) and rt[0] == 'aggr' and rt[2] == 'None' and any(a_[0] == 'T' and M.is_call(a_[1], 'is_empty') for a_ in atoms)
        ctx.check(okr, 'R11.c', 'pop/result/%s' % ('some' if removed else 'none'), qb, qb.loc(0), 'pop returns Some(the removed node) / None only when empty', 'pop returns %s on a path that %s the root' % (M.show(rt)[:120], 'removed' if removed else 'did not remove'))
    # the new root's position is reset and it is sunk
    pw = [(pt, d, v) for (pt, d, v, s) in writes(qb) if isinstance(d, tuple) and d[0] == 'index' and _nd_field(d[1], 'pos')]
    # the element now at the root: heap[0], heap.first(), heap.get(0)
    first_call = lambda x: M.is_call(x, 'first', 'get') and _nd_field(x[2][0], 'heap') and (len(x[2]) == 1 or M.is_const(x[2][1], 0))
    new_root = lambda t: M.contains(t, lambda x: (isinstance(x, tuple) and x and x[0] == 'index' and _nd_field(x[1], 'heap') and M.is_const(x[2], 0)) or first_call(x))
    good = any(M.is_const(v, 0) and new_root(d[2]) for (pt, d, v) in pw)
    bd = aggr_assigns(qb, 'Action', 'BubbleDown')
    nonempty = lambda atoms, lit: any(empty_lit(a_, lambda x: _nd_field(x, 'heap'), empty=False) or opt_is(a_, first_call, 'Some') for a_ in atoms)
    direct = [(bb, t) for (bb, t) in qb.calls_to('bubble_down')]
    if good and direct:
        # spelling 2: bubble_down(new root) called directly, on every non-empty path after the removal
        (dbb, dt) = direct[0]
        v = qb.origin.operand(dt['args'][1], qb.term_point(dbb))
        ok, cut, bad_ = M.guarded(qb, [qb.term_point(dbb)], nonempty)
        r = qb.reach(qb.after(srp), avoid=[qb.term_point(dbb)], cut_edges=_cut_edges(qb, lambda atoms, lit: any(
            empty_lit(a_, lambda x: _nd_field(x, 'heap'), empty=True) or opt_is(a_, first_call, 'None') for a_ in atoms)))
        good = new_root(v) and ok and len(direct) == 1 and not any(p in r for p in ret_points(qb))
    else:
        good = False
    ctx.check(good, 'R11.c', 'pop/new-root-sunk', qb, qb.loc(sbb), 'the element moved to the root gets pos = 0 and is bubbled down (when the heap is not empty)', 'after removing the root the moved element is not (pos := 0, BubbleDown) on the non-empty path')
    # ---- swaps in bubble_up / bubble_down keep pos and heap inverse of each other ---------------------------------
    for fn in ('bubble_up', 'bubble_down'):
        b = ctx.body(ND, fn)
        hw = [(pt, d, v) for (pt, d, v, s) in writes(b) if isinstance(d, tuple) and d[0] == 'index' and _nd_field(d[1], 'heap')]
        pw = [(pt, d, v) for (pt, d, v, s) in writes(b) if isinstance(d, tuple) and d[0] == 'index' and _nd_field(d[1], 'pos')]
        good = len(hw) == 2 and len(pw) == 2
        if good:
            for (pt, d, v) in hw:   # heap[i] := n  must be matched by pos[n.0] := i in the same iteration
                match = [1 for (pt2, d2, v2) in pw if d2[2] == M.simplify_field(v, '0', None) and v2 == d[2]]
                good = good and len(match) == 1
            # none of the four writes can be skipped once the first one is executed
            allw = [pt for (pt, d, v) in hw + pw]
            firstw = [w for w in allw if not any(w in b.reach(b.after(o), stop=[b.term_point(x) for (x, _) in b.calls_to('compare_at_pos')]) for o in allw if o != w)]
            exits = ret_points(b) + [b.term_point(x) for (x, _) in b.calls_to('compare_at_pos')]
            for w in allw:
                if firstw and w != firstw[0]:
                    r = b.reach(b.after(firstw[0]), avoid=[w])
                    if any(e in r for e in exits):
                        good = False
            good = good and len(firstw) == 1
            # the two heap slots written are the two positions compared, and the two ids are the ones that were there
            slots = {d[2] for (pt, d, v) in hw}
            good = good and len(slots) == 2
        ctx.check(good, 'R11.c', fn + '/swap-updates-both-tables', b, b.loc(0), 'each swap writes heap[i] := n together with pos[n] := i for both elements (pos stays the inverse of heap)',
                  '%s swaps heap entries without updating pos for both ids (or vice versa)' % fn)
        cp_ = b.calls_to('compare_at_pos')
        want = 'Greater' if fn == 'bubble_up' else 'Less'
        good = len(cp_) >= 1
        if good:
            hwp = [pt for (pt, d, v) in hw]
            ct_ = b.origin.call(cp_[0][1], b.term_point(cp_[0][0]))
            def acc(atoms, lit):
                for a_ in atoms:
                    if a_[0] == 'cmp' and a_[3] == frozenset('=') and ((M.is_call(a_[1], 'compare_at_pos') and _ord_name(a_[2]) == want) or (M.is_call(a_[2], 'compare_at_pos') and _ord_name(a_[1]) == want)):
                        return True
                    if a_[0] == 'in' and M.is_call(a_[1], 'compare_at_pos') and a_[2] == frozenset([want]):
                        return True
                return False
            ok, cut, bad_ = M.guarded(b, hwp, acc)
            good = ok
        ctx.check(good, 'R11.g', fn + '/swap-guard', b, b.loc(0), '%s swaps only while compare(me, %s) == %s' % (fn, 'parent' if fn == 'bubble_up' else 'max child', want),
                  '%s can swap without compare_at_pos(..) == %s being asserted (heap order is broken)' % (fn, want))
    cb2 = ctx.body(ND, 'compare_at_pos')
    rt = _ret_term(cb2)
    good = M.is_call(rt, 'compare') and _nd_field(rt[2][0], 'cmp')
    if good:
        def at(t, i):
            return isinstance(t, tuple) and t[0] == 'index' and _nd_field(t[1], 'nodes') and M.is_field(t[2], '0') and isinstance(t[2][1], tuple) and t[2][1][0] == 'index' and _nd_field(t[2][1][1], 'heap') and M.is_param(t[2][1][2], index=i)
        good = at(rt[2][1], 1) and at(rt[2][2], 2)
    ctx.check(good, 'R11.g', 'compare_at_pos', cb2, cb2.loc(0), 'compare_at_pos(x, y) = cmp(nodes[heap[x]], nodes[heap[y]])', 'compare_at_pos returns %s' % M.show(rt)[:200])
    # dispatch (process_action, inlined): bubble_up only ever receives the payload of an Action::BubbleUp (or an id handed over directly),
    # bubble_down that of an Action::BubbleDown
    pr = pb
    good = True
    _, ainfo = ctx.F.adt('no_duplicate::Action')
    avariants = [v['name'] for v in (ainfo or {}).get('variants', [])]
    ndisp = 0
    for (var, fn) in (('BubbleUp', 'bubble_up'), ('BubbleDown', 'bubble_down')):
        for body_ in (pb, qb):
            for (bb_, t_) in body_.calls_to(fn):
                ndisp += 1
                arg_ = body_.origin.operand(t_['args'][1], body_.term_point(bb_))
                # the pattern that binds the payload decides: every Action downcast in the argument is a downcast to `var` (an aggregate
                # of another variant under it is the value of an infeasible path of the path-insensitive origin term)
                vs_ = set(x[2] for x in M.walk(arg_) if isinstance(x, tuple) and x and x[0] == 'variant' and x[2] in avariants)
                good = good and vs_ <= {var}
    good = good and ndisp >= 2
    ctx.check(good, 'R11.c', 'process_action', pr, pr.loc(0), 'the requested action is dispatched to the matching routine: BubbleUp -> bubble_up, BubbleDown -> bubble_down', 'an Action is dispatched to the wrong routine (BubbleUp must reach bubble_up, BubbleDown bubble_down)')


def _ord_name(t):
    if isinstance(t, tuple) and t[0] == 'aggr' and t[1].endswith('cmp::Ordering'):
        return t[2]
    return None


def _action_defs(pb):
    return None


# ================================================================================================
# R11.f — index arithmetic of the hand-written heap, by a linear-form / parity abstract evaluation
#   abstract value (a, b) = a*q + b for a symbolic q >= 0; positions are instantiated as 0, 2q+1, 2q+2
# ================================================================================================
def _lin(t, env, F, depth=0):
    """linear form of an integer term, bool for a comparison, None if outside the fragment"""
    if depth > 8 or not isinstance(t, tuple):
        return None
    k = t[0]
    if k == 'param':
        return env.get(t[2])
    if k == 'const':
        if isinstance(t[1], bool):
            return t[1]
        if isinstance(t[1], int):
            return (0, t[1])
        return None
    if k == 'add':
        tot = (0, 0)
        for x in t[1]:
            v = _lin(x, env, F, depth + 1)
            if not isinstance(v, tuple):
                return None
            tot = (tot[0] + v[0], tot[1] + v[1])
        return tot
    if k == 'sub':
        a, b = _lin(t[1], env, F, depth + 1), _lin(t[2], env, F, depth + 1)
        if not (isinstance(a, tuple) and isinstance(b, tuple)):
            return None
        r = (a[0] - b[0], a[1] - b[1])
        return r if r[0] >= 0 and (r[1] >= 0) else None     # usize: must stay non-negative for all q >= 0
    if k == 'bin':
        a, b = _lin(t[2], env, F, depth + 1), _lin(t[3], env, F, depth + 1)
        if not (isinstance(a, tuple) and isinstance(b, tuple)):
            return None
        op = t[1]
        if op == 'Mul':
            if a[0] == 0:
                return (b[0] * a[1], b[1] * a[1])
            if b[0] == 0:
                return (a[0] * b[1], a[1] * b[1])
            return None
        if op == 'Shl' and b[0] == 0:
            return (a[0] << b[1], a[1] << b[1])
        if op in ('Div', 'Shr') and b[0] == 0:
            d = b[1] if op == 'Div' else (1 << b[1])
            if d > 0 and a[0] % d == 0:
                return (a[0] // d, a[1] // d)            # exact because a[0]*q is a multiple of d
            return None
        if op == 'Rem' and b[0] == 0 and b[1] > 0 and a[0] % b[1] == 0:
            return (0, a[1] % b[1])
        if op == 'BitAnd' and b == (0, 1) and a[0] % 2 == 0:
            return (0, a[1] % 2)
        return None
    if k == 'cmp':
        a, b = _lin(t[2], env, F, depth + 1), _lin(t[3], env, F, depth + 1)
        if not (isinstance(a, tuple) and isinstance(b, tuple)):
            return None
        # decide for all q >= 0
        da, db = a[0] - b[0], a[1] - b[1]
        def always(pred):   # pred on the difference d(q) = da*q + db, q >= 0
            return pred
        op = t[1]
        lo = db                                  # value at q = 0; monotone in q
        if da == 0:
            vals = {'Eq': db == 0, 'Ne': db != 0, 'Lt': db < 0, 'Le': db <= 0, 'Gt': db > 0, 'Ge': db >= 0}
            return vals[op]
        if da > 0:   # d(q) >= db, unbounded above
            if op in ('Gt',) and db > 0: return True
            if op in ('Ge',) and db >= 0: return True
            if op == 'Ne' and db > 0: return True
            if op == 'Eq' and db > 0: return False
            if op == 'Lt' and db >= 0: return False
            if op == 'Le' and db > 0: return False
            return None
        return None
    if k == 'call' and isinstance(t[1], str) and t[1] in F.bodies:
        cb = F.bodies[t[1]]
        if cb.nb <= 12 and not cb.back_edges():
            env2 = {i: _lin(a, env, F, depth + 1) for i, a in enumerate(t[2])}
            outs = _eval_fn(cb, env2, F, depth + 1)
            if outs is not None and len(set(outs)) == 1:
                return outs[0]
        return None
    if k == 'not':
        v = _lin(t[1], env, F, depth + 1)
        return (not v) if isinstance(v, bool) else None
    return None


def _eval_fn(body, env, F, depth=0):
    """values returned on the paths feasible under env (params as linear forms); None if something is undecidable"""
    outs = []
    for (edges, blocks, end) in M.enumerate_paths(body, (0, 0)):
        feasible = True
        for (b, lab) in edges:
            lit = M.edge_literal(body, b, lab)
            if lit is None:
                continue
            if lit[0] in ('T', 'F'):
                v = _lin(lit[1], env, F, depth + 1)
                if not isinstance(v, bool):
                    return None
                if v != (lit[0] == 'T'):
                    feasible = False
                    break
        if not feasible:
            continue
        rt = _path_ret(body, blocks, end)
        if rt is None:
            rets = body.return_blocks()
            rt = body.origin.place({'l': 0, 'p': []}, body.term_point(rets[0])) if rets else None
        v = _lin(rt, env, F, depth + 1)
        if v is None:
            return None
        outs.append(v)
    return outs


def r_heap_index(ctx, rule='R11.f'):
    F = ctx.F
    par = ctx.body(ND, 'parent')
    lc = ctx.body(ND, 'left_child')
    rc = ctx.body(ND, 'right_child')
    # children of q
    l = _eval_fn(lc, {1: (1, 0)}, F)
    r = _eval_fn(rc, {1: (1, 0)}, F)
    ctx.check(l == [(2, 1)] and r == [(2, 2)], rule, 'children', lc, lc.loc(0), 'left_child(q) = 2q+1 and right_child(q) = 2q+2 for all q', 'left_child / right_child evaluate to %s / %s (expected 2q+1 / 2q+2)' % (l, r))
    p0 = _eval_fn(par, {1: (0, 0)}, F)
    pl = _eval_fn(par, {1: (2, 1)}, F)
    pr = _eval_fn(par, {1: (2, 2)}, F)
    ctx.check(p0 == [(0, 0)] and pl == [(1, 0)] and pr == [(1, 0)], rule, 'parent-inverts-children', par, par.loc(0),
              'parent(0) = 0, parent(2q+1) = q and parent(2q+2) = q for all q >= 0 (linear-form / parity evaluation of the MIR, no panic: the subtraction stays non-negative)',
              'parent() is not the inverse of left_child/right_child: parent(0)=%s parent(2q+1)=%s parent(2q+2)=%s (expected 0, q, q)' % (p0, pl, pr))
    # max_child_of decision table
    mc = ctx.body(ND, 'max_child_of')
    left = lambda t: M.is_call(t, 'left_child') and M.is_param(t[2][1], index=1)
    right = lambda t: M.is_call(t, 'right_child') and M.is_param(t[2][1], index=1)
    size = lambda t: M.is_call(t, 'len') and (M.is_param(t[2][0], index=0) or _nd_field(t[2][0], 'heap'))
    rows = []
    kinds = set()
    for (edges, blocks, end) in M.enumerate_paths(mc, (0, 0)):
        atoms = M.path_atoms(mc, edges)
        if not M.consistent(atoms):
            continue
        rl = frozenset('<=>')
        rr = frozenset('<=>')
        cmpres = None
        for a in atoms:
            if a[0] == 'cmp':
                if left(a[1]) and size(a[2]): rl &= a[3]
                elif left(a[2]) and size(a[1]): rl &= frozenset({'<': '>', '>': '<', '=': '='}[x] for x in a[3])
                elif right(a[1]) and size(a[2]): rr &= a[3]
                elif right(a[2]) and size(a[1]): rr &= frozenset({'<': '>', '>': '<', '=': '='}[x] for x in a[3])
            pass
        # right_child(q) = left_child(q) + 1 (rule `children` above): right < len implies left < len, left >= len implies right > len
        if rr == frozenset('<'):
            rl &= frozenset('<')
        if rl and rl <= frozenset('>='):
            rr &= frozenset('>')
        if not rl or not rr:
            continue            # contradictory path
        is_cmp_lr = lambda t: M.is_call(t, 'compare_at_pos') and left(t[2][1]) and right(t[2][2])
        cmpres = ord_names(atoms, is_cmp_lr)
        if ord_names(atoms, lambda t: M.is_call(t, 'compare_at_pos') and not is_cmp_lr(t)) is not None:
            cmpres = {'?'}
        rt = _path_ret(mc, blocks, end)
        # 'no child' is the sentinel 0 (the root is nobody's child) or None when the helper returns an Option
        some = lambda t, p_: isinstance(t, tuple) and t[:3] == ('aggr', M.OPTION, 'Some') and p_(t[3][0][1])
        out = '0' if (M.is_const(rt, 0) or rt == M.MK_NONE) else 'left' if (left(rt) or some(rt, left)) else 'right' if (right(rt) or some(rt, right)) else M.show(rt)[:40]
        kinds.add('option' if (rt == M.MK_NONE or some(rt, lambda x: True)) else 'plain')
        rows.append((rl, rr, cmpres, out))
    bad = []
    for (rl, rr, cmpres, out) in rows:
        if out == '0':
            if not rl <= frozenset('>='):
                bad.append(('returns 0 (no child) without left >= len', sorted(rl)))
        elif out == 'left':
            ok = rl == frozenset('<') and ((rr <= frozenset('>=')) or (rr == frozenset('<') and cmpres == {'Greater'}))
            if not ok:
                bad.append(('returns left', sorted(rl), sorted(rr), cmpres))
        elif out == 'right':
            ok = rl == frozenset('<') and rr == frozenset('<') and cmpres is not None and 'Greater' not in cmpres and '?' not in cmpres
            if not ok:
                bad.append(('returns right', sorted(rl), sorted(rr), cmpres))
        else:
            bad.append(('returns', out))
    # a node whose only child is the left one must return it
    only_left = [r_ for r_ in rows if '<' in r_[0] and (r_[1] & frozenset('>=')) and r_[3] != 'left' and r_[0] == frozenset('<')]
    if only_left:
        bad.append(('left < len <= right does not return left', only_left[0][3]))
    if len(kinds) > 1:
        bad.append(('mixes Option and plain results',))
    ctx.stats['paths'] += len(rows)
    ctx.check(not bad and len(rows) >= 4, rule, 'max_child_of-table', mc, mc.loc(0),
              'max_child_of: 0 (leaf) only when left >= len; left when right >= len; otherwise the greater of the two children (%d paths)' % len(rows),
              'max_child_of deviates from its table: %s' % bad[:3])
    bd = ctx.body(ND, 'bubble_down')
    # bubble_down: kid = max_child_of(me); loop while kid > 0
    ks = bd.calls_to('max_child_of')
    ctx.check(len(ks) >= 1, rule, 'bubble_down-uses-max_child', bd, bd.loc(0), 'bubble_down sinks towards max_child_of(me)', 'bubble_down does not use max_child_of')
    bu = ctx.body(ND, 'bubble_up')
    ps = bu.calls_to('parent')
    ctx.check(len(ps) >= 1, rule, 'bubble_up-uses-parent', bu, bu.loc(0), 'bubble_up climbs towards parent(me)', 'bubble_up does not use parent()')
