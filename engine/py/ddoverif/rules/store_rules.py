"""C10 / C18 — dominance comparison tables, dominance store, threshold cache."""
from .. import mirlib as M
from ..core import MissingAnchor
from .common import *
from .solver_rules import _ret_term, _closure_ret, _cut_edges
from .dd_rules import _path_ret

ORD = ('Less', 'Equal', 'Greater')


def _in_set(atoms, pred):
    """set of variant names the term selected by `pred` may have on this path (None if never tested). A test on the result
    of Ord::cmp(a, b) appears as a comparison atom on (a, b) (mirlib.lit_atoms): it is mapped back to Ordering names."""
    cur = None
    names = {'<': 'Less', '=': 'Equal', '>': 'Greater'}
    for a in atoms:
        if a[0] == 'in' and pred(a[1]):
            cur = set(a[2]) if cur is None else (cur & set(a[2]))
        elif a[0] == 'cmp':
            done = False
            for (x, y, rel) in ((a[1], a[2], a[3]), (a[2], a[1], frozenset({'<': '>', '>': '<', '=': '='}[c] for c in a[3]))):
                if pred(('call', 'std::cmp::Ord::cmp', (x, y), None)):
                    st = set(names[c] for c in rel)
                    cur = st if cur is None else (cur & st)
                    done = True
                    break
            if not done and a[3] in (frozenset('='), frozenset('<>')):
                # `x == Ordering::Less` / `x != Ordering::Less` (a unit variant of a std enum compared as a value)
                for (x, y) in ((a[1], a[2]), (a[2], a[1])):
                    if pred(x) and isinstance(y, tuple) and y and y[0] == 'aggr' and not y[3] and y[2] is not None:
                        st = {y[2]} if a[3] == frozenset('=') else set(M.complement(frozenset([y[2]])) or ())
                        if st:
                            cur = st if cur is None else (cur & st)
                        break
    return cur


def _ord_const(t):
    """Ordering constant aggregate -> its name"""
    if isinstance(t, tuple) and t[0] == 'aggr' and t[1].endswith('cmp::Ordering'):
        return t[2]
    if isinstance(t, tuple) and t[0] == 'const_variant':
        return t[1]
    return None


def _dominance_default(ctx, name):
    bs = [b for b in ctx.F.bodies.values() if b.fn_name == name and (b.trait_default or '').endswith('dominance::Dominance') and b.kind != 'closure']
    if len(bs) != 1:
        raise MissingAnchor('default method Dominance::' + name)
    ctx.analysed_bodies.add(bs[0].name)
    return bs[0]


# ------------------------------------------------------------------------------------------------
# R10.1 — Dominance::partial_cmp: loop transfer table (9 cases) + value stage (9 cases) + no-value exit
# ------------------------------------------------------------------------------------------------
def _partial_cmp_fold_form(ctx, rule, b):
    """coordinate stage written as (0..nb_dimensions(a)).try_fold(Equal, |acc, i| match (acc, cmp(coord(a,i), coord(b,i))) { .. => None / Some(next) })?
    -> (closure, cmp block in the closure, cmp term, accumulator predicate inside the closure, loop_paths, try_fold point in b) or None"""
    tf = b.calls_to('try_fold')
    if len(tf) != 1:
        return None
    (tbb, tt_) = tf[0]
    tp = b.term_point(tbb)
    a = [b.origin.operand(x, tp) for x in tt_['args']]
    if len(a) != 3 or not (isinstance(a[2], tuple) and a[2] and a[2][0] == 'closure' and a[2][1] in ctx.F.bodies):
        return None
    c = ctx.F.bodies[a[2][1]]
    ctx.analysed_bodies.add(c.name)
    cm = [(bb, c.origin.call(t, c.term_point(bb))) for (bb, t) in c.calls_to('Ord::cmp')]
    cm = [(bb, t) for (bb, t) in cm if M.is_call(t[2][0], 'Dominance::get_coordinate') and M.is_call(t[2][1], 'Dominance::get_coordinate')]
    if len(cm) != 1:
        return None
    (cbb, ct) = cm[0]
    a0, a1 = ct[2]
    is_i = lambda x: M.is_param(x, index=2) and x[1] == c.name
    good = M.is_param(a0[2][1], index=1) and a0[2][1][1] == b.name and M.is_param(a1[2][1], index=3) and a1[2][1][1] == b.name and a0[2][2] == a1[2][2] and is_i(a0[2][2])
    ctx.check(good, rule, 'coordinate-operands', c, c.loc(cbb), 'coordinates are compared as cmp(coord(a, i), coord(b, i)) for the same i, in that operand order (fold form)',
              'the coordinate comparison is %s' % M.show(ct)[:240])
    rng = [x for x in M.walk(a[0]) if isinstance(x, tuple) and x and x[0] == 'aggr' and x[1].endswith('Range')]
    good = bool(rng) and M.is_const(dict(rng[0][3])['start'], 0) and M.is_call(dict(rng[0][3])['end'], 'Dominance::nb_dimensions') and not M.contains(a[0], lambda x: M.is_call(x, 'skip', 'take', 'filter', 'step_by', 'rev'))
    ctx.check(good, rule, 'coordinate-range', b, b.loc(tbb), 'i ranges over 0..nb_dimensions (try_fold over the whole range)', 'the fold does not range over 0..nb_dimensions(a)')
    ctx.check(_ord_const(a[1]) == 'Equal', rule, 'accumulator-init', b, b.loc(tbb), 'the accumulator starts at Equal', 'the fold does not start at Ordering::Equal')
    acc_c = lambda t: M.is_param(t, index=1) and t[1] == c.name
    start = c.after(c.term_point(cbb))[0]
    loop_paths = []
    for (edges, blocks, end) in M.enumerate_paths(c, start):
        atoms = M.path_atoms(c, edges)
        if not M.consistent(atoms):
            continue
        for (conds, leaf) in M.cases(_path_ret(c, blocks, end)):
            at = list(atoms) + [x for c_ in conds for x in M.lit_atoms(c_)]
            if leaf == M.MK_NONE:
                loop_paths.append((at, 'return', leaf))           # the fold stops, `?` hands None on
            elif isinstance(leaf, tuple) and leaf[:3] == ('aggr', M.OPTION, 'Some'):
                loop_paths.append((at, 'continue', leaf[3][0][1]))
            else:
                loop_paths.append((at, 'return', leaf))
    return (c, cbb, ct, acc_c, loop_paths, tp)


def r_partial_cmp(ctx, rule='R10.1'):
    b = _dominance_default(ctx, 'partial_cmp')
    fold = _partial_cmp_fold_form(ctx, rule, b) if not b.calls_to('Dominance::get_coordinate') else None
    cm = b.calls_to('Ord::cmp')
    uv = b.calls_to('Dominance::use_value')
    if fold is not None:
        (fc, cbb, ct, acc_loop, loop_paths, decided_pt) = fold
        if not (ctx.floor(rule, 'cmp', b, len(cm), 1, 'Ord::cmp call (values)') and ctx.floor(rule, 'use_value', b, len(uv), 1, 'use_value call')):
            return
        vcmp = None
        for (bb, t) in cm:
            tt = b.origin.call(t, b.term_point(bb))
            if M.is_param(tt[2][0]) and M.is_param(tt[2][1]):
                vcmp = (bb, tt)
        if vcmp is None:
            raise MissingAnchor('value comparison of partial_cmp')
        (vbb, vt) = vcmp
        ctx.check(M.is_param(vt[2][0], index=2) and M.is_param(vt[2][1], index=4), rule, 'value-operands', b, b.loc(vbb), 'values are compared as cmp(val_a, val_b)', 'the value comparison is %s' % M.show(vt))
        # the accumulator seen by the value stage: the payload the fold handed over through `?`
        accs = [a[1] for bbk in b.live_blocks() if b.term(bbk)['k'] == 'switch' for (tb, lab) in b.succ(bbk) for a in M.lit_atoms(M.edge_literal(b, bbk, lab))
                if a[0] == 'in' and isinstance(a[1], tuple) and a[1] != vt and M.contains(a[1], lambda x: M.is_call(x, 'try_fold')) and (a[2] & frozenset(ORD))]
        if not accs:
            raise MissingAnchor('accumulator handed over by the fold of partial_cmp')
        acc = accs[0]
        loop_body, loop_where = fc, cbb
    else:
        gc = b.calls_to('Dominance::get_coordinate')
        nx = b.calls_to('Iterator::next')
        if not (ctx.floor(rule, 'get_coordinate', b, len(gc), 2, 'get_coordinate calls') and ctx.floor(rule, 'cmp', b, len(cm), 2, 'Ord::cmp calls')
                and ctx.floor(rule, 'loop', b, len(nx), 1, 'coordinate loop') and ctx.floor(rule, 'use_value', b, len(uv), 1, 'use_value call')):
            return
        # identify the two comparisons
        ccmp = vcmp = None
        for (bb, t) in cm:
            tt = b.origin.call(t, b.term_point(bb))
            a0, a1 = tt[2]
            if M.is_call(a0, 'Dominance::get_coordinate') and M.is_call(a1, 'Dominance::get_coordinate'):
                ccmp = (bb, tt)
            elif M.is_param(a0) and M.is_param(a1):
                vcmp = (bb, tt)
        if ccmp is None or vcmp is None:
            raise MissingAnchor('coordinate / value comparison of partial_cmp')
        (cbb, ct) = ccmp
        a0, a1 = ct[2]
        good = M.is_param(a0[2][1], index=1) and M.is_param(a1[2][1], index=3) and a0[2][2] == a1[2][2] and M.contains(a0[2][2], lambda x: M.is_call(x, 'Iterator::next'))
        ctx.check(good, rule, 'coordinate-operands', b, b.loc(cbb), 'coordinates are compared as cmp(coord(a, i), coord(b, i)) for the same i, in that operand order',
                  'the coordinate comparison is %s' % M.show(ct)[:240])
        rng = [x for x in M.walk(a0[2][2]) if isinstance(x, tuple) and x and x[0] == 'aggr' and x[1].endswith('Range')]
        good = bool(rng) and M.is_const(dict(rng[0][3])['start'], 0) and M.is_call(dict(rng[0][3])['end'], 'Dominance::nb_dimensions')
        ctx.check(good, rule, 'coordinate-range', b, b.loc(cbb), 'i ranges over 0..nb_dimensions', 'the coordinate index does not range over 0..nb_dimensions(a)')
        (vbb, vt) = vcmp
        ctx.check(M.is_param(vt[2][0], index=2) and M.is_param(vt[2][1], index=4), rule, 'value-operands', b, b.loc(vbb), 'values are compared as cmp(val_a, val_b)', 'the value comparison is %s' % M.show(vt))
        # accumulator variable
        accs = [a[1] for bbk in b.live_blocks() if b.term(bbk)['k'] == 'switch' for (tb, lab) in b.succ(bbk) for a in M.lit_atoms(M.edge_literal(b, bbk, lab))
                if a[0] == 'in' and isinstance(a[1], tuple) and a[1][0] == 'var']
        if not accs:
            raise MissingAnchor('accumulator variable of partial_cmp')
        acc = accs[0]
        acc_local = acc[2]
        alld = b.defs()[acc_local]
        first = sorted(alld, key=lambda d: (d[0], d[1]))[0]
        ctx.check(_ord_const(b.origin._def_term(acc_local, first, 0)) == 'Equal', rule, 'accumulator-init', b, b.loc(first[0], first[1]), 'the accumulator starts at Equal',
                  'the accumulator does not start at Ordering::Equal')
        nxp = b.term_point(nx[0][0])
        # ---- loop stage: from the coordinate comparison to the next iteration / a return ------------------
        # decided by case analysis over the 3 x 3 values of (accumulator, comparison): for each case, the feasible paths and what they do
        start = b.after(b.term_point(cbb))[0]
        loop_paths = []
        for (edges, blocks, end) in M.enumerate_paths(b, start, stops=[nxp]):
            atoms = M.path_atoms(b, edges)
            if not M.consistent(atoms):
                continue
            if end == nxp:
                loop_paths.append((atoms, 'continue', M.path_local_term(b, blocks, end, acc_local, start)))
            else:
                for (conds, leaf) in M.cases(_path_ret(b, blocks, end)):
                    loop_paths.append((list(atoms) + [a for c_ in conds for a in M.lit_atoms(c_)], 'return', leaf))
        acc_loop = lambda t: t == acc
        decided_pt = b.term_point(cbb)
        loop_body, loop_where = b, cbb
    bad = []
    for x in ORD:
        for y in ORD:
            env = [(acc_loop, x), (lambda t, ct=ct: t == ct, y)]
            outs = set()
            for (atoms, kind, term) in loop_paths:
                if not _feasible(atoms, env):
                    continue
                if kind == 'continue':
                    outs.add(('continue', _ord_eval(term, env)))
                else:
                    outs.add(('return', 'None' if term == M.MK_NONE else M.show(term)[:60]))
            if (x, y) in (('Less', 'Greater'), ('Greater', 'Less')):
                want = ('return', 'None')
            elif x == 'Equal':
                want = ('continue', y)
            else:
                want = ('continue', x)
            if outs != {want}:
                bad.append(((x, y), 'got %s want %s' % (sorted(outs, key=repr), want)))
    ctx.stats['paths'] += len(loop_paths)
    ctx.check(not bad and bool(loop_paths), rule, 'loop-table', loop_body, loop_body.loc(loop_where),
              'coordinate loop = product-order automaton (9 cases): Equal absorbs, opposite strict orders => None, otherwise keep',
              'the coordinate loop of partial_cmp deviates from the product-order automaton in case(s) %s' % bad[:4])
    # ---- value stage --------------------------------------------------------------------------------
    uvt = b.origin.call(uv[0][1], b.term_point(uv[0][0]))
    start = b.after(b.term_point(vbb))[0]
    val_paths = []
    for (edges, blocks, end) in M.enumerate_paths(b, start):
        atoms = M.path_atoms(b, edges)
        if not M.consistent(atoms):
            continue
        for (conds, leaf) in M.cases(_path_ret(b, blocks, end)):
            val_paths.append((list(atoms) + [a for c_ in conds for a in M.lit_atoms(c_)], leaf))
    bad = []
    for x in ORD:
        for y in ORD:
            env = [(lambda t: t == acc, x), (lambda t, vt=vt: t == vt, y)]
            outs = set(_result_of(term, env) for (atoms, term) in val_paths if _feasible(atoms, env))
            if (x, y) in (('Less', 'Greater'), ('Greater', 'Less')):
                want = 'None'
            elif x == 'Equal' and y != 'Equal':
                want = (y, True)
            else:
                want = (x, False)
            if outs != {want}:
                bad.append(((x, y), 'got %s want %s' % (sorted(outs, key=repr), want)))
    ctx.stats['paths'] += len(val_paths)
    ctx.check(not bad and bool(val_paths), rule, 'value-table', b, b.loc(vbb),
              'value stage (9 cases): opposite orders => None; all coordinates equal and values differ => that order with only_val_diff; otherwise the coordinate order',
              'the value stage of partial_cmp deviates from the specification in case(s) %s' % bad[:4])
    ok, cut, bad_ = M.guarded(b, [b.term_point(vbb)], lambda atoms, lit: any(a[0] == 'T' and a[1] == uvt for a in atoms))
    ctx.check(ok, rule, 'value-only-if-used', b, b.loc(vbb), 'values are compared only when use_value()', 'values are compared although use_value() is false')
    # ---- closed list of exits: a verdict is returned only out of the coordinate loop (incomparable) or after the use_value() test (the two
    # tables above / below); a shortcut that answers before (same object, cached verdict, ..) skips the coordinates or the value
    r_ = b.reach([(0, 0)], avoid=[decided_pt, b.term_point(uv[0][0])])
    ctx.check(not any(p_ in r_ for p_ in ret_points(b)), rule, 'every-exit-is-decided-by-the-tables', b, b.loc(0),
              'partial_cmp answers only after comparing coordinates (None) or after the use_value() test (loop table / value table / no-value exit)',
              'partial_cmp can return a verdict without going through the coordinate comparison or the use_value() test (a shortcut): the verdict ignores coordinates or values')
    # ---- no-value exit -------------------------------------------------------------------------------
    fe = [(tb, 0) for bbk in b.live_blocks() if b.term(bbk)['k'] == 'switch' for (tb, lab) in b.succ(bbk)
          if (lambda lit: lit and lit[0] == 'F' and lit[1] == uvt)(M.edge_literal(b, bbk, lab))]
    good = bool(fe)
    for st in fe:
        for (edges, blocks, end) in M.enumerate_paths(b, st):
            for x in ORD:
                env = [(lambda t: t == acc, x)]
                for (conds, leaf) in M.cases(_path_ret(b, blocks, end)):
                    if _feasible([a for c_ in conds for a in M.lit_atoms(c_)], env):
                        good = good and _result_of(leaf, env) == (x, False)
    ctx.check(good, rule, 'no-value-exit', b, b.loc(uv[0][0]), 'without values the result is Some(coordinate order, only_val_diff = false)', 'the no-value exit does not return Some{ordering, only_val_diff: false}')


def _ord_eval(t, env):
    """value (an Ordering name or a bool) of a term under `env` = [(term predicate, Ordering name)], None when it cannot be determined"""
    for (pred, v) in env:
        if pred(t):
            return v
    c = _ord_const(t)
    if c is not None:
        return c
    if not isinstance(t, tuple) or not t:
        return None
    if t[0] == 'aggr' and t[2] is not None and not t[2].isdigit():
        return t[2]          # an enum value: its variant name (what a discriminant test looks at)
    if t[0] == 'const' and isinstance(t[1], bool):
        return t[1]
    if t[0] == 'cmp' and t[1] in ('Eq', 'Ne'):
        a, b_ = _ord_eval(t[2], env), _ord_eval(t[3], env)
        if a is None or b_ is None:
            return None
        return (a == b_) == (t[1] == 'Eq')
    if t[0] == 'not':
        a = _ord_eval(t[1], env)
        return None if a is None else (not a)
    if t[0] == 'bin' and t[1] in ('BitAnd', 'BitOr'):
        a, b_ = _ord_eval(t[2], env), _ord_eval(t[3], env)
        if t[1] == 'BitAnd':
            return False if (a is False or b_ is False) else (True if (a is True and b_ is True) else None)
        return True if (a is True or b_ is True) else (False if (a is False and b_ is False) else None)
    if t[0] == 'ite':
        c_ = _feasible(M.lit_atoms(t[1]), env, strict=True)
        if c_ is None:
            return None
        return _ord_eval(t[2] if c_ else t[3], env)
    return None


def _feasible(atoms, env, strict=False):
    """can the conjunction of `atoms` hold under `env`? Atoms that do not mention the case variables are ignored (strict: they make the
    answer unknown = None)"""
    names = {'<': 'Less', '=': 'Equal', '>': 'Greater'}
    unknown = False
    for a in atoms:
        v = None
        if a[0] == 'in':
            x = _ord_eval(a[1], env)
            v = None if x is None else (x in a[2])
        elif a[0] in ('T', 'F'):
            x = _ord_eval(a[1], env)
            v = None if x is None else (x == (a[0] == 'T'))
        elif a[0] == 'cmp':
            # a test on the result of Ord::cmp(p, q) appears as a comparison atom on (p, q)
            for (p_, q_, rel) in ((a[1], a[2], a[3]), (a[2], a[1], frozenset({'<': '>', '>': '<', '=': '='}[c] for c in a[3]))):
                x = _ord_eval(('call', 'std::cmp::Ord::cmp', (p_, q_), None), env)
                if x is not None:
                    v = x in set(names[c] for c in rel)
                    break
            if v is None and a[3] in (frozenset('='), frozenset('<>')):
                # == / != between two Ordering values
                p_, q_ = _ord_eval(a[1], env), _ord_eval(a[2], env)
                if p_ is not None and q_ is not None and not isinstance(p_, bool):
                    v = (p_ == q_) == (a[3] == frozenset('='))
        elif a[0] == 'const':
            v = bool(a[1])
        if v is False:
            return False
        if v is None:
            unknown = True
    if strict and unknown:
        return None
    return True


def _result_of(rt, env):
    if rt == M.MK_NONE:
        return 'None'
    if isinstance(rt, tuple) and rt[0] == 'aggr' and rt[2] == 'Some':
        inner = rt[3][0][1]
        if isinstance(inner, tuple) and inner[0] == 'aggr' and inner[1].endswith('DominanceCmpResult'):
            f = dict(inner[3])
            return (_ord_eval(f['ordering'], env), _ord_eval(f['only_val_diff'], env))
    return M.show(rt)[:80]


def _compare_table(rows, spec):
    bad = []
    for case, want in spec.items():
        x, y = case
        hits = [r for r in rows if x in r[0] and y in r[1]]
        if len(hits) != 1:
            bad.append((case, 'paths=%d' % len(hits)))
            continue
        got = hits[0][2]
        if want == ('acc', False):
            ok = got == ('acc', False) or got == (x, False)
        elif isinstance(want, tuple) and want[0] == 'continue' and want[1] is None:
            ok = got == ('continue', None) or got == ('continue', x)
        else:
            ok = got == want
        if not ok:
            bad.append((case, 'got %s want %s' % (got, want)))
    return bad


# ------------------------------------------------------------------------------------------------
# R10.2 — Dominance::cmp: value first (when used), then coordinates; first difference decides, same polarity
# ------------------------------------------------------------------------------------------------
def r_dom_cmp(ctx, rule='R10.2'):
    b = _dominance_default(ctx, 'cmp')
    cm = b.calls_to('Ord::cmp')
    uv = b.calls_to('Dominance::use_value')
    # accepted alternative spelling of the coordinate stage: (0..n).map(|i| coord(a,i).cmp(&coord(b,i))).find(|o| *o != Equal).unwrap_or(Equal)
    # — the first non-Equal comparison is returned as it is, so the polarity is that of the comparison itself
    iter_form = False
    for c in ctx.unit(b)[1:]:
        for (cbb, ct) in c.calls_to('Ord::cmp'):
            tt = c.origin.call(ct, c.term_point(cbb))
            a0, a1 = tt[2]
            if M.is_call(a0, 'Dominance::get_coordinate') and M.is_call(a1, 'Dominance::get_coordinate'):
                okc = M.is_param(a0[2][1], index=1) and a0[2][1][1] == b.name and M.is_param(a1[2][1], index=3) and a1[2][1][1] == b.name and \
                    a0[2][2] == a1[2][2] and M.is_param(a0[2][2], index=1) and a0[2][2][1] == c.name
                rets = [b.origin.place({'l': 0, 'p': []}, b.term_point(rb)) for rb in b.return_blocks()]
                shape = False
                for bb_ in b.live_blocks():
                    t_ = b.term(bb_)
                    if t_['k'] == 'call' and (t_.get('callee') or '').endswith(('unwrap_or', 'unwrap_or_else')):
                        f_ = opt_fold(b.origin.call(t_, b.term_point(bb_)))     # normal form of find(..).unwrap_or(Equal)
                        if f_ is None or f_[1] != opt_payload(f_[0]):
                            continue
                        fnd, dflt = f_[0], f_[2]
                        if M.is_call(fnd, 'find') and M.is_call(fnd[2][0], 'map') and isinstance(fnd[2][0][2][1], tuple) and fnd[2][0][2][1][:2] == ('closure', c.name) \
                                and _ord_const(dflt) == 'Equal':
                            rng = [x for x in M.walk(fnd[2][0][2][0]) if isinstance(x, tuple) and x and x[0] == 'aggr' and x[1].endswith('Range')]
                            pr = _closure_ret(ctx.F, fnd[2][1])
                            neq = isinstance(pr, tuple) and pr[0] == 'cmp' and pr[1] == 'Ne' and any(_ord_const(x) == 'Equal' for x in pr[2:4]) and any(M.is_param(x, index=1) for x in pr[2:4])
                            # .find(Ordering::is_ne) / .find(|o| o.is_ne())
                            fi_ = fnd[2][1]
                            if isinstance(fi_, tuple) and fi_ and fi_[0] == 'fn' and str(fi_[1]).endswith('Ordering::is_ne'):
                                neq = True
                            if isinstance(pr, tuple) and pr and pr[0] == 'isvar' and M.is_param(pr[1], index=1) and pr[2] == frozenset(['Less', 'Greater']):
                                neq = True          # |o| o.is_ne()  (normal form of the Ordering predicates: a variant test)
                            shape = bool(rng) and M.is_const(dict(rng[0][3])['start'], 0) and M.is_call(dict(rng[0][3])['end'], 'Dominance::nb_dimensions') and neq
                ctx.check(okc and shape, rule, 'coordinate-iterator-form', c, c.loc(cbb),
                          'coordinates: first non-Equal result of cmp(coord(a, i), coord(b, i)) for i in 0..nb_dimensions, Equal if none (iterator form)',
                          'the iterator form of the coordinate stage is not (0..n).map(cmp(coord(a,i), coord(b,i))).find(!= Equal).unwrap_or(Equal)')
                iter_form = okc and shape
    if not (ctx.floor(rule, 'cmp', b, len(cm) + (1 if iter_form else 0), 2, 'Ord::cmp calls') and ctx.floor(rule, 'use_value', b, len(uv), 1, 'use_value call')):
        return
    for (bb, t) in cm:
        tt = b.origin.call(t, b.term_point(bb))
        a0, a1 = tt[2]
        if M.is_call(a0, 'Dominance::get_coordinate'):
            good = M.is_call(a1, 'Dominance::get_coordinate') and M.is_param(a0[2][1], index=1) and M.is_param(a1[2][1], index=3) and a0[2][2] == a1[2][2]
            what = 'coordinate'
        else:
            good = M.is_param(a0, index=2) and M.is_param(a1, index=4)
            what = 'value'
            uvt = b.origin.call(uv[0][1], b.term_point(uv[0][0]))
            ok, cut, bad_ = M.guarded(b, [b.term_point(bb)], lambda atoms, lit: any(a[0] == 'T' and a[1] == uvt for a in atoms))
            ctx.check(ok, rule, 'value-only-if-used', b, b.loc(bb), 'the value is compared only when use_value()', 'value compared although use_value() is false')
            # value first: the coordinate loop is not entered before the value comparison when values are used
            nx = b.calls_to('Iterator::next')
            if nx:
                te = [(tb, 0) for bbk in b.live_blocks() if b.term(bbk)['k'] == 'switch' for (tb, lab) in b.succ(bbk)
                      if (lambda lit: lit and lit[0] == 'T' and lit[1] == uvt)(M.edge_literal(b, bbk, lab))]
                r = b.reach(te, avoid=[b.term_point(bb)])
                ctx.check(b.term_point(nx[0][0]) not in r, rule, 'value-first', b, b.loc(bb), 'when values are used they are compared before any coordinate',
                          'coordinates can be compared before the value although use_value() is true')
        ctx.check(good, rule, what + '-operands', b, b.loc(bb), '%s comparison is cmp(a, b) in that operand order' % what, '%s comparison is %s' % (what, M.show(tt)[:200]))
        # polarity table of this comparison: Less -> return Less, Greater -> return Greater, Equal -> go on
        start = b.after(b.term_point(bb))[0]
        stops = [b.term_point(x) for (x, _) in b.calls_to('Iterator::next')] + [b.term_point(x) for (x, _) in cm if x != bb]
        rows = {}
        okt = True
        for (edges, blocks, end) in M.enumerate_paths(b, start, stops=stops):
            atoms = M.path_atoms(b, edges)
            if not M.consistent(atoms):
                continue
            sc = _in_set(atoms, lambda x: x == tt)
            if sc is None:
                continue
            for v in sc:
                if end in stops:
                    out = 'continue'
                else:
                    rt_ = _path_ret(b, blocks, end)
                    # `if c != Equal { return c }`: the comparison result itself is returned — under the case v it IS v
                    out = v if rt_ == tt else (_ord_const(rt_) or 'continue-to-end')
                rows.setdefault(v, set()).add(out)
        want = {'Less': {'Less'}, 'Greater': {'Greater'}}
        for v in ('Less', 'Greater'):
            if rows.get(v) != want[v]:
                okt = False
        eq = rows.get('Equal', set())
        if not eq or any(x in ('Less', 'Greater') for x in eq):
            okt = False
        ctx.check(okt, rule, what + '-polarity', b, b.loc(bb), 'first difference decides with the same polarity: Less => Less, Greater => Greater, Equal => next criterion (a dominating state compares Greater)',
                  'Dominance::cmp does not map the %s comparison Less=>Less, Greater=>Greater, Equal=>continue: %s' % (what, {k: sorted(v) for k, v in rows.items()}))
    # after everything: Equal
    rets = set()
    for (edges, blocks, end) in M.enumerate_paths(b, (0, 0), visit_limit=1):
        atoms = M.path_atoms(b, edges)
        if not M.consistent(atoms):
            continue
        none_edge = any(a[0] == 'in' and M.is_call(a[1], 'Iterator::next') and a[2] == frozenset(['None']) for a in atoms)
        if none_edge:
            rets.add(_ord_const(_path_ret(b, blocks, end)))
    if not iter_form:
        ctx.check(rets == {'Equal'}, rule, 'all-equal', b, b.loc(0), 'when nothing differs the result is Equal', 'after the coordinate loop the result is %s' % sorted(str(x) for x in rets))
    # SimpleDominanceChecker::cmp forwards unswapped
    fw = ctx.body('simple::SimpleDominanceChecker', 'cmp', trait='DominanceChecker')
    rt = _ret_term(fw)
    good = M.is_call(rt, 'Dominance::cmp') and M.is_field(rt[2][0], 'dominance', 'SimpleDominanceChecker') and all(M.is_param(rt[2][i], index=i) for i in (1, 2, 3, 4))
    ctx.check(good, rule, 'checker-cmp-forwards', fw, fw.loc(0), 'SimpleDominanceChecker::cmp forwards (a, val_a, b, val_b) unswapped to the rule', 'SimpleDominanceChecker::cmp returns %s' % M.show(rt))


# ------------------------------------------------------------------------------------------------
# R10.3 / R10.4 / R10.5 — is_dominated_or_insert; R18.a single access
# ------------------------------------------------------------------------------------------------
def r_dom_store(ctx):
    b = ctx.body('simple::SimpleDominanceChecker', 'is_dominated_or_insert', trait='DominanceChecker')
    unit = ctx.unit(b)
    ent = b.calls_to('entry')
    ctx.check(len(ent) == 1, 'R18.a', 'dominance/one-entry-call', b, b.loc(ent[0][0]) if ent else b.loc(0), 'the whole check-and-insert goes through ONE DashMap::entry call (the shard lock is held by the Entry)',
              'is_dominated_or_insert makes %d entry() calls: the read-modify-write is not atomic on its key' % len(ent))
    dm = [(c, bb, t) for c in unit for (bb, t) in c.calls() if 'dashmap' in (t.get('callee') or '') and (t.get('callee') or '').split('::')[-1] in
          ('get', 'get_mut', 'insert', 'remove', 'entry', 'contains_key', 'iter', 'iter_mut', 'alter', 'retain', 'clear') and 'entry::' not in (t.get('callee') or '').lower().replace('mapref::entry', 'entry::')]
    acc = [(c, bb, t) for (c, bb, t) in dm if (t.get('self_ty') or '').startswith('dashmap::DashMap')]
    ctx.check(len(acc) == 1, 'R18.a', 'dominance/no-second-map-access', b, b.loc(0), 'no other accessor of the map is called (no second shard lock, no split read/write)',
              'is_dominated_or_insert calls %d DashMap accessors (%s)' % (len(acc), [x[2]['callee'].split('::')[-1] for x in acc]))
    if not ent:
        return
    ea = [b.origin.operand(x, b.term_point(ent[0][0])) for x in ent[0][1]['args']]
    good = isinstance(ea[0], tuple) and ea[0][0] == 'index' and M.is_field(ea[0][1], 'data', 'SimpleDominanceChecker') and M.is_param(ea[0][2], index=2)
    key_ok = M.contains(ea[1], lambda x: M.is_call(x, 'Dominance::get_key') and M.is_param(x[2][1], index=1))
    ctx.check(good and key_ok, 'R10.5', 'store-key', b, b.loc(ent[0][0]), 'the store is addressed by data[depth].entry(get_key(state)): depth then key', 'the store is addressed by %s / %s' % (M.show(ea[0]), M.show(ea[1])))
    cl = ctx.body('simple::SimpleDominanceChecker', 'clear_layer', trait='DominanceChecker')
    cc = cl.calls_to('clear')
    good = len(cc) == 1
    if good:
        r = cl.origin.operand(cc[0][1]['args'][0], cl.term_point(cc[0][0]))
        good = isinstance(r, tuple) and r[0] == 'index' and M.is_field(r[1], 'data', 'SimpleDominanceChecker') and M.is_param(r[2], index=1)
    ctx.check(good, 'R10.5', 'clear_layer', cl, cl.loc(0), 'clear_layer(d) clears data[d] only', 'clear_layer does not clear exactly data[depth]')
    nw = ctx.body('simple::SimpleDominanceChecker', 'new')
    rng = [x for bb_ in nw.live_blocks() for s in nw.stmts(bb_) if s['k'] == 'assign' for x in M.walk(nw.origin.rvalue(s['rv'], (bb_, 0))) if M.is_call(x, 'RangeInclusive::<Idx>::new', 'new') and len(x[2]) == 2 and M.is_const(x[2][0], 0)]
    rng += [x for (bb_, t) in nw.calls() for x in [nw.origin.call(t, nw.term_point(bb_))] if M.is_call(x, 'new') and 'RangeInclusive' in x[1]]
    good = any(M.is_const(x[2][0], 0) and M.is_param(x[2][1], index=1) for x in rng)
    ctx.check(good, 'R18.c', 'dominance/layers', nw, nw.loc(0), 'the checker holds nb_variables + 1 layers (0..=n)', 'SimpleDominanceChecker::new does not create 0..=nb_variables layers')
    # no key => not dominated, nothing stored
    nok = [(tb, 0) for bbk in b.live_blocks() if b.term(bbk)['k'] == 'switch' for (tb, lab) in b.succ(bbk)
           if (lambda lit: lit and lit[0] == 'in' and M.is_call(lit[1], 'Dominance::get_key') and lit[2] == frozenset(['None']))(M.edge_literal(b, bbk, lab))]
    good = bool(nok)
    for st in nok:
        for (edges, blocks, end) in M.enumerate_paths(b, st):
            rt = _path_ret(b, blocks, end)
            f = dict(rt[3]) if isinstance(rt, tuple) and rt[0] == 'aggr' and rt[1].endswith('DominanceCheckResult') else {}
            good = good and bool(f) and M.is_const(f['dominated'], False) and f['threshold'][2] == 'None'
            good = good and not any(k == 'call' and 'dashmap' in (s.get('callee') or '') for (k, pt, s) in M.path_effects(b, blocks, st, end))
    ctx.check(good, 'R10.3', 'no-key', b, b.loc(0), 'a state without key is not dominated and nothing is stored', 'the no-key path does not return (dominated: false, threshold: None) untouched')
    # vacant => insert, not dominated
    vac = [(tb, 0) for bbk in b.live_blocks() if b.term(bbk)['k'] == 'switch' for (tb, lab) in b.succ(bbk)
           if (lambda lit: lit and lit[0] == 'in' and M.is_call(lit[1], 'entry') and lit[2] == frozenset(['Vacant']))(M.edge_literal(b, bbk, lab))]
    good = bool(vac)
    for st in vac:
        for (edges, blocks, end) in M.enumerate_paths(b, st):
            rt = _path_ret(b, blocks, end)
            f = dict(rt[3]) if isinstance(rt, tuple) and rt[0] == 'aggr' and rt[1].endswith('DominanceCheckResult') else {}
            ins = [s for (k, pt, s) in M.path_effects(b, blocks, st, end) if k == 'call' and (s.get('callee') or '').endswith('::insert')]
            good = good and bool(f) and M.is_const(f['dominated'], False) and f['threshold'][2] == 'None' and len(ins) == 1
    ctx.check(good, 'R10.3', 'vacant', b, b.loc(0), 'a vacant key: the state is inserted and reported not dominated', 'the vacant arm does not insert exactly once and return not dominated')
    # occupied arm: the retain closure table
    cls = [c for c in unit[1:] if c.calls_to('Dominance::partial_cmp')]
    if not ctx.floor('R10.3', 'retain-closure', b, len(cls), 1, 'retain closure calling partial_cmp'):
        return
    c = cls[0]
    (pbb, pt_) = c.calls_to('Dominance::partial_cmp')[0]
    pc = c.origin.call(pt_, c.term_point(pbb))
    a = pc[2]
    other = lambda t, f: M.is_field(t, f, 'DominanceEntry') and M.is_param(t[1], index=1) and t[1][1] == c.name
    good = M.is_param(a[1], index=1) and a[1][1] == b.name and M.is_param(a[2], index=3) and a[2][1] == b.name and other(a[3], 'state') and other(a[4], 'value')
    ctx.check(good, 'R10.3', 'retain/partial_cmp-operands', c, c.loc(pbb), 'partial_cmp(new state, new value, stored state, stored value): Less means the NEW state is dominated',
              'partial_cmp is called with (%s)' % ', '.join(M.show(x) for x in a[1:]))
    # every stored entry is compared (no early exit once a dominator was found: the threshold is the min over ALL dominators)
    r_ = c.reach([(0, 0)], avoid=[c.term_point(pbb)])
    ctx.check(not any(p_ in r_ for p_ in ret_points(c)), 'R10.3', 'retain/compares-every-entry', c, c.loc(pbb),
              'the retain closure compares the query with every stored entry (no path skips partial_cmp)',
              'the retain closure can return without comparing the entry (early exit): the threshold is no longer the minimum over all dominators and dominated entries are not dropped')
    # which parent locals are written through the captures
    ws = writes(c)
    dom_var = [d for (pt, d, v, s) in ws if M.is_const(v, True) and isinstance(d, tuple) and d[0] == 'var']
    thr_w = [(pt, d, v) for (pt, d, v, s) in ws if isinstance(d, tuple) and d[0] == 'var' and not M.is_const(v)]
    table = {}
    start = c.after(c.term_point(pbb))[0]
    for (edges, blocks, end) in M.enumerate_paths(c, start):
        atoms = M.path_atoms(c, edges)
        if not M.consistent(atoms):
            continue
        so = _in_set(atoms, lambda t: t == pc)
        oo = _in_set(atoms, lambda t: M.is_field(t, 'ordering', 'DominanceCmpResult') and M.contains(t, lambda x: x == pc))
        # a path taken for several orderings (`Some(_) => false`, `_ => ..`) is a row of each of them
        if so == {'None'}:
            cases_ = ['None']
        elif so == {'Some'} or oo:
            cases_ = sorted(oo) if oo else ['Less', 'Equal', 'Greater']
        else:
            cases_ = ['?']
        rt = _path_ret(c, blocks, end)
        eff = M.path_effects(c, blocks, start, end)
        marks = any(k == 'write' and M.is_const(c.origin.rvalue(s['rv'], pt), True) and c.origin.place(s['place'], pt) in dom_var for (k, pt, s) in eff)
        for case in cases_:
            table.setdefault(case, set()).add((rt[1] if M.is_const(rt) else M.show(rt), marks))
    want = {'None': {(True, False)}, 'Less': {(True, True)}, 'Equal': {(False, False)}, 'Greater': {(False, False)}}
    ctx.stats['paths'] += sum(len(v) for v in table.values())
    ctx.check(table == want, 'R10.3', 'retain/table', c, c.loc(pbb),
              'retain table: incomparable => keep; new < stored => keep stored, mark dominated; new == stored or new > stored => drop stored',
              'the retain closure deviates from {None: keep, Less: keep+dominated, Equal: drop, Greater: drop}: %s' % {k: sorted(map(str, v)) for k, v in table.items()})
    # the `dominated` variable the closure marks is the one tested / returned by the parent
    rets = []
    occ = [(tb, 0) for bbk in b.live_blocks() if b.term(bbk)['k'] == 'switch' for (tb, lab) in b.succ(bbk)
           if (lambda lit: lit and lit[0] == 'in' and M.is_call(lit[1], 'entry') and lit[2] == frozenset(['Occupied']))(M.edge_literal(b, bbk, lab))]
    good = bool(occ) and len(dom_var) >= 1
    dv = dom_var[0] if dom_var else None
    thv = thr_w[0][1] if thr_w else None
    pushes = [b.term_point(bb) for (bb, t) in b.calls_to('push')]
    retain_pts = [b.term_point(bb) for (bb, t) in b.calls_to('retain')]
    # the result returned on the Occupied arm, case by case: dominated => (true, the accumulated threshold); not dominated => (false, None)
    after_scan = b.after(retain_pts[0]) if retain_pts else []
    ncase = 0
    for st in after_scan:
        for (edges, blocks, end) in M.enumerate_paths(b, st):
            atoms = M.path_atoms(b, edges)
            if not M.consistent(atoms):
                continue
            for (conds, leaf) in M.cases(M.lift_ite(_path_ret(b, blocks, end))):
                at = list(atoms) + [a_ for c_ in conds for a_ in M.lit_atoms(c_)]
                if not M.consistent(at):
                    continue
                truth = [a_[0] for a_ in at if a_[0] in 'TF' and a_[1] == dv]
                f = dict(leaf[3]) if isinstance(leaf, tuple) and leaf[0] == 'aggr' and leaf[1].endswith('DominanceCheckResult') else None
                ncase += 1
                if f is None or len(set(truth)) != 1:
                    good = False
                elif truth[0] == 'T':
                    good = good and (f['dominated'] == dv or M.is_const(f['dominated'], True)) and f['threshold'] == thv
                else:
                    good = good and (f['dominated'] == dv or M.is_const(f['dominated'], False)) and f['threshold'] == M.MK_NONE
    good = good and ncase >= 2
    if good:
        # insertion iff not dominated
        nd = lambda atoms, lit: any(a_[0] == 'F' and a_[1] == dv for a_ in atoms)
        ps_ = [p_ for p_ in pushes if retain_pts and p_ in b.reach(after_scan)]
        ok1, cut_, _ = M.guarded(b, ps_, nd, starts=after_scan)
        ok2 = bool(ps_) and bool(cut_)
        for (bbk, lab) in cut_:
            tb = [t_ for (t_, l_) in b.succ(bbk) if l_ == lab][0]
            if not any(p_ in b.reach([(tb, 0)]) for p_ in ps_):
                continue
            # `dominated` does not change after the scan: a later edge asserting the opposite is infeasible on this path (an assertion that
            # mentions the flag before the `if !dominated` is not a second decision)
            opp_ = set((b2_, l2_) for b2_ in b.live_blocks() if b.term(b2_)['k'] == 'switch' for (t2_, l2_) in b.succ(b2_)
                       if any(a_[0] == 'T' and a_[1] == dv for a_ in M.lit_atoms(M.edge_literal(b, b2_, l2_))))
            r_ = b.reach([(tb, 0)], cut_edges=opp_, avoid=ps_)
            if any(p_ in r_ for p_ in ret_points(b)):
                ok2 = False
        good = good and ok1 and ok2
    ctx.check(good, 'R10.3', 'after-scan', b, b.loc(0), 'after the scan the state is inserted iff not dominated; a dominated verdict returns the accumulated threshold, a non-dominated one None',
              'after the retain scan: insertion / returned threshold are not tied to the `dominated` flag set by the closure')
    for (bb, t) in b.calls_to('push'):
        pv = b.origin.operand(t['args'][1], b.term_point(bb))
        f = dict(pv[3]) if isinstance(pv, tuple) and pv[0] == 'aggr' else {}
        ctx.check(bool(f) and M.is_param(f.get('state'), index=1) and M.is_param(f.get('value'), index=3), 'R10.3', 'inserted-entry', b, b.loc(bb), 'the entry inserted is (state, value) of the query', 'inserted entry is %s' % M.show(pv))
    # R10.4 threshold terms
    uvp = lambda atoms, lit: any(a_[0] == 'T' and M.is_call(a_[1], 'Dominance::use_value') for a_ in atoms)
    good = len(thr_w) >= 1
    forms = set()
    ovd = lambda t: M.is_field(t, 'only_val_diff', 'DominanceCmpResult')
    for (pt, d, v) in thr_w:
        # case by case: every value written is either the threshold itself (no change) or min(threshold, Some(X)) with
        # X = stored.value (only_val_diff false) | stored.value - 1 (only_val_diff true), and then use_value holds and the verdict is Less
        okp2, cutp, _ = M.guarded(c, [pt], uvp)
        is_ordering = lambda t: M.is_field(t, 'ordering', 'DominanceCmpResult') and M.contains(t, lambda x: x == pc)
        okl, _, _ = M.guarded(c, [pt], lambda atoms, lit: _in_set(atoms, is_ordering) == {'Less'})
        okt, _, _ = M.guarded(c, [pt], lambda atoms, lit: any(a_[0] == 'T' and ovd(a_[1]) for a_ in atoms))
        okf, _, _ = M.guarded(c, [pt], lambda atoms, lit: any(a_[0] == 'F' and ovd(a_[1]) for a_ in atoms))
        for (conds, leaf) in M.cases(v):
            if leaf == d:
                continue
            at = [a_ for c_ in conds for a_ in M.lit_atoms(c_)]
            items = leaf[1] if isinstance(leaf, tuple) and leaf[0] == 'min' else ()
            oth = [x for x in items if x != d]
            if d not in items or len(oth) != 1 or not (isinstance(oth[0], tuple) and oth[0][0] == 'aggr' and oth[0][2] == 'Some'):
                good = False
                continue
            uses = okp2 or any(a_[0] == 'T' and M.is_call(a_[1], 'Dominance::use_value') for a_ in at)
            for (conds2, inner) in M.cases(oth[0][3][0][1]):
                at2 = at + [a_ for c_ in conds2 for a_ in M.lit_atoms(c_)]
                if other(inner, 'value'):
                    forms.add('value')
                    ok = okf or any(a_[0] == 'F' and ovd(a_[1]) for a_ in at2)
                elif isinstance(inner, tuple) and inner[0] == 'sub' and other(inner[1], 'value') and M.is_const(inner[2], 1):
                    forms.add('value-1')
                    ok = okt or any(a_[0] == 'T' and ovd(a_[1]) for a_ in at2)
                else:
                    ok = False
                good = good and ok and uses and okl
    ctx.check(good and forms == {'value', 'value-1'}, 'R10.4', 'threshold-terms', c, c.loc(pbb),
              'threshold = min over DOMINATORS of stored.value (stored.value - 1 when only the value differs), only when values are used',
              'the threshold accumulated by the retain closure is not min(threshold, Some(dominator.value [- 1 iff only_val_diff])) on the dominated branch with use_value')
    # initial values in the parent
    for (l, name, want_) in ((dv, 'dominated', False), (thv, 'threshold', None)):
        if l is None:
            continue
        defs = [b.origin._def_term(l[2], d_, 0) for d_ in b.defs()[l[2]] if d_[2] == 'whole']
        if name == 'dominated':
            ctx.check(any(M.is_const(x, False) for x in defs) and all(M.is_const(x) for x in defs), 'R10.3', 'dominated-init', b, b.loc(0), 'dominated starts false', 'dominated is initialised with %s' % [M.show(x) for x in defs])
        else:
            okd = any(isinstance(x, tuple) and x[0] == 'aggr' and x[2] == 'Some' and is_max_const(x[3][0][1]) for x in defs)
            ctx.check(okd, 'R10.4', 'threshold-init', b, b.loc(0), 'the threshold starts at Some(MAX) (value when values are not used)', 'threshold is initialised with %s' % [M.show(x) for x in defs])


# ------------------------------------------------------------------------------------------------
# C18 — SimpleCache
# ------------------------------------------------------------------------------------------------
def r_cache_store(ctx):
    SC = 'simple::SimpleCache'
    up = ctx.body(SC, 'update_threshold', trait='Cache')
    unit = ctx.unit(up)
    acc = [(c, bb, t) for c in unit for (bb, t) in c.calls() if (t.get('self_ty') or '').startswith('dashmap::DashMap')]
    ctx.check(len(acc) == 1 and acc[0][2]['callee'].endswith('::entry'), 'R18.a', 'cache/one-entry-call', up, up.loc(0), 'update_threshold performs its read-modify-write through ONE DashMap::entry call',
              'update_threshold calls %d DashMap accessors (%s): the update is not atomic on its key (lost update / self-deadlock)' % (len(acc), [x[2]['callee'].split('::')[-1] for x in acc]))
    if not acc:
        return
    (c0, bb, t) = acc[0]
    ea = [up.origin.operand(x, up.term_point(bb)) for x in t['args']]
    lay = lambda r, i: isinstance(r, tuple) and r[0] == 'index' and M.is_field(r[1], 'thresholds_by_layer', 'SimpleCache') and M.is_param(r[2], index=i)
    ctx.check(lay(ea[0], 2) and M.is_param(ea[1], index=1), 'R18.c', 'cache/update-key', up, up.loc(bb), 'update addresses thresholds_by_layer[depth] at key state', 'update addresses %s / %s' % (M.show(ea[0]), M.show(ea[1])))
    new = lambda x: isinstance(x, tuple) and x[0] == 'aggr' and x[1].endswith('common::Threshold') and M.is_param(dict(x[3])['value'], index=3) and M.is_param(dict(x[3])['explored'], index=4)
    entt = up.origin.call(t, up.term_point(bb))
    am = up.calls_to('and_modify')
    oi = up.calls_to('or_insert', 'or_insert_with')
    vi = [(b2, t2) for (b2, t2) in up.calls_to('insert') if up.origin.operand(t2['args'][0], up.term_point(b2)) == M.simplify_field(M.simplify_variant(entt, 'Vacant'), '0', None)]
    occ_t = M.simplify_field(M.simplify_variant(entt, 'Occupied'), '0', None)
    rets = ret_points(up)
    def arm(name_):
        return [(tb, 0) for bbk in up.live_blocks() if up.term(bbk)['k'] == 'switch' for (tb, lab) in up.succ(bbk)
                if (lambda lit: lit and lit[0] == 'in' and lit[1] == entt and lit[2] == frozenset([name_]))(M.edge_literal(up, bbk, lab))]
    if am or oi:
        # spelling 1: entry(k).and_modify(|e| *e = max(new, *e)).or_insert(new)
        good = len(am) == 1 and len(oi) == 1 and not vi
        if good:
            oia = [up.origin.operand(x, up.term_point(oi[0][0])) for x in oi[0][1]['args']]
            val = oia[1]
            if isinstance(val, tuple) and val and val[0] == 'closure':
                val = _closure_ret(ctx.F, val)
            good = val is not None and new(val) and M.contains(oia[0], lambda x: M.is_call(x, 'and_modify')) and M.contains(oia[0], lambda x: x == entt)
        ctx.check(good, 'R18.b', 'cache/vacant-inserts-new', up, up.loc(0), 'a vacant key receives Threshold{value, explored} built from the parameters', 'or_insert does not store Threshold{value, explored} of the parameters after and_modify')
        mc = [c for c in unit[1:]]
        good = False
        for c in mc:
            for (pt, d, v, s) in writes(c):
                if M.is_param(d, index=1) and d[1] == c.name:
                    cands_ = guarded_update(c, pt, d, v, 'max')        # *e = max(*e, new)  or  if new > *e { *e = new }
                    good = len(cands_) == 1 and new(inline_helpers(ctx.F, cands_[0]))
    else:
        # spelling 2: match entry(k) { Occupied(e) => *e.get_mut() = max(new, *e.get_mut()),  Vacant(e) => e.insert(new) }
        vac, occ = arm('Vacant'), arm('Occupied')
        good = len(vi) == 1 and bool(vac)
        if good:
            va = [up.origin.operand(x, up.term_point(vi[0][0])) for x in vi[0][1]['args']]
            r = up.reach(vac, avoid=[up.term_point(vi[0][0])])
            good = new(va[1]) and not any(p in r for p in rets)
        ctx.check(good, 'R18.b', 'cache/vacant-inserts-new', up, up.loc(0), 'a vacant key receives Threshold{value, explored} built from the parameters (on every path of the Vacant arm)',
                  'the Vacant arm does not store Threshold{value, explored} of the parameters on every path')
        cur = lambda x: M.is_call(x, 'get_mut', 'get', 'into_ref') and x[2][0] == occ_t
        ws = [(pt, d, v) for (pt, d, v, s) in writes(up) if cur(d)]
        good = len(ws) == 1 and bool(occ)
        if good:
            (pt, d, v) = ws[0]
            items = v[1] if isinstance(v, tuple) and v[0] == 'max' else ()
            r = up.reach(occ, avoid=[pt])
            good = len(items) == 2 and any(new(x) for x in items) and any(cur(x) for x in items) and not any(p in r for p in rets)
            if not good:
                cands_ = guarded_update(up, pt, d, v, 'max')
                good = len(cands_) == 1 and new(cands_[0])
    ctx.check(good, 'R18.b', 'cache/update-is-max', up, up.loc(0), 'an occupied key is replaced by Ord::max(new, old) in (value, explored) order: a stored threshold never decreases',
              'the occupied-key update is not *e = max(Threshold{value, explored}, *e) on every path of the occupied case')
    # T11: Threshold derives Ord/PartialOrd with field order (value, explored)
    name, info = ctx.F.adt('common::Threshold')
    fields = [f[0] for f in info['variants'][0]['fields']] if info else []
    derived = {i['trait'] for i in ctx.F.impls if i['self_ty'].endswith('Threshold') and i['auto_derived']}
    ctx.check(fields == ['value', 'explored'] and {'std::cmp::Ord', 'std::cmp::PartialOrd', 'std::cmp::PartialEq', 'std::cmp::Eq'} <= derived, 'R18.b', 'threshold-order', up, up.loc(0),
              'Threshold derives Ord/PartialOrd with field order (value, explored): max = larger value, explored wins ties', 'Threshold is not #[derive(Ord, PartialOrd)] over fields (value, explored) in that order: %s %s' % (fields, sorted(derived)))
    hand = [i for i in ctx.F.impls if i['self_ty'].endswith('common::Threshold') and not i['auto_derived'] and (i['trait'] or '').startswith('std::cmp')]
    ctx.check(not hand, 'R18.b', 'threshold-no-manual-ord', up, up.loc(0), 'no hand-written comparison impl for Threshold', 'Threshold has a hand-written %s impl' % [i['trait'] for i in hand])
    # get_threshold
    g = ctx.body(SC, 'get_threshold', trait='Cache')
    rt = _ret_term(g)
    # the stored value copied out: get(..).as_deref().copied()  |  match get(..) { Some(r) => Some(*r.value() | *r), None => None }
    om = opt_map(rt)
    src = rt
    if om is not None and (om[1] == opt_payload(om[0]) or (M.is_call(om[1], 'value') and om[1][2][0] == opt_payload(om[0]))):
        src = om[0]
    good = M.is_call(src, 'get') and lay(src[2][0], 2) and M.is_param(src[2][1], index=1)
    n_acc = len([1 for (bb_, t_) in g.calls() if (t_.get('self_ty') or '').startswith('dashmap::DashMap')])
    ctx.check(good and n_acc == 1, 'R18.c', 'cache/get', g, g.loc(0), 'get_threshold(s, d) copies the value stored in thresholds_by_layer[d] at s out of the map (one access, no guard escapes)',
              'get_threshold returns %s' % M.show(rt))
    cl = ctx.body(SC, 'clear_layer', trait='Cache')
    cc = cl.calls_to('clear')
    good = len(cc) == 1 and lay(cl.origin.operand(cc[0][1]['args'][0], cl.term_point(cc[0][0])), 1)
    ctx.check(good, 'R18.c', 'cache/clear_layer', cl, cl.loc(0), 'clear_layer(d) clears thresholds_by_layer[d] only', 'clear_layer does not clear exactly thresholds_by_layer[depth]')
    ca = ctx.body(SC, 'clear', trait='Cache')
    # every layer is cleared: an element-wise iteration (for / for_each) over ALL of thresholds_by_layer whose every iteration clears its item
    good = False
    for it in iterations(ctx, ca):
        if not M.is_field(it['src'], 'thresholds_by_layer', 'SimpleCache'):
            continue        # skip / take / filter / a sub-slice are not element-preserving adaptors: src would not be the bare field
        if it['kind'] == 'for_each_fn':
            good = good or (it['fn'].startswith('dashmap::DashMap') and it['fn'].endswith('::clear'))       # .for_each(DashMap::clear)
            continue
        w = it['where']
        cps = [w.term_point(bb) for (bb, t) in w.calls_to('clear') if it['is_item'](w.origin.operand(t['args'][0], w.term_point(bb)))]
        if every_iteration_does(it, cps):
            good = True
    # (or a wholesale re-initialisation is not accepted: other threads hold &self)
    ctx.check(good, 'R18.c', 'cache/clear', ca, ca.loc(0), 'clear() clears every layer', 'clear() does not clear every layer of thresholds_by_layer')
    ini = ctx.body(SC, 'initialize', trait='Cache')
    rng = [x for (bb_, t_) in ini.calls() for x in [ini.origin.call(t_, ini.term_point(bb_))] if M.is_call(x, 'new') and 'RangeInclusive' in x[1]]
    good = any(M.is_const(x[2][0], 0) and M.is_call(x[2][1], 'Problem::nb_variables') for x in rng)
    ps = ini.calls_to('push')
    ctx.check(good and len(ps) == 1, 'R18.c', 'cache/layers', ini, ini.loc(0), 'initialize creates nb_variables + 1 layers (0..=n), like the dominance checker', 'SimpleCache::initialize does not create 0..=nb_variables layers')
    # both stores are used through &self only
    for body in [up, g, cl, ca]:
        ty = body.local_ty(1)
        ctx.check(ty.startswith('&') and not ty.startswith('&mut'), 'R18.e', 'cache/shared-ref/' + body.fn_name, body, body.loc(0), '%s takes &self (usable concurrently; Sync is enforced by rustc)' % body.fn_name, '%s takes %s' % (body.fn_name, ty))


# ------------------------------------------------------------------------------------------------
# R18.a (general form) — no two DashMap accesses with overlapping guard lifetimes in the stores
# ------------------------------------------------------------------------------------------------
def r_dashmap_guards(ctx):
    """A DashMap accessor returns an object that keeps a shard locked (Ref / RefMut / Entry / Iter / RefMulti ..). While such an object
    is alive, a second accessor on a DashMap in the same function may need the same shard: the thread blocks on itself — under the
    solver's critical mutex in the parallel solver, so every worker hangs (C04). The guard's life ends at its Drop terminator or when it
    is moved into a call that does not hand a DashMap object back."""
    n = 0
    for body in ctx.F.bodies.values():
        root = ctx.F.bodies.get(body.root, body) if body.kind == 'closure' else body
        if not (root.name.startswith(('implementation::cache::simple', '<implementation::cache::simple', 'implementation::dominance::simple', '<implementation::dominance::simple'))):
            continue
        acc = [(bb, t) for (bb, t) in body.calls() if (t.get('self_ty') or '').startswith('dashmap::DashMap') and not t['dest']['p']]
        if not acc:
            continue
        ctx.analysed_bodies.add(body.name)
        accp = {body.term_point(bb): t for (bb, t) in acc}
        for (bb, t) in acc:
            n += 1
            live = set()
            gl = t['dest']['l']
            if 'dashmap::' not in (body.raw['locals'][gl].get('ty') or ''):
                continue                    # returns a plain value (len, insert -> Option<V>, clear ..): nothing stays locked
            # follow the guard through moves into calls that return another DashMap object
            guards = {gl}
            todo = [(body.after(body.term_point(bb)), gl)]
            region = set()
            seen_g = set()
            while todo:
                (starts, g) = todo.pop()
                if g in seen_g:
                    continue
                seen_g.add(g)
                ends = []
                for b2 in body.live_blocks():
                    t2 = body.term(b2)
                    if t2['k'] == 'drop' and t2.get('place', {}).get('l') == g and not t2.get('place', {}).get('p'):
                        ends.append(body.term_point(b2))
                    elif t2['k'] == 'call' and any(a_.get('c') == 'move' and a_.get('place', {}).get('l') == g and not a_['place']['p'] for a_ in t2['args']):
                        ends.append(body.term_point(b2))
                        d2 = t2['dest']['l']
                        if not t2['dest']['p'] and 'dashmap::' in (body.raw['locals'][d2].get('ty') or '') and t2.get('target') is not None:
                            todo.append((body.after(body.term_point(b2)), d2))
                    else:
                        for i_, s_ in enumerate(body.stmts(b2)):
                            rv = s_['rv']
                            if s_['k'] == 'assign' and rv.get('k') == 'use' and rv['op'].get('c') == 'move' and rv['op'].get('place', {}).get('l') == g and not rv['op']['place']['p'] and not s_['place']['p']:
                                todo.append(([(b2, i_ + 1)], s_['place']['l']))
                region |= body.reach(starts, avoid=ends)
            clash = [p_ for p_ in accp if p_ in region and p_ != body.term_point(bb)]
            ctx.check(not clash, 'R18.a', 'no-overlapping-dashmap-guards/%s#%d' % (short_name(body), [b_ for (b_, _) in acc].index(bb)), body, body.loc(bb),
                      'no other DashMap access happens while the object returned by this one (which keeps a shard locked) is alive',
                      'a DashMap accessor (%s) runs while the guard returned by %s is still alive: the thread can block on its own shard lock (self-deadlock; under the critical mutex every worker hangs)'
                      % (', '.join((accp[p_].get('callee') or '').split('::')[-1] for p_ in clash), (t.get('callee') or '').split('::')[-1]))
    ctx.floor('R18.a', 'dashmap-accessors', None, n, 6, 'DashMap accessor calls in the two stores')


def short_name(body):
    return (body.fn_name or '?') + ('::closure' if body.kind == 'closure' else '')


# ------------------------------------------------------------------------------------------------
# R01.8 — the "do nothing" components really do nothing: the non-caching / no-dominance / no-cutoff solvers are the reference the
# other configurations are compared with (C09, C10), and every property quantifies over them
# ------------------------------------------------------------------------------------------------
def r_neutral_components(ctx, rule='R01.8'):
    from .dd_rules import _path_ret
    def rets(body):
        out = []
        for (edges, blocks, end) in M.enumerate_paths(body, (0, 0)):
            rt = _path_ret(body, blocks, end)
            if rt is None:
                rb = body.return_blocks()
                rt = body.origin.place({'l': 0, 'p': []}, body.term_point(rb[0])) if rb else None
            for (conds, leaf) in M.cases(rt):
                out.append(leaf)
        return out
    def no_effects(body):
        return not [1 for (pt, d, v, s_) in writes(body)] and not [1 for (bb, t) in body.calls() if not M.is_pure(t.get('callee')) and (t.get('callee') or '').split('::')[-1] not in ('default', 'new', 'deref', 'as_ref', 'clone')]
    ed = ctx.body('empty::EmptyDominanceChecker', 'is_dominated_or_insert', trait='DominanceChecker')
    vals = rets(ed)
    good = bool(vals) and all(isinstance(v, tuple) and v[0] == 'aggr' and v[1].endswith('DominanceCheckResult') and M.is_const(dict(v[3])['dominated'], False) and dict(v[3])['threshold'] == M.MK_NONE for v in vals)
    ctx.check(good and no_effects(ed), rule, 'EmptyDominanceChecker/never-dominated', ed, ed.loc(0), 'EmptyDominanceChecker reports (dominated: false, threshold: None) and stores nothing',
              'EmptyDominanceChecker::is_dominated_or_insert returns %s' % [M.show(v)[:80] for v in vals][:3])
    ec = ctx.body('empty::EmptyDominanceChecker', 'cmp', trait='DominanceChecker')
    vals = rets(ec)
    ctx.check(bool(vals) and all(isinstance(v, tuple) and v[0] == 'aggr' and v[2] == 'Equal' for v in vals), rule, 'EmptyDominanceChecker/cmp-equal', ec, ec.loc(0),
              'EmptyDominanceChecker::cmp ranks every pair Equal (a constant strict answer is not an order: the layer sort may misbehave or panic)', 'EmptyDominanceChecker::cmp returns %s' % [M.show(v)[:60] for v in vals][:3])
    gt = ctx.body('empty::EmptyCache', 'get_threshold', trait='Cache')
    vals = rets(gt)
    ctx.check(bool(vals) and all(v == M.MK_NONE for v in vals), rule, 'EmptyCache/no-threshold', gt, gt.loc(0), 'EmptyCache::get_threshold answers None', 'EmptyCache::get_threshold returns %s' % [M.show(v)[:60] for v in vals][:3])
    for nm in ('update_threshold', 'clear_layer', 'clear'):
        ub_ = ctx.body('empty::EmptyCache', nm, trait='Cache')
        ctx.check(no_effects(ub_), rule, 'EmptyCache/%s-is-a-no-op' % nm, ub_, ub_.loc(0), 'EmptyCache::%s does nothing' % nm, 'EmptyCache::%s has effects' % nm)
    nc = ctx.body('cutoff::NoCutoff', 'must_stop', trait='Cutoff')
    vals = rets(nc)
    ctx.check(bool(vals) and all(M.is_const(v, False) for v in vals), rule, 'NoCutoff/never-stops', nc, nc.loc(0), 'NoCutoff::must_stop answers false', 'NoCutoff::must_stop returns %s' % [M.show(v)[:60] for v in vals][:3])
    fw = ctx.body('width::FixedWidth', 'max_width', trait='WidthHeuristic')
    vals = rets(fw)
    ctx.check(bool(vals) and all(M.is_field(v, '0') and M.is_param(v[1], index=0) for v in vals), rule, 'FixedWidth/returns-its-width', fw, fw.loc(0), 'FixedWidth::max_width returns the configured width', 'FixedWidth::max_width returns %s' % [M.show(v)[:60] for v in vals][:3])
