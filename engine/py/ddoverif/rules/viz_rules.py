"""C20 — as_graphviz: panic-site inventory and its discharge, one emission per visible node, edge label provenance,
terminal faithfulness."""
from .. import mirlib as M
from ..core import MissingAnchor
from .common import *
from .dd_rules import dd_adt, self_field, node_field, id0, dd_unit, TERMINAL, _foreach_over, MUTATORS, short

PANICS = ('std::option::Option::<T>::unwrap', 'std::option::Option::<T>::expect', 'std::result::Result::<T, E>::unwrap', 'std::result::Result::<T, E>::expect',
          'std::rt::begin_panic', 'core::panicking::panic', 'core::panicking::panic_fmt', 'std::rt::panic_fmt', 'core::panicking::unreachable_display',
          'core::panicking::panic_explicit', 'core::option::unwrap_failed', 'core::result::unwrap_failed', 'core::option::expect_failed')


# std functions that panic on a bad position / range argument (byte offsets inside a multi-byte character, indices beyond the length):
# none is used by the visualisation today; a new one reachable from as_graphviz is a new way for it to panic
POSITIONAL = ('std::string::String::truncate', 'std::string::String::insert', 'std::string::String::insert_str', 'std::string::String::remove',
              'std::string::String::drain', 'std::string::String::replace_range', 'std::string::String::split_off',
              'core::str::<impl str>::split_at', 'core::str::<impl str>::split_at_mut',
              'std::vec::Vec::<T, A>::remove', 'std::vec::Vec::<T, A>::insert', 'std::vec::Vec::<T, A>::swap_remove', 'std::vec::Vec::<T, A>::split_off',
              'std::vec::Vec::<T, A>::drain', 'core::slice::<impl [T]>::split_at', 'core::slice::<impl [T]>::split_at_mut', 'core::slice::<impl [T]>::copy_from_slice',
              'core::slice::<impl [T]>::swap', 'core::slice::<impl [T]>::chunks', 'core::slice::<impl [T]>::windows', 'std::iter::Iterator::step_by',
              'core::char::from_digit', 'std::char::from_digit', 'core::slice::<impl [T]>::rotate_left', 'core::slice::<impl [T]>::rotate_right')


def _positional_hazard(t):
    c = t.get('callee') or ''
    if c in POSITIONAL or c.split('::<')[0] in POSITIONAL:
        return c.split('::')[-1]
    last = c.split('::')[-1]
    sty = (t.get('self_ty') or '') + ' ' + ' '.join(t.get('arg_tys') or [])[:200]
    # slicing a str / String by a byte range: <str as Index<Range..>>::index
    if last in ('index', 'index_mut') and (t.get('arg_tys') or [''])[0].replace('&', '').replace('mut ', '').strip() in ('str', 'std::string::String') and 'Range' in sty:
        return 'str[range]'
    return None


def r_viz(ctx):
    F = ctx.F
    for tag, adt in DIAGRAMS:
        g = ctx.body(adt, 'as_graphviz')
        reach = F.reachable_bodies([g])
        reach = [b for b in reach if ('::mdd::' in b.name)]
        for b in reach:
            ctx.analysed_bodies.add(b.name)
        # ---- (a) panic-site inventory --------------------------------------------------------------------
        sites = []
        for b in reach:
            for (bb, t) in b.calls():
                c = t.get('callee') or ''
                if c in PANICS or c.startswith('core::panicking::'):
                    sites.append((b, bb, t))
        for b in reach:
            for (bb, t) in b.calls():
                hz = _positional_hazard(t)
                if hz:
                    ctx.bad('R20.a', '%s/panic-site/%s@%s' % (tag, hz, short(b)), b, b.loc(bb),
                            'a call that panics on a bad position (%s: byte offset inside a character / index beyond the length) is reachable from as_graphviz; user states print through Debug, so no bound on the text is known' % hz)
            for bbk in b.live_blocks():
                t = b.term(bbk)
                msg = (t.get('msg') or '') if t['k'] == 'assert' else ''
                if msg.count('const ') >= 2 and msg.count('move ') + msg.count('copy ') == 0:
                    continue        # both operands are constants: rustc rejects an overflowing constant expression at compile time
                if msg.startswith(('Overflow(Sub', 'Overflow(Neg', 'DivisionByZero', 'RemainderByZero', 'Overflow(Div', 'Overflow(Rem')):
                    ctx.bad('R20.a', '%s/panic-site/%s@%s' % (tag, msg.split('(')[0] + '(' + msg.split('(')[1].split(',')[0] if '(' in msg else msg, short(b)), b, b.loc(bbk),
                            'an arithmetic panic site (%s) is reachable from as_graphviz: totality of the visualisation is no longer covered by the discharged inventory' % msg[:60])
        ctx.ok('R20.a', tag + '/positional-and-arithmetic-panic-sites', g, g.loc(0), 'no position-taking std call (String::truncate, str[range], Vec::remove ..) and no subtraction / division assertion is reachable from as_graphviz')
        expected = []
        for (b, bb, t) in sites:
            arg = b.origin.operand(t['args'][0], b.term_point(bb)) if t['args'] else None
            last_layer = arg is not None and M.is_call(arg, 'last', 'last_key_value') and self_field(arg[2][0], 'layers') and b.fn_name == 'add_terminal_node'
            if last_layer:
                expected.append((b, bb))
                ctx.ok('R20.a', '%s/panic-site/layers.last().unwrap()' % tag, b, b.loc(bb), 'known panic site: the last layer is unwrapped (discharged by "layers is non-empty after a successful compilation")')
            else:
                ctx.bad('R20.a', '%s/panic-site/%s@%s' % (tag, (t.get('callee') or '').split('::')[-1], short(b)), b, b.loc(bb),
                        'a new unwrap/expect/panic site is reachable from as_graphviz (%s on %s): totality of the visualisation is no longer covered by the discharged inventory' % ((t.get('callee') or '').split('::')[-1], M.show(arg)[:120] if arg else '-'))
        # ---- discharge: layers is non-empty at every Ok exit of _compile ---------------------------------------
        cp = ctx.body(adt, '_compile')
        fin = call_points(cp, '_finalize')
        fz = ctx.body(adt, '_finalize')
        fl = ctx.body(adt, '_finalize_layers')
        flc = call_points(fz, '_finalize_layers')
        r = fz.reach([(0, 0)], avoid=flc)
        okf = bool(flc) and bool(fin) and not any(p in r for p in ret_points(fz))
        oks = [(bb, i) for (bb, i, s) in aggr_assigns(cp, 'Result', 'Ok') if s['place']['l'] == 0]
        r = cp.reach([(0, 0)], avoid=fin)
        okf = okf and bool(oks) and not any(p in r for p in oks)
        ctx.check(okf, 'R20.a', tag + '/finalize-layers-on-every-ok-path', cp, cp.loc(0), 'every Ok exit of _compile went through _finalize -> _finalize_layers', 'an Ok exit of _compile does not go through _finalize_layers')
        def layer_adds(body):
            return [body.term_point(bb) for (bb, t) in body.calls_to('push', 'insert') if self_field(body.origin.operand(t['args'][0], body.term_point(bb)), 'layers')]
        la = layer_adds(fl)
        r = fl.reach([(0, 0)], avoid=la)
        uncond = bool(la) and not any(p in r for p in ret_points(fl))
        if uncond:
            ctx.ok('R20.a', tag + '/layers-non-empty', fl, fl.loc(0), '_finalize_layers records a layer unconditionally: layers is non-empty after every successful compilation')
        else:
            # container-emptiness argument (E3d), see DESIGN.md C20
            term_c = TERMINAL[tag]
            mv = ctx.body(adt, '_move_to_next_layer')
            lam = layer_adds(mv)
            r = mv.reach([(0, 0)], avoid=lam)
            c1 = bool(lam) and not any(p in r for p in ret_points(mv))
            # _finalize_layers adds a layer whenever the terminal container is non-empty
            ne = [(tb, 0) for bbk in fl.live_blocks() if fl.term(bbk)['k'] == 'switch' for (tb, lab) in fl.succ(bbk)
                  if (lambda lit: lit and lit[0] == 'F' and M.is_call(lit[1], 'is_empty') and self_field(lit[1][2][0], term_c))(M.edge_literal(fl, bbk, lab))]
            r = fl.reach(ne, avoid=la)
            c2 = bool(ne) and not any(p in r for p in ret_points(fl))
            # ... "whenever": the ONLY reason not to record a layer is an empty terminal container — from the entry, every path that does not
            # cross an edge asserting that the container is empty records one (a further condition, e.g. "a previous layer exists", leaves
            # `layers` empty for a compilation whose loop never ran: a leaf sub-problem)
            empt = set((bbk, lab) for bbk in fl.live_blocks() if fl.term(bbk)['k'] == 'switch' for (tb, lab) in fl.succ(bbk)
                       if (lambda lit: lit and lit[0] == 'T' and M.is_call(lit[1], 'is_empty') and self_field(lit[1][2][0], term_c))(M.edge_literal(fl, bbk, lab)))
            r = fl.reach([(0, 0)], cut_edges=empt, avoid=la)
            c2 = c2 and not any(p in r for p in ret_points(fl))
            # zero-iteration path: the container still holds the root inserted by _initialize
            ini = ctx.body(adt, '_initialize')
            ins = [ini.term_point(bb) for (bb, t) in ini.calls_to('insert') if self_field(ini.origin.operand(t['args'][0], ini.term_point(bb)), term_c)]
            r = ini.reach([(0, 0)], avoid=ins)
            c3 = bool(ins) and not any(p in r for p in ret_points(ini))
            inic = call_points(cp, '_initialize')
            mvc = call_points(cp, '_move_to_next_layer')
            c4 = bool(inic) and bool(mvc) and bool(fin)
            if c4:
                r = cp.reach(cp.after(inic[0]), avoid=mvc)
                for p in r:
                    (pb_, pi_) = p
                    if pi_ == len(cp.stmts(pb_)) and cp.term(pb_)['k'] == 'call' and p not in fin:
                        t = cp.term(pb_)
                        last = (t.get('callee') or '').split('::')[-1]
                        a0 = cp.origin.operand(t['args'][0], p) if t['args'] else None
                        mut_self = t['args'] and t['arg_tys'][0].startswith('&mut') and (M.is_param(a0, index=0) or (a0 is not None and self_field(a0, term_c)))
                        if mut_self and fin[0] in cp.reach(cp.after(p), avoid=mvc):
                            c4 = False
            ctx.check(c1 and c2 and c3 and c4, 'R20.a', tag + '/layers-non-empty', cp, cp.loc(0),
                      'layers is non-empty after every successful compilation: _move_to_next_layer records a layer on both exits; if the loop never ran, the next-layer container still holds the root and _finalize_layers records it',
                      'cannot establish that `layers` is non-empty when as_graphviz unwraps its last element (move-records-layer=%s, finalize-records-when-non-empty=%s, root-inserted=%s, untouched-before-finalize=%s)' % (c1, c2, c3, c4))
        # ---- a copy of a diagram draws like the original: Clone is derived, or copies every field from the same field of self ---------
        name_, info_ = F.adt(adt)
        for im in F.impls:
            if (im.get('self_adt') or '').endswith(adt) and (im.get('trait') or '').endswith('clone::Clone') and not im.get('auto_derived'):
                cb_ = [b_ for b_ in F.bodies.values() if b_.fn_name == 'clone' and (b_.impl_self_adt or '').endswith(adt) and (b_.impl_trait or '').endswith('Clone')]
                good = False
                missing_ = []
                if cb_:
                    ag_ = aggr_assigns(cb_[0], adt)
                    if ag_:
                        v_ = cb_[0].origin.rvalue(ag_[0][2]['rv'], (ag_[0][0], ag_[0][1]))
                        missing_ = [f_ for (f_, t_) in v_[3] if not M.contains(t_, lambda x, f_=f_: self_field(x, f_))]
                        good = not missing_
                ctx.check(good, 'R20.d', tag + '/clone-preserves-every-field', cb_[0] if cb_ else None, cb_[0].loc(0) if cb_ else '-',
                          'the hand-written Clone copies every field of the diagram from the same field of the original',
                          'the hand-written Clone of %s does not copy field(s) %s from the original: a clone no longer draws (or answers) like the diagram it was taken from' % (tag, missing_))
        # ---- (b) each visible node exactly once ------------------------------------------------------------------
        nc = g.calls_to('node')
        nc = [(bb, t) for (bb, t) in nc if (t.get('callee') or '').endswith('::node')]
        ec = [(bb, t) for (bb, t) in g.calls_to('edges_of')]
        nx = [(bb, t) for (bb, t) in g.calls_to('Iterator::next')]
        if ctx.floor('R20.b', tag + '/node-call', g, len(nc), 1, 'call of node(id, config)') and ctx.floor('R20.b', tag + '/edges-call', g, len(ec), 1, 'call of edges_of(id)'):
            (nbb, nt) = nc[0]
            np_ = g.term_point(nbb)
            na = [g.origin.operand(x, np_) for x in nt['args']]
            idt = na[1]
            loop = [(bb, t) for (bb, t) in nx if M.contains(idt, lambda x: x == g.origin.call(t, g.term_point(bb)))]
            good = bool(loop)
            if good:
                (lbb, lt) = loop[0]
                it = g.origin.operand(lt['args'][0], g.term_point(lbb))
                all_nodes = (M.contains(it, lambda x: M.is_call(x, 'enumerate')) and M.contains(it, lambda x: M.is_call(x, 'iter') and self_field(x[2][0], 'nodes'))
                             and not M.contains(it, lambda x: M.is_call(x, 'skip', 'take', 'filter', 'step_by', 'rev'))) or \
                    any(isinstance(x, tuple) and x[0] == 'aggr' and x[1].endswith('Range') and M.is_const(dict(x[3])['start'], 0) and M.is_call(dict(x[3])['end'], 'len') and self_field(dict(x[3])['end'][2][0], 'nodes') for x in M.walk(it))
                ctx.check(all_nodes, 'R20.b', tag + '/loop-over-all-nodes', g, g.loc(lbb), 'the emission loop ranges over every node index', 'the node emission loop iterates %s, not all of self.nodes' % M.show(it)[:160])
                lt_ = g.origin.call(lt, g.term_point(lbb))
                some = [(tb, 0) for bbk in g.live_blocks() if g.term(bbk)['k'] == 'switch' for (tb, lab) in g.succ(bbk)
                        if (lambda lit: lit and lit[0] == 'in' and lit[1] == lt_ and lit[2] == frozenset(['Some']))(M.edge_literal(g, bbk, lab))]
                lp = g.term_point(lbb)
                # the only way to skip a node: !show_deleted && is_deleted(that node)
                idx = idt
                c_a = _cut(g, lambda atoms: any(a[0] == 'F' and M.is_field(a[1], 'show_deleted', 'VizConfig') for a in atoms))
                c_b = _cut(g, lambda atoms: any(a[0] == 'T' and M.is_call(a[1], 'is_deleted') and node_field(a[1][2][0], 'flags') == idx for a in atoms))
                r1 = g.reach(some, cut_edges=c_a, avoid=[np_], stop=[lp])
                r2 = g.reach(some, cut_edges=c_b, avoid=[np_], stop=[lp])
                ctx.check(bool(some) and lp not in r1 and lp not in r2, 'R20.b', tag + '/skip-only-hidden', g, g.loc(nbb),
                          'a node is skipped only on a path asserting !config.show_deleted and is_deleted(that node); every other node is emitted',
                          'a node can be skipped by as_graphviz although it is not hidden by the configuration (!show_deleted && is_deleted)')
                r = g.reach(g.after(np_), stop=[lp])
                ctx.check(np_ not in r, 'R20.b', tag + '/emitted-once', g, g.loc(nbb), 'node(id) is emitted at most once per node', 'node(id) can be emitted twice for one node')
                (ebb, et) = ec[0]
                ea = [g.origin.operand(x, g.term_point(ebb)) for x in et['args']]
                r = g.reach(g.after(np_), avoid=[g.term_point(ebb)], stop=[lp])
                ctx.check(ea[1] == idt and lp not in r, 'R20.b', tag + '/edges-of-emitted-node', g, g.loc(ebb), 'the inbound edges of each emitted node are emitted (same id), and only of emitted nodes',
                          'edges_of is not called for exactly the emitted node')
            else:
                ctx.bad('R20.b', tag + '/loop', g, g.loc(nbb), 'cannot find the loop providing the node id')
        # ---- (c) edge labels ---------------------------------------------------------------------------------------
        eo = ctx.body(adt, 'edges_of')
        ecl = [(c, bb, t) for c in ctx.unit(eo) for (bb, t) in c.calls() if (t.get('callee') or '').endswith('::edge') and len(t['args']) == 5]
        if ctx.floor('R20.c', tag + '/edge-call', eo, len(ecl), 1, 'call of edge(from, to, decision, cost, is_best)'):
            (c, bb, t) = ecl[0]
            a = [c.origin.operand(x, c.term_point(bb)) for x in t['args']]
            ep = lambda x, f: M.is_field(x, f, 'Edge') and M.is_param(x[1]) and x[1][1] == c.name
            un0 = lambda x: x[1] if M.is_field(x, '0') else x          # from / to as ids (edge.from) or as plain indices (edge.from.0)
            good = ep(un0(a[0]), 'from') and ep(un0(a[1]), 'to') and ep(a[2], 'decision') and ep(a[3], 'cost') and \
                un0(a[0])[1] == un0(a[1])[1] == a[2][1] == a[3][1]
            ctx.check(good, 'R20.c', tag + '/edge-fields', c, c.loc(bb), 'edge(from, to, decision, cost) receives the four fields of one Edge value', 'edge() receives (%s)' % ', '.join(M.show(x) for x in a[:4]))
            idp = ('param', eo.name, 1, 'id')
            over = _foreach_over(ctx, eo, c, None) if c.kind == 'closure' else False
            # the list iterated is the inbound list of nodes[id]
            ok_list = False
            for (b2, t2) in eo.calls_to('call_mut'):
                aa = [eo.origin.operand(x, eo.term_point(b2)) for x in t2['args']]
                heads = [x for x in M.walk(aa[1]) if M.is_field(x, 'head')]
                if heads:
                    lst = heads[0][1][1]
                    lv = lst[2][1] if M.is_field(lst[2], '0') else lst[2]
                    defs = var_def_terms(eo, lv)
                    ok_list = any(node_field(d, 'inbound') is not None and M.is_param(node_field(d, 'inbound'), index=1) for d in defs)
            ctx.check(over and ok_list, 'R20.c', tag + '/edges-are-inbound-list', eo, eo.loc(0), 'the edges drawn for node id are exactly the cells of nodes[id].inbound', 'edges_of does not walk the inbound list of the node it is asked about')
        eb = ctx.body(adt, 'edge')
        # decision variable / value / cost appear in the label
        used = set()
        for bb in eb.live_blocks():
            for (i, s) in enumerate(eb.stmts(bb)):
                if s['k'] == 'assign':
                    for x in M.walk(eb.origin.rvalue(s['rv'], (bb, i))):
                        if M.is_param(x):
                            used.add(x[2])
            t = eb.term(bb)
            if t['k'] == 'call':
                for a_ in t['args']:
                    for x in M.walk(eb.origin.operand(a_, eb.term_point(bb))):
                        if M.is_param(x):
                            used.add(x[2])
        ctx.check({0, 1, 2, 3, 4} <= used, 'R20.c', tag + '/edge-label-uses-all', eb, eb.loc(0), 'edge() uses from, to, decision, cost and is_best in its output', 'edge() ignores parameter(s) %s' % sorted({0, 1, 2, 3, 4} - used))
        # ---- (d) terminal faithfulness -------------------------------------------------------------------------------
        tb_ = ctx.body(adt, 'add_terminal_node')
        emits = [tb_.term_point(bb) for (bb, t) in tb_.calls_to('push_str')]
        if ctx.floor('R20.d', tag + '/emission', tb_, len(emits), 1, 'emission in add_terminal_node'):
            term_c = TERMINAL[tag]
            def acc(atoms, lit):
                for a in atoms:
                    if a[0] == 'F' and M.is_call(a[1], 'is_empty') and self_field(a[1][2][0], term_c):
                        return True
                    if opt_is(a, lambda x: self_field(x, 'best_node'), 'Some'):
                        return True
                return False
            ok, cut, bad = M.guarded(tb_, emits, acc)
            how = 'the terminal container (%s) / best_node is tested' % term_c
            if not ok:
                # accepted alternative: the last layer is tested and _finalize_layers records the terminal container as last layer on EVERY path
                def acc2(atoms, lit):
                    for a in atoms:
                        if a[0] == 'F' and M.is_call(a[1], 'is_empty') and M.contains(a[1][2][0], lambda x: M.is_call(x, 'last', 'last_key_value') and self_field(x[2][0], 'layers')):
                            return True
                        if a[0] == 'cmp' and a[3] == frozenset('<>') and M.contains(a[1], lambda x: M.is_call(x, 'last') and self_field(x[2][0], 'layers')):
                            return True
                    return False
                ok2, cut2, bad2 = M.guarded(tb_, emits, acc2)
                la = [fl.term_point(bb) for (bb, t) in fl.calls_to('push', 'insert') if self_field(fl.origin.operand(t['args'][0], fl.term_point(bb)), 'layers')]
                r = fl.reach([(0, 0)], avoid=la)
                always = bool(la) and not any(p in r for p in ret_points(fl))
                # ... and that layer must provably BE the terminal container (Pooled records the pool's node list; a layer
                # encoded as an index range over `nodes` is not tied to the container and is not accepted)
                content_ok = False
                if tag == 'Pooled':
                    from .dd_rules import r_pooled_layers
                    from ..core import Ctx
                    sub = Ctx(ctx.F, ctx.config, ctx.prop, ctx.tier)
                    try:
                        r_pooled_layers(sub)
                        content_ok = any(r_['instance'] == 'terminal-layer' and r_['verdict'] == 'holds' for r_ in sub.results)
                    except Exception:
                        content_ok = False
                ok = ok2 and always and content_ok
                how = 'the last layer is tested and _finalize_layers records the terminal container as the last layer on every path'
            ctx.check(ok, 'R20.d', tag + '/terminal-iff-last-layer-non-empty', tb_, tb_.loc(emits[0][0]),
                      'the terminal node is drawn only when the terminal container is non-empty (%s)' % how,
                      '%s::add_terminal_node can draw the terminal node although the terminal container (%s) is empty: the last recorded layer is not necessarily the terminal layer '
                      '(it is recorded only when %s is non-empty)' % (tag, term_c, term_c))
            # and it IS drawn when non-empty: from the accepting edges every path emits
        # as_graphviz ends with the terminal
        at = call_points(g, 'add_terminal_node')
        r = g.reach([(0, 0)], avoid=at)
        ctx.check(bool(at) and not any(p in r for p in ret_points(g)), 'R20.d', tag + '/terminal-always-considered', g, g.loc(0), 'as_graphviz calls add_terminal_node on every path', 'as_graphviz can return without add_terminal_node')


def _cut(body, pred):
    cut = set()
    for b in body.live_blocks():
        if body.term(b)['k'] == 'switch':
            for (tb, lab) in body.succ(b):
                lit = M.edge_literal(body, b, lab)
                if lit is not None and pred(M.lit_atoms(lit)):
                    cut.add((b, lab))
    return cut


# ------------------------------------------------------------------------------------------------------------------------------------
# R20.a (indexing) — every index used on nodes / edges / edgelists while drawing is an id the diagram created itself, or a position of a
# loop over the vector / over a recorded layer; ids are created from len() immediately before the matching push; the vectors only shrink
# in _clear. Together: no bounds-check panic in as_graphviz.
# ------------------------------------------------------------------------------------------------------------------------------------
ID_ADTS = ('::NodeId', '::EdgeId', '::EdgesListId')
STORED_IN = ('::Edge', '::Node', '::EdgesList', '::Layer')
VECS = ('nodes', 'edges', 'edgelists')
SHRINKERS = ('clear', 'truncate', 'pop', 'remove', 'swap_remove', 'drain', 'retain', 'split_off', 'set_len', 'resize', 'dedup')


def _is_len_of_vec(t):
    return M.is_call(t, 'len') and any(self_field(t[2][0], v) for v in VECS)


def _layer_bound(t):
    return M.is_const(t, 0) or _is_len_of_vec(t) or (isinstance(t, tuple) and t and t[0] == 'field' and len(t) == 4 and t[2] in ('from', 'to') and (t[3] or '').endswith('::Layer'))


def _loop_position(t):
    """t is the item of a loop over positions that exist: enumerate index over self.nodes, a Range between valid bounds"""
    if not (isinstance(t, tuple) and M.contains(t, lambda x: M.is_call(x, 'Iterator::next'))):
        return False
    if M.is_field(t, '0') and M.contains(t, lambda x: M.is_call(x, 'enumerate')) and M.contains(t, lambda x: M.is_call(x, 'iter', 'iter_mut') and any(self_field(x[2][0], v) for v in VECS)) \
            and not M.contains(t, lambda x: M.is_call(x, 'skip', 'rev', 'zip', 'chain', 'step_by')):
        return True
    rngs = [x for x in M.walk(t) if isinstance(x, tuple) and x and x[0] == 'aggr' and x[1].endswith('Range')]
    if rngs:
        f = dict(rngs[0][3])
        return _layer_bound(f.get('start')) and _layer_bound(f.get('end'))
    return False


def _stored_id(t):
    """t reads an id out of the diagram's own structures (arc endpoints, best edge, inbound list, list cells, layer members, pool / cut-set)"""
    return isinstance(t, tuple) and M.contains(t, lambda x: isinstance(x, tuple) and x and x[0] == 'field' and len(x) == 4 and (x[3] or '').endswith(STORED_IN)) or \
        M.contains(t, lambda x: any(self_field(x, f) for f in ('pool', 'next_l', 'cutset', 'best_node', 'best_exact_node', 'layers')))


def _ok_index(ctx, body, t, depth=0):
    if depth > 4 or not isinstance(t, tuple) or not t:
        return False
    if t[0] == 'aggr' and t[1].endswith(('Range', 'RangeInclusive', 'RangeTo', 'RangeFrom')):
        f = dict(t[3])
        return all(_layer_bound(v) for v in f.values()) and not t[1].endswith('RangeInclusive')
    if _loop_position(t):
        return True
    x = t[1] if M.is_field(t, '0') else t
    if _loop_position(x):
        return True
    if isinstance(x, tuple) and x and x[0] == 'aggr' and x[1].endswith(ID_ADTS):
        return _ok_index(ctx, body, x[3][0][1], depth + 1)
    if _stored_id(x):
        return True
    if isinstance(x, tuple) and x and x[0] == 'var':
        ds = var_def_terms(body, x)
        return bool(ds) and all(_ok_index(ctx, body, d, depth + 1) or _stored_id(d) for d in ds)
    if M.is_param(x):
        pb = ctx.F.bodies.get(x[1])         # the body's own parameter, or (closure upvar) a parameter of an enclosing function
        if pb is None:
            return False
        if pb.kind == 'closure':
            # the element handed to a closure by an iteration over stored ids (foreach! / iter().for_each / map)
            return True
        sites = _sites_with_bodies(ctx, pb, x)
        return bool(sites) and all(_ok_index(ctx, cb_, a_, depth + 1) for (cb_, a_) in sites)
    return False


def _sites_with_bodies(ctx, body, term):
    out = []
    for cb in ctx.F.bodies.values():
        for (bb, t) in cb.calls():
            if (t.get('callee') == body.name or t.get('resolved') == body.name) and term[2] < len(t['args']):
                out.append((cb, cb.origin.operand(t['args'][term[2]], cb.term_point(bb))))
    return out


def r_viz_indexing(ctx):
    F = ctx.F
    for tag, adt in DIAGRAMS:
        g = ctx.body(adt, 'as_graphviz')
        reach = [b for b in F.reachable_bodies([g]) if '::mdd::' in b.name]
        n = 0
        for b in reach:
            for (bb, t) in b.calls_to('index', 'index_mut'):
                a = [b.origin.operand(x, b.term_point(bb)) for x in t['args']]
                if len(a) != 2 or not any(self_field(a[0], v) for v in VECS):
                    continue
                n += 1
                ctx.check(_ok_index(ctx, b, a[1]), 'R20.a', '%s/index-in-range/%s#%d' % (tag, short(b), n), b, b.loc(bb),
                          'the position used on %s is an id created by the diagram, or a position of a loop over the vector / a recorded layer' % M.show(a[0]),
                          '%s[%s]: the position is neither an id stored in the diagram nor a loop position over the vector or a recorded layer — a bounds-check panic in as_graphviz is not excluded' % (M.show(a[0]), M.show(a[1])[:120]))
        ctx.floor('R20.a', tag + '/index-sites', g, n, 6, 'index operations on nodes / edges / edgelists reachable from as_graphviz')
        # ids are created from len() of their vector (or 0, or a loop position), and the push follows on every path
        unit = dd_unit(ctx, tag)
        m = 0
        for b in unit:
            for (bb, i, s) in b.assigns(lambda s: s['rv']['k'] == 'aggr' and (s['rv'].get('adt') or '').endswith(ID_ADTS)):
                v = b.origin.rvalue(s['rv'], (bb, i))
                x = v[3][0][1]
                m += 1
                if M.is_const(x) or _loop_position(x) or _loop_position(('field', x, '0', None)) or _stored_id(x) or M.is_param(x):
                    continue
                if isinstance(x, tuple) and x and x[0] == 'sub' and M.is_call(x[1], 'len') and self_field(x[1][2][0], 'layers'):
                    continue            # LayerId(layers.len() - 1): an index into `layers`, not into the drawn vectors
                if v[1].endswith('::LayerId') and (M.is_call(x, 'len') or M.contains(x, lambda y: self_field(y, 'layers') or self_field(y, 'lel'))):
                    continue
                good = _is_len_of_vec(x)
                if good:
                    vec = [vn for vn in VECS if self_field(x[2][0], vn)][0]
                    site = x[3]
                    if site is not None and site[0] == b.name:
                        lp = b.term_point(site[1])
                        pushes = [b.term_point(b2) for (b2, t2) in b.calls_to('push') if self_field(b.origin.operand(t2['args'][0], b.term_point(b2)), vec)]
                        r = b.reach(b.after(lp), avoid=pushes)
                        good = bool(pushes) and not any(p in r for p in ret_points(b))
                        if not good:
                            # or the id is used only where the vector is known to have grown past it: `if self.nodes.len() > len { .. NodeId(len) }`
                            good, _, _ = M.guarded(b, [(bb, i)], lambda atoms, lit: any(M.cmp_matches(a_, lambda t_: _is_len_of_vec(t_) and self_field(t_[2][0], vec), lambda t_: t_ == x, '>') for a_ in atoms))
                ctx.check(good, 'R20.a', '%s/id-created-from-len-then-push/%s' % (tag, short(b)), b, b.loc(bb, i),
                          'an id is the length of its vector taken before the push that follows on every path',
                          'the id %s is not len() of nodes / edges / edgelists followed by a push on every path (a dangling id indexes out of bounds later)' % M.show(v)[:120])
        ctx.floor('R20.a', tag + '/id-constructions', None, m, 4, 'constructions of NodeId / EdgeId / EdgesListId in the diagram')
        # the vectors shrink in _clear only
        for b in unit:
            for (bb, t) in b.calls():
                last = (t.get('callee') or '').split('::')[-1]
                if last in SHRINKERS and t['args']:
                    rcv = b.origin.operand(t['args'][0], b.term_point(bb))
                    if any(self_field(rcv, vn) for vn in VECS):
                        root = F.bodies.get(b.root, b) if b.kind == 'closure' else b
                        ctx.check(root.fn_name in ('_clear', 'new', 'default'), 'R20.a', '%s/vectors-shrink-in-clear-only/%s' % (tag, short(root)), b, b.loc(bb),
                                  'nodes / edges / edgelists shrink in _clear only', '%s shrinks %s (%s): ids handed out earlier may index out of bounds' % (root.fn_name, M.show(rcv), last))


def r_viz_escaping(ctx):
    """R20.e — well-formedness, user text: the Debug / Display rendering of a value of the user's state type (any type that mentions a
    generic type parameter) reaches the String returned by as_graphviz only through an escaping of the double quote and of the
    backslash (the label is written between double quotes; a bare quote ends the DOT string, a backslash in front of the closing quote
    swallows it). Decided by a forward taint analysis (taint.py) from the formatting sites to the return of as_graphviz, through every
    crate-local callee."""
    from ..taint import Taint
    F = ctx.F
    for tag, adt in DIAGRAMS:
        g = ctx.body(adt, 'as_graphviz')
        T = Taint(F)
        w = T.summary(g)
        for n in T.bodies:
            ctx.analysed_bodies.add(n)
        if not ctx.floor('R20.e', tag + '/user-text-sources', g, len(T.sources), 1, 'formatting site(s) of user state text reachable from as_graphviz'):
            continue
        ctx.stats['call_sites'] += len(T.sources)
        why = ''
        if w:
            bits = w[0]
            why = ('the quote is escaped with a backslash although the backslashes of the text were not doubled first (an existing `\\"` becomes `\\\\"`, which ends the string)' if 'X' in bits else
                   ' and '.join(x for x in (('a bare double quote' if 'Q' in bits else ''), ('a bare backslash' if 'B' in bits else '')) if x) + ' can reach the output')
        ctx.check(w is None, 'R20.e', tag + '/user-text-is-escaped', g, g.loc(0),
                  'user text (%d formatting site(s): %s) reaches the DOT output only through an escaping of `"` and `\\` (%d functions followed)' % (
                      len(T.sources), ', '.join(sorted(x[1] for x in T.sources))[:120], len(T.bodies)),
                  'user text (%s) flows into the String returned by as_graphviz unescaped: %s — a state whose Debug form contains a double quote (any String / &str field) '
                  'yields a DOT file that is not well formed' % (w[1] if w else '-', why))
