"""C13 (c) — width-heuristic combinators never yield 0: lower-bound interval domain on the returned term."""
from .. import mirlib as M
from ..core import MissingAnchor
from .common import *
from .dd_rules import _path_ret


def lower_bound(t, atoms):
    """a sound lower bound (usize) of term t on a path asserting `atoms`"""
    if not isinstance(t, tuple):
        return 0
    best = 0
    for a in atoms:   # refinements:  t > 0, t != 0, t >= k
        if a[0] == 'cmp':
            if a[1] == t and M.is_const(a[2]) and isinstance(a[2][1], int):
                k = a[2][1]
                if a[3] <= frozenset('>'):
                    best = max(best, k + 1)
                elif a[3] <= frozenset('>='):
                    best = max(best, k)
                elif a[3] == frozenset('<>') and k == 0:
                    best = max(best, 1)
            if a[2] == t and M.is_const(a[1]) and isinstance(a[1][1], int):
                k = a[1][1]
                if a[3] <= frozenset('<'):
                    best = max(best, k + 1)
                elif a[3] <= frozenset('<='):
                    best = max(best, k)
                elif a[3] == frozenset('<>') and k == 0:
                    best = max(best, 1)
    k = t[0]
    if k == 'const' and isinstance(t[1], int) and not isinstance(t[1], bool):
        return max(best, t[1])
    if k == 'ite' and len(t) == 4:
        # if c { a } else { b }: each arm under its own condition
        return max(best, min(lower_bound(t[2], list(atoms) + M.lit_atoms(t[1])), lower_bound(t[3], list(atoms) + M.lit_atoms(('not', t[1])))))
    if k == 'max':
        return max(best, max(lower_bound(x, atoms) for x in t[1]))
    if k == 'min':
        return max(best, min(lower_bound(x, atoms) for x in t[1]))
    if k == 'add':
        return max(best, sum(lower_bound(x, atoms) for x in t[1]))
    if k == 'bin' and t[1] == 'Mul':
        return max(best, lower_bound(t[2], atoms) * lower_bound(t[3], atoms))
    if k == 'call' and isinstance(t[1], str):
        last = t[1].split('::')[-1]
        if last == 'clamp' and len(t[2]) == 3:
            return max(best, lower_bound(t[2][1], atoms))
        if last in ('get',) and 'NonZero' in t[1]:
            return max(best, 1)
        if last == 'saturating_add' and len(t[2]) == 2:
            return max(best, lower_bound(t[2][0], atoms) + lower_bound(t[2][1], atoms))
        if last == 'saturating_mul' and len(t[2]) == 2:
            return max(best, lower_bound(t[2][0], atoms) * lower_bound(t[2][1], atoms))
    if k == 'cast':
        return max(best, lower_bound(t[2], atoms)) if t[1] in ('usize', 'u64', 'u128') else best
    return best


def r_width_combinators(ctx, rule='R13.c'):
    F = ctx.F
    bodies = [b for b in F.bodies.values() if b.fn_name == 'max_width' and b.kind != 'closure' and (b.impl_trait or '').endswith('WidthHeuristic')]
    combos = []
    for b in bodies:
        inner = [(bb, t) for (bb, t) in b.calls_to('WidthHeuristic::max_width')]
        if inner:
            combos.append(b)
    ctx.floor(rule, 'combinators', None, len(combos), 2, 'width-heuristic combinators (impls that call another WidthHeuristic)')
    for b in combos:
        ctx.analysed_bodies.add(b.name)
        who = (b.impl_self_adt or '?').split('::')[-1]
        worst = None
        n = 0
        for (edges, blocks, end) in M.enumerate_paths(b, (0, 0)):
            atoms = M.path_atoms(b, edges)
            if not M.consistent(atoms):
                continue
            n += 1
            rt = _path_ret(b, blocks, end)
            if rt is None:
                rets = b.return_blocks()
                rt = b.origin.place({'l': 0, 'p': []}, b.term_point(rets[0])) if rets else None
            lbv = lower_bound(rt, atoms) if rt is not None else 0
            if worst is None or lbv < worst[0]:
                worst = (lbv, rt)
        ctx.stats['paths'] += n
        ctx.check(worst is not None and worst[0] >= 1, rule, 'never-zero/' + who, b, b.loc(0), '%s::max_width returns a value >= 1 on each of its %d paths (%s)' % (who, n, M.show(worst[1])[:120] if worst else '-'),
                  '%s::max_width can return 0 (lower bound of `%s` is %d): a zero width makes max_width - 1 underflow in the relaxed squash' % (who, M.show(worst[1])[:160] if worst else '-', worst[0] if worst else 0))
