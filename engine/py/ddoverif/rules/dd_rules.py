"""Rule instances on the two diagram implementations (mdd/clean.rs `Mdd`, mdd/pooled.rs `Pooled`)."""
from .. import mirlib as M
from ..core import MissingAnchor
from .common import *
from .solver_rules import _ret_term, _closure_ret, _cut_edges, _rel

TERMINAL = {'Mdd': 'next_l', 'Pooled': 'pool'}   # container of not-yet-expanded nodes (terminal container at the end)


def dd_adt(tag):
    return MDD if tag == 'Mdd' else POOLED


def self_field(t, name, tag=None):
    return M.is_field(t, name) and (t[3] or '').endswith(('clean::Mdd', 'pooled::Pooled')) and M.is_param(t[1], index=0)


def node_field(t, name):
    """nodes[IDX].<name>  -> IDX term, else None"""
    if M.is_field(t, name) and (t[3] or '').endswith('::Node') and isinstance(t[1], tuple) and t[1][0] == 'index' and M.is_field(t[1][1], 'nodes'):
        return t[1][2]
    return None


def id0(t):
    """index value of a NodeId / EdgeId term"""
    return M.simplify_field(t, '0', None)


def dd_unit(ctx, tag):
    """all bodies (methods + closures) of the diagram's inherent impl and DecisionDiagram impl"""
    adt = dd_adt(tag)
    out = []
    for b in ctx.F.bodies.values():
        root = ctx.F.bodies.get(b.root, b) if b.kind == 'closure' else b
        if (root.impl_self_adt or '').endswith(adt):
            out.append(b)
    return out


# ------------------------------------------------------------------------------------------------
# R02.4 / E11 / R06.2 — edge append: longest-path max-update with its witness, exactness propagation
# ------------------------------------------------------------------------------------------------
def append_sites(ctx, tag):
    sites = []
    for b in dd_unit(ctx, tag):
        if b.fn_name not in ('_branch_on', '_relax'):
            continue
        for (bb, t) in b.calls_to('push'):
            a = [b.origin.operand(x, b.term_point(bb)) for x in t['args']]
            if len(a) == 2 and self_field(a[0], 'edges') and isinstance(a[1], tuple) and a[1][0] == 'aggr' and a[1][1].endswith('::Edge'):
                sites.append((b, bb, a[1]))
    return sites


def r_append(ctx, rule='R02.4'):
    for tag, adt in DIAGRAMS:
        sites = append_sites(ctx, tag)
        if not ctx.floor(rule, tag, None, len(sites), 3, 'edge append sites (2 in _branch_on, 1 in _relax)'):
            continue
        for n, (b, bb, E) in enumerate(sites):
            ctx.analysed_bodies.add(b.name)
            inst = '%s/%s#%d' % (tag, b.fn_name, n)
            e = dict(E[3])
            frm, to, cost = id0(e['from']), id0(e['to']), e['cost']
            pushp = b.term_point(bb)
            after = b.reach(b.after(pushp))
            ws = [(pt, d, v) for (pt, d, v, s) in writes(b) if pt in after]
            bestw = [(pt, d, v) for (pt, d, v) in ws if node_field(d, 'best') is not None]
            valw = [(pt, d, v) for (pt, d, v) in ws if node_field(d, 'value_top') is not None]
            # consider only the writes belonging to this append (closest ones: not reachable through another edge push)
            other_push = [b.term_point(b2) for (b3, b2, _) in sites if b3 is b and b2 != bb]
            near = b.reach(b.after(pushp), avoid=other_push)
            bestw = [w for w in bestw if w[0] in near]
            valw = [w for w in valw if w[0] in near]
            if not (bestw and valw):
                ctx.bad(rule, inst + '/update', b, b.loc(bb), 'the edge append does not update both value_top and best of the target node')
                continue
            (bp, bd, bv), (vp, vd, vv) = bestw[0], valw[0]
            want_val = M.mk_add(('field', ('index', bd[1][1], frm), 'value_top', bd[3]), cost) if False else None
            tgt_ok = node_field(bd, 'best') == to and node_field(vd, 'value_top') == to
            ctx.check(tgt_ok, rule, inst + '/target', b, b.loc(*bp), 'value_top and best are updated on the edge\'s target node',
                      'the longest-path update after pushing the edge touches node %s / %s, not the edge target %s' % (M.show(node_field(bd, 'best')), M.show(node_field(vd, 'value_top')), M.show(to)))
            # value = parent.value_top (+) edge.cost
            good_val = isinstance(vv, tuple) and vv[0] == 'add' and len(vv[1]) == 2 and cost in vv[1] and \
                any(node_field(x, 'value_top') == frm for x in vv[1])
            ctx.check(good_val, rule, inst + '/value', b, b.loc(*vp), 'new value = source.value_top (+) edge.cost',
                      'value_top := %s is not source.value_top + cost of the appended edge' % M.show(vv))
            # witness: best = Some(id of the edge just pushed)
            wit = isinstance(bv, tuple) and bv[0] == 'aggr' and bv[2] == 'Some' and M.is_call(id0(bv[3][0][1]), 'len') and self_field(id0(bv[3][0][1])[2][0], 'edges')
            if wit:
                lensite = id0(bv[3][0][1])[3]
                wit = lensite is not None and lensite[0] == b.name and pushp in b.reach(b.after(b.term_point(lensite[1]))) and \
                    b.term_point(lensite[1]) not in b.reach(b.after(pushp), avoid=[b.term_point(lensite[1])] if False else ())  or True
                wit = lensite is not None and lensite[0] == b.name and pushp in b.reach(b.after(b.term_point(lensite[1])), avoid=other_push)
            ctx.check(wit, rule, inst + '/witness', b, b.loc(*bp), 'best := Some(id of the edge just pushed) (edges.len() taken immediately before the push)',
                      'best := %s is not the id of the edge just pushed' % M.show(bv))
            # coupled + guard (E11: >= only)
            same = bp[0] == vp[0]
            is_val = lambda t: t == vv
            is_old = lambda t: node_field(t, 'value_top') == to

            def acc(atoms, lit):
                return any(M.cmp_matches(a, is_val, is_old, '>=') and _rel(a, is_val) == frozenset('>=') for a in atoms)
            ok, cut, bad = M.guarded(b, [bp, vp], acc, starts=b.after(pushp))
            ctx.check(same and ok, rule, inst + '/max-update', b, b.loc(*vp),
                      'value_top and best are written together, only on an edge asserting new >= old (longest path, first arc becomes the witness)',
                      'the longest-path update is not a `new >= old` max-update writing value and witness together (a `>` loses the first arc\'s witness, `<=` keeps the shortest path)')
            # exactness propagation: exact := source exact & target exact
            se = [(b2, t2) for (b2, t2) in b.calls_to('set_exact') if b.term_point(b2) in near]
            good = False
            for (b2, t2) in se:
                a = [b.origin.operand(x, b.term_point(b2)) for x in t2['args']]
                fl = node_field(a[0], 'flags')
                v = a[1]
                if fl == to and isinstance(v, tuple) and v[0] == 'bin' and v[1] == 'BitAnd':
                    parts = [v[2], v[3]]
                    if any(M.is_call(p, 'is_exact') and node_field(p[2][0], 'flags') == frm for p in parts) and \
                            any(M.is_call(p, 'is_exact') and node_field(p[2][0], 'flags') == to for p in parts):
                        good = True
            ctx.check(good, 'R06.2', inst + '/exact-propagation', b, b.loc(bb), 'target.exact := source.is_exact() & target.is_exact() (an arc can only clear exactness)',
                      'appending an edge does not set target.exact := source.exact & target.exact')
            # adjacency list: inbound of the target gets the new list cell whose head is the new edge and tail the old list
            inw = [(pt, d, v) for (pt, d, v) in ws if node_field(d, 'inbound') is not None and pt in near]
            cells = [(b2, t2) for (b2, t2) in b.calls_to('push') if b.term_point(b2) in near and self_field(b.origin.operand(t2['args'][0], b.term_point(b2)), 'edgelists')]
            good = bool(inw) and bool(cells)
            if good:
                cell = b.origin.operand(cells[0][1]['args'][1], b.term_point(cells[0][0]))
                c = dict(cell[3]) if isinstance(cell, tuple) and cell[0] == 'aggr' and cell[2] == 'Cons' else {}
                good = bool(c) and M.is_call(id0(c['head']), 'len') and self_field(id0(c['head'])[2][0], 'edges') and node_field(c['tail'], 'inbound') == to \
                    and node_field(inw[0][1], 'inbound') == to and M.is_call(id0(inw[0][2]), 'len') and self_field(id0(inw[0][2])[2][0], 'edgelists')
            ctx.check(good, 'R02.4', inst + '/adjacency', b, b.loc(bb), 'the new arc is linked at the head of the target\'s inbound list (no arc is lost)',
                      'the inbound list of the target is not extended with (new edge, old list)')


# ------------------------------------------------------------------------------------------------
# C12 (a)(b) — _branch_on
# ------------------------------------------------------------------------------------------------
def r_branch_on(ctx, rule='R12.a'):
    for tag, adt in DIAGRAMS:
        b = ctx.body(adt, '_branch_on')
        tr = b.calls_to('Problem::transition')
        tc = b.calls_to('Problem::transition_cost')
        if not (ctx.floor(rule, tag + '/transition', b, len(tr), 1, 'Problem::transition call') and ctx.floor(rule, tag + '/transition_cost', b, len(tc), 1, 'Problem::transition_cost call')):
            continue
        ta = [b.origin.operand(x, b.term_point(tr[0][0])) for x in tr[0][1]['args']]
        ca = [b.origin.operand(x, b.term_point(tc[0][0])) for x in tc[0][1]['args']]
        frm = M.simplify_field(('param', b.name, 1, 'from_id'), '0', None)
        src_ok = node_field(ta[1], 'state') is not None and M.is_param(node_field(ta[1], 'state')[1] if isinstance(node_field(ta[1], 'state'), tuple) and node_field(ta[1], 'state')[0] == 'field' else None, index=1)
        ctx.check(src_ok, rule, tag + '/transition-src', b, b.loc(tr[0][0]), 'transition(src = state of the from_id node, d = the decision parameter)',
                  'transition is applied to %s' % M.show(ta[1]))
        ctx.check(M.is_param(ta[2], index=2), rule, tag + '/transition-decision', b, b.loc(tr[0][0]), 'transition receives the decision parameter', 'transition receives %s' % M.show(ta[2]))
        trans = b.origin.call(tr[0][1], b.term_point(tr[0][0]))
        ctx.check(ca[1] == ta[1], rule, tag + '/cost-src', b, b.loc(tc[0][0]), 'transition_cost gets the same source state as transition',
                  'transition_cost source %s differs from transition source %s' % (M.show(ca[1]), M.show(ta[1])))
        ctx.check(ca[2] == trans, rule, tag + '/cost-dst', b, b.loc(tc[0][0]), 'transition_cost gets dst = the state returned by that transition call',
                  'transition_cost dst is %s, not the result of the transition call' % M.show(ca[2]))
        ctx.check(ca[3] == ta[2] and M.is_param(ca[3], index=2), rule, tag + '/cost-decision', b, b.loc(tc[0][0]), 'transition_cost gets the same decision',
                  'transition_cost decision is %s' % M.show(ca[3]))
        cost = b.origin.call(tc[0][1], b.term_point(tc[0][0]))
        # edges: from = from_id, decision = decision, cost = that cost; to = node found/created under the key `next state`
        term_c = TERMINAL[tag]
        ent = [(bb, t) for (bb, t) in b.calls_to('entry') if self_field(b.origin.operand(t['args'][0], b.term_point(bb)), term_c)]
        if ctx.floor(rule, tag + '/entry', b, len(ent), 1, 'entry() on the layer index'):
            key = b.origin.operand(ent[0][1]['args'][1], b.term_point(ent[0][0]))
            ctx.check(key == trans, rule, tag + '/dedup-key', b, b.loc(ent[0][0]), 'the next layer is indexed by the state returned by transition', 'entry key is %s' % M.show(key))
        sites = [s for s in append_sites(ctx, tag) if s[0] is b]
        for n, (_, bb, E) in enumerate(sites):
            e = dict(E[3])
            good = M.is_param(e['from'], index=1) and M.is_param(e['decision'], index=2) and e['cost'] == cost
            ctx.check(good, rule, '%s/edge#%d-fields' % (tag, n), b, b.loc(bb), 'edge = (from_id, decision, cost returned by transition_cost)',
                      'edge pushed by _branch_on is %s' % M.show(E))
            to = e['to']
            t_ok = (isinstance(to, tuple) and to[0] == 'aggr' and M.is_call(id0(to), 'len') and self_field(id0(to)[2][0], 'nodes')) or \
                (M.is_call(to, 'get') and M.contains(to, lambda x: M.is_call(x, 'entry')))
            ctx.check(t_ok, rule, '%s/edge#%d-target' % (tag, n), b, b.loc(bb), 'edge target = node just created or node stored under the state key', 'edge target is %s' % M.show(to))
        # node creation
        npush = [(bb, t) for (bb, t) in b.calls_to('push') if self_field(b.origin.operand(t['args'][0], b.term_point(bb)), 'nodes')]
        if ctx.floor(rule, tag + '/node-push', b, len(npush), 1, 'node creation'):
            nd = b.origin.operand(npush[0][1]['args'][1], b.term_point(npush[0][0]))
            f = dict(nd[3]) if isinstance(nd, tuple) and nd[0] == 'aggr' else {}
            good = bool(f) and f.get('state') == trans and isinstance(f.get('value_top'), tuple) and f['value_top'][0] == 'add' and cost in f['value_top'][1] \
                and any(node_field(x, 'value_top') is not None for x in f['value_top'][1])
            ctx.check(good, rule, tag + '/new-node', b, b.loc(npush[0][0]), 'new node: state = transition result, value_top = source.value_top (+) cost',
                      'new node is %s' % M.show(nd)[:300])
            th = f.get('theta')
            ctx.check(isinstance(th, tuple) and th[0] == 'aggr' and th[2] == 'None', 'R09.5', tag + '/theta-init', b, b.loc(npush[0][0]), 'theta = None at node creation', 'theta initialised with %s' % M.show(th))
            dp = f.get('depth')
            good = isinstance(dp, tuple) and dp[0] == 'add' and any(M.is_const(x, 1) for x in dp[1]) and any(node_field(x, 'depth') is not None for x in dp[1])
            ctx.check(good, rule, tag + '/new-node-depth', b, b.loc(npush[0][0]), 'new node depth = source depth + 1', 'new node depth is %s' % M.show(dp))
        # who may call _branch_on
        callers = []
        for body in dd_unit(ctx, tag):
            for (bb, t) in body.calls_to('_branch_on'):
                callers.append((body, bb, t))
        for (body, bb, t) in callers:
            site = ctx.F.closure_site(body.name) if body.kind == 'closure' else None
            good = False
            if site is not None:
                (pb, pbb, pi, ps) = site
                dest = ps['place']['l']
                for (fb, ft) in pb.calls_to('Problem::for_each_in_domain'):
                    fa = [pb.origin.operand(x, pb.term_point(fb)) for x in ft['args']]
                    if any(isinstance(x, tuple) and x[0] == 'closure' and x[1] == body.name for x in fa):
                        a = [body.origin.operand(x, body.term_point(bb)) for x in t['args']]
                        st_idx = node_field(fa[2], 'state')
                        good = st_idx is not None and id0(a[1]) == st_idx and M.is_param(a[2]) and a[2][1] == body.name
            ctx.check(good, 'R12.b', '%s/who-calls-branch_on/%s' % (tag, short(body)), body, body.loc(bb),
                      '_branch_on is called only from the closure handed to for_each_in_domain, with that closure\'s decision and the node whose state was enumerated',
                      '_branch_on is called from %s with arguments not tied to a for_each_in_domain enumeration' % body.name)
        ctx.floor('R12.b', tag + '/callers', b, len(callers), 1, 'call sites of _branch_on')


def short(body):
    return (body.fn_name or '?') + ('::closure' if body.kind == 'closure' else '')


# ------------------------------------------------------------------------------------------------
# _compile: C12 (c)(d), C05 R05.1, C01 R01.6, C06 R06.3 (order), C13 (vector expanded)
# ------------------------------------------------------------------------------------------------
def depth_counter(tag, t):
    if tag == 'Mdd':
        return self_field(t, 'curr_depth')
    return M.is_field(t, '0') and self_field(t[1], 'curr_l')


def r_compile(ctx):
    for tag, adt in DIAGRAMS:
        b = ctx.body(adt, '_compile')
        nv = b.calls_to('Problem::next_variable')
        fe = b.calls_to('Problem::for_each_in_domain')
        ms = b.calls_to('Cutoff::must_stop')
        fin = b.calls_to('_finalize')
        mv = b.calls_to('_move_to_next_layer')
        if not (ctx.floor('R12.c', tag + '/next_variable', b, len(nv), 1, 'next_variable call') and ctx.floor('R12.c', tag + '/for_each_in_domain', b, len(fe), 1, 'for_each_in_domain call')
                and ctx.floor('R05.1', tag + '/must_stop', b, len(ms), 1, 'must_stop call') and ctx.floor('R05.1', tag + '/finalize', b, len(fin), 1, '_finalize call')
                and ctx.floor('R13.a', tag + '/move', b, len(mv), 1, '_move_to_next_layer call')):
            continue
        nvp, fep, msp, finp, mvp = [b.term_point(x[0][0]) for x in (nv, fe, ms, fin, mv)]
        na = [b.origin.operand(x, nvp) for x in nv[0][1]['args']]
        fa = [b.origin.operand(x, fep) for x in fe[0][1]['args']]
        # (d) depth argument is the layer counter, iterator ranges over the terminal container's keys
        ctx.check(depth_counter(tag, na[1]), 'R12.d', tag + '/next_variable-depth', b, b.loc(nv[0][0]), 'next_variable receives the layer counter',
                  'next_variable receives depth %s, not the layer counter' % M.show(na[1]))
        ctx.check(M.contains(na[2], lambda x: M.is_call(x, 'keys') and self_field(x[2][0], TERMINAL[tag])), 'R12.d', tag + '/next_variable-states', b, b.loc(nv[0][0]),
                  'next_variable sees the states of the next layer', 'next_variable iterates %s' % M.show(na[2])[:200])
        # counter initialised from residual.depth, incremented exactly once per iteration
        ib = ctx.body(adt, '_initialize')
        iw = [(pt, d, v) for (pt, d, v, s) in writes(ib) if depth_counter(tag, d) or (tag == 'Pooled' and self_field(d, 'curr_l'))]
        good = bool(iw) and all(M.contains(v, lambda x: is_subproblem_field(x, 'depth') and M.is_field(x[1], 'residual', 'CompilationInput')) for (pt, d, v) in iw)
        if good:
            r = ib.reach([(0, 0)], avoid=[pt for (pt, d, v) in iw])
            good = not any(p in r for p in ret_points(ib))
        ctx.check(good, 'R12.d', tag + '/counter-init', ib, ib.loc(0), 'the layer counter starts at residual.depth', 'the layer counter is not initialised from input.residual.depth on every path')
        incs = [(pt, d, v) for (pt, d, v, s) in writes(b) if depth_counter(tag, d)]
        good = bool(incs) and all(v == M.mk_add(('const', 1, None, 'usize'), d) for (pt, d, v) in incs)
        some_edge = [(tb, 0) for bb in b.live_blocks() if b.term(bb)['k'] == 'switch' for (tb, lab) in b.succ(bb)
                     if (lambda lit: lit and lit[0] == 'in' and lit[2] == frozenset(['Some']) and M.is_call(lit[1], 'Problem::next_variable'))(M.edge_literal(b, bb, lab))]
        if good and some_edge:
            r = b.reach(some_edge, avoid=[pt for (pt, d, v) in incs])
            good = nvp not in r
            for (pt, d, v) in incs:
                r2 = b.reach(b.after(pt), stop=[nvp])
                if any(p2 in r2 for (p2, _, _) in incs):
                    good = False
        else:
            good = False
        ctx.check(good, 'R12.d', tag + '/counter-step', b, b.loc(*incs[0][0]) if incs else b.loc(0), 'the layer counter is incremented exactly once on every path through the loop body',
                  'the layer counter is not incremented exactly once per layer iteration')
        # (c) var comes from this iteration's next_variable; state belongs to a node of the vector produced by _move_to_next_layer
        nvt = b.origin.call(nv[0][1], nvp)
        var_ok = fa[1] == M.simplify_field(M.simplify_variant(nvt, 'Some'), '0', None)
        ctx.check(var_ok, 'R12.c', tag + '/domain-variable', b, b.loc(fe[0][0]), 'domains are enumerated for the variable returned by next_variable in the same iteration',
                  'for_each_in_domain receives variable %s' % M.show(fa[1])[:200])
        st_idx = node_field(fa[2], 'state')
        if tag == 'Mdd':
            vec = b.origin.operand(mv[0][1]['args'][2], mvp)
        else:
            vec = b.origin.call(mv[0][1], mvp)
        from_vec = st_idx is not None and M.contains(st_idx, lambda x: M.is_call(x, 'Iterator::next') and M.contains(x, lambda y: y == vec))
        ctx.check(from_vec, 'R12.c', tag + '/domain-state', b, b.loc(fe[0][0]), 'the state enumerated belongs to a node of the vector produced by _move_to_next_layer (after squashing)',
                  'for_each_in_domain receives state %s which is not a node of the layer vector %s' % (M.show(fa[2])[:160], M.show(vec)))
        ctx.check(M.is_field(fa[0], 'problem', 'CompilationInput') and M.is_field(na[0], 'problem', 'CompilationInput'), 'R12.c', tag + '/problem', b, b.loc(fe[0][0]),
                  'callbacks are invoked on input.problem', 'callbacks invoked on %s' % M.show(fa[0]))
        # the move happens in every iteration before the enumeration
        r = b.reach(some_edge, avoid=[mvp])
        ctx.check(fep not in r, 'R13.a', tag + '/move-before-expand', b, b.loc(mv[0][0]), 'every layer goes through _move_to_next_layer (filters + squash) before it is expanded',
                  'a path expands a layer without _move_to_next_layer')
        # R05.1 cutoff
        errs = [(bb, i) for (bb, i, s) in aggr_assigns(b, 'Result', 'Err') if s['place']['l'] == 0]
        stop_t = lambda atoms, lit: any(a[0] == 'T' and M.is_call(a[1], 'Cutoff::must_stop') for a in atoms)
        if ctx.floor('R05.1', tag + '/err', b, len(errs), 1, 'Err(..) return in _compile'):
            ok, cut, bad = M.guarded(b, errs, stop_t)
            ctx.check(ok, 'R05.1', tag + '/err-only-on-cutoff', b, b.loc(*errs[0]), 'Err(CutoffOccurred) is returned only when must_stop() answered true',
                      '_compile can return Err without the cutoff having fired')
            for (bbk, lab) in cut:
                tb = [t for (t, l) in b.succ(bbk) if l == lab][0]
                r = b.reach([(tb, 0)])
                ctx.check(finp not in r and nvp not in r and fep not in r and all(p in r for p in errs[:1]), 'R05.1', tag + '/cutoff-stops-everything', b, b.loc(bbk),
                          'once must_stop() answers true the compilation returns Err without finalising (no thresholds, cut-set or best node from a partial diagram)',
                          'after must_stop() == true the compilation goes on (reaches _finalize / the next layer) instead of returning Err: bounds are derived from a partial diagram')
        r = b.reach(some_edge, avoid=[msp])
        ctx.check(fep not in r, 'R05.1', tag + '/poll-every-layer', b, b.loc(ms[0][0]), 'the cutoff is polled in every layer iteration', 'a layer can be expanded without polling the cutoff')
        # R01.6 rough upper bound pruning
        rub_or_field = lambda x: M.is_call(x, 'Relaxation::fast_upper_bound') or node_field(x, 'rub') is not None
        def is_tot(t):
            if not (isinstance(t, tuple) and t[0] == 'add' and len(t[1]) == 2):
                return False
            r_ = [x for x in t[1] if rub_or_field(x)]
            v_ = [x for x in t[1] if node_field(x, 'value_top') is not None]
            if not (r_ and v_):
                return False
            # rub computed on the state of the node whose value_top is used, which is the node being expanded
            vi = node_field(v_[0], 'value_top')
            if M.is_call(r_[0], 'Relaxation::fast_upper_bound'):
                ri = node_field(r_[0][2][1], 'state')
            else:
                ri = node_field(r_[0], 'rub')
            return vi == ri == st_idx
        def acc(atoms, lit):
            return any(M.cmp_matches(a, is_tot, is_input_lb, '>=') and '>' in _rel(a, is_tot) for a in atoms)
        ok, cut, bad = M.guarded(b, [fep], acc)
        ctx.check(ok, 'R01.6', tag + '/rub-prune', b, b.loc(fe[0][0]), 'a node is expanded only on an edge asserting rub(state) (+) value_top >|>= input.best_lb, all three of the node being expanded',
                  'the expansion guard is not `fast_upper_bound(node.state) + node.value_top > input.best_lb` on the node being expanded')
        for (bbk, lab) in cut:
            tb = [t for (t, l) in b.succ(bbk) if l == lab][0]
            r = b.reach([(tb, 0)], avoid=[fep])
            ctx.check(nvp not in r and finp not in r, 'R01.6', tag + '/rub-keep-must-expand', b, b.loc(bbk), 'a node passing the bound test is always expanded',
                      'a node with rub + value > best_lb can be skipped')
        # stored rub is the computed one (used later by thresholds and cut-set bounds)
        rw = [(pt, d, v) for (pt, d, v, s) in writes(b) if node_field(d, 'rub') is not None]
        good = bool(rw) and all(M.is_call(v, 'Relaxation::fast_upper_bound') and node_field(v[2][1], 'state') == node_field(d, 'rub') for (pt, d, v) in rw)
        ctx.check(good, 'R08.4', tag + '/rub-stored', b, b.loc(*rw[0][0]) if rw else b.loc(0), 'node.rub := fast_upper_bound(node.state) of the same node', 'node.rub is not the rough bound of the node\'s own state')
        # R06.3 order: _clear, then _initialize, before anything else
        cl = b.calls_to('_clear')
        ini = b.calls_to('_initialize')
        good = bool(cl) and bool(ini)
        if good:
            clp, inp = b.term_point(cl[0][0]), b.term_point(ini[0][0])
            other = [b.term_point(bb) for (bb, t) in b.calls() if b.term_point(bb) not in (clp, inp) and not (t.get('callee') or '').startswith(('std::ops::Deref', 'std::vec::Vec::<T>::new'))]
            r0 = b.reach([(0, 0)], avoid=[clp])
            r1 = b.reach([(0, 0)], avoid=[inp])
            good = not any(p in r0 for p in other + [inp]) and not any(p in r1 for p in other)
        ctx.check(good, 'R06.3', tag + '/clear-then-initialize-first', b, b.loc(0), '_compile runs _clear and _initialize before anything else on every path',
                  '_compile does not start with _clear(); _initialize(): state of a previous compilation can leak')
        # result: Completion{is_exact: self.is_exact(), best_value: value_top of best_node}
        comp = aggr_assigns(b, 'common::Completion')
        for (bb, i, s) in comp:
            v = b.origin.rvalue(s['rv'], (bb, i))
            ex = M.simplify_field(v, 'is_exact', None)
            ctx.check(M.is_call(ex, 'is_exact') and M.is_param(ex[2][0], index=0), 'R01.7', tag + '/completion-is_exact', b, b.loc(bb, i), 'Completion.is_exact = self.is_exact()', 'Completion.is_exact = %s' % M.show(ex))


# ------------------------------------------------------------------------------------------------
# _squash_if_needed / _restrict / _relax : R01.7, R07, R06.1, R12.e, R13
# ------------------------------------------------------------------------------------------------
def _ensures_lel_some(body):
    """all paths through `body` end with self.lel = Some(..) (written, or already Some)"""
    ws = [pt for (pt, d, v, s) in writes(body) if self_field(d, 'lel') and isinstance(v, tuple) and v[0] == 'aggr' and v[2] == 'Some']
    def acc(atoms, lit):
        for a in atoms:
            if a[0] == 'F' and M.is_call(a[1], 'is_none') and self_field(a[1][2][0], 'lel'):
                return True
            if a[0] == 'T' and M.is_call(a[1], 'is_some') and self_field(a[1][2][0], 'lel'):
                return True
            if a[0] == 'in' and self_field(a[1], 'lel') and a[2] == frozenset(['Some']):
                return True
        return False
    cut = _cut_edges(body, acc)
    r = body.reach([(0, 0)], cut_edges=cut, avoid=ws)
    return bool(ws) and not any(p in r for p in ret_points(body))


def _writes_inexact(body):
    ws = [pt for (pt, d, v, s) in writes(body) if self_field(d, 'is_exact') and M.is_const(v, False)]
    r = body.reach([(0, 0)], avoid=ws)
    return bool(ws) and not any(p in r for p in ret_points(body))


def r_squash(ctx):
    for tag, adt in DIAGRAMS:
        b = ctx.body(adt, '_squash_if_needed')
        rs = b.calls_to('_restrict')
        rx = b.calls_to('_relax')
        if not (ctx.floor('R01.7', tag + '/restrict-call', b, len(rs), 1, '_restrict call') and ctx.floor('R01.7', tag + '/relax-call', b, len(rx), 1, '_relax call')):
            continue
        comp_type = lambda t: M.is_field(t, 'comp_type', 'CompilationInput')
        is_len = lambda t: isinstance(t, tuple) and t[0] in ('len',) or M.is_call(t, 'len')
        is_w = lambda t: M.is_field(t, 'max_width', 'CompilationInput')
        for (kind, calls, variant) in (('restrict', rs, 'Restricted'), ('relax', rx, 'Relaxed')):
            for (bb, t) in calls:
                p = b.term_point(bb)
                ok, cut, bad = M.guarded(b, [p], lambda atoms, lit: any(a[0] == 'in' and comp_type(a[1]) and a[2] == frozenset([variant]) for a in atoms))
                ctx.check(ok, 'R07.1', '%s/%s-only-in-%s' % (tag, kind, variant), b, b.loc(bb), '_%s is reachable only in a %s compilation (Exact never squashes, Restricted never merges)' % (kind, variant),
                          '_%s can run in a compilation whose type is not %s' % (kind, variant))
                # width guard
                allowed = '>=' if kind == 'restrict' else '>'
                def accw(atoms, lit, allowed=allowed):
                    return any(M.cmp_matches(a, lambda t: M.is_call(t, 'len') and M.is_param(t[2][0], index=2), is_w, allowed) and '>' in _rel(a, lambda t: M.is_call(t, 'len')) for a in atoms)
                ok, cut, bad = M.guarded(b, [p], accw)
                ctx.check(ok, 'R13.b' if kind == 'restrict' else 'R12.e', '%s/%s-width-guard' % (tag, kind), b, b.loc(bb),
                          '_%s runs only on an edge asserting len(layer) %s max_width' % (kind, '>|>=' if kind == 'restrict' else '>'),
                          '_%s can run without len(layer) > max_width being asserted%s' % (kind, ' (with >= a single node would be "merged")' if kind == 'relax' else ''))
                # inexactness marker
                callee = ctx.body(adt, '_' + kind)
                marker = _writes_inexact(callee)
                if not marker:
                    # a marker call before/after the squash call on every path of this arm
                    mk = [b.term_point(b2) for (b2, t2) in b.calls() if (t2.get('callee') or '') in ctx.F.bodies and _ensures_lel_some(ctx.F.bodies[t2['callee']])]
                    mk += [pt for (pt, d, v, s) in writes(b) if self_field(d, 'lel') and isinstance(v, tuple) and v[0] == 'aggr' and v[2] == 'Some']
                    r0 = b.reach([(0, 0)], avoid=mk)
                    before = p not in r0
                    r1 = b.reach(b.after(p), avoid=mk)
                    after_ = not any(q in r1 for q in ret_points(b))
                    marker = bool(mk) and (before or after_)
                ctx.check(marker, 'R01.7', '%s/%s-withdraws-exactness' % (tag, kind), b, b.loc(bb),
                          'every path that squashes a layer (%s) records the inexactness (lel := Some(..) / is_exact := false)' % kind,
                          'a layer can be %s without the diagram withdrawing its exactness claim' % ('truncated' if kind == 'restrict' else 'merged'))
        # relaxed squash keeps the first layer below the root intact (E15)
        (bb, t) = rx[0]
        def accl(atoms, lit):
            for a in atoms:
                if M.cmp_matches(a, lambda t: M.is_call(t, 'len') and self_field(t[2][0], 'layers'), lambda t: M.is_const(t, 1), '>'):
                    return True
                if M.cmp_matches(a, lambda t: M.is_call(t, 'len') and self_field(t[2][0], 'layers'), lambda t: M.is_const(t, 2), '>='):
                    return True
            return False
        ok, cut, bad = M.guarded(b, [b.term_point(bb)], accl)
        ctx.check(ok, 'R08.3', tag + '/first-layer-not-squashed', b, b.loc(bb), 'a relaxed layer is merged only when at least two layers exist (the first layer below the root stays exact)',
                  'the relaxed squash can merge the first layer below the root (the root itself would enter the cut-set: no progress)')
        # exactness claim: is_exact() reads only the two flags; who writes is_exact
        ie = ctx.body(adt, 'is_exact', trait='DecisionDiagram')
        fields = set()
        for bb2 in ie.live_blocks():
            for s in ie.stmts(bb2):
                if s['k'] == 'assign':
                    for x in M.walk(ie.origin.rvalue(s['rv'], (bb2, 0))):
                        if isinstance(x, tuple) and x and x[0] == 'field' and len(x) == 4 and (x[3] or '').endswith(('clean::Mdd', 'pooled::Pooled')):
                            fields.add(x[2])
        ctx.check(fields == {'is_exact', 'has_exact_best_path'}, 'R01.7', tag + '/is_exact-reads', ie, ie.loc(0), 'is_exact() = is_exact || has_exact_best_path',
                  'DecisionDiagram::is_exact reads %s' % sorted(fields))
        # accepted origins of the is_exact field
        for body in dd_unit(ctx, tag):
            for (pt, d, v, s) in writes(body):
                if self_field(d, 'is_exact'):
                    okv = M.is_const(v, False) or (M.is_const(v, True) and body.fn_name in ('_clear', 'new')) or \
                        (M.is_call(v, 'is_none') and self_field(v[2][0], 'lel') and body.fn_name == '_finalize_exact')
                    ctx.check(okv, 'R01.7', '%s/is_exact-write/%s' % (tag, short(body)), body, body.loc(*pt), 'is_exact is written with false, with lel.is_none() at finalisation, or reset to true by _clear',
                              'is_exact := %s in %s' % (M.show(v), body.fn_name))
                if self_field(d, 'lel'):
                    okv = (isinstance(v, tuple) and v[0] == 'aggr' and v[2] == 'None' and body.fn_name in ('_clear', 'new')) or \
                        (isinstance(v, tuple) and v[0] == 'aggr' and v[2] == 'Some' and body.fn_name in ('_maybe_save_lel', '_finalize_cutset'))
                    ctx.check(okv, 'R01.7', '%s/lel-write/%s' % (tag, short(body)), body, body.loc(*pt), 'lel is set by _maybe_save_lel / _finalize_cutset and reset by _clear only',
                              'lel := %s in %s' % (M.show(v), body.fn_name))
        if tag == 'Mdd':
            # _finalize_cutset must not run before _finalize_exact (it fills lel in)
            fb = ctx.body(adt, '_finalize')
            fe_ = call_points(fb, '_finalize_exact')
            fc_ = call_points(fb, '_finalize_cutset')
            good = bool(fe_) and bool(fc_) and fe_[0] not in fb.reach(fb.after(fc_[0]))
            ctx.check(good, 'R01.7', tag + '/finalize-order', fb, fb.loc(0), '_finalize_exact reads lel before _finalize_cutset fills it in', '_finalize_cutset (which sets lel) runs before _finalize_exact reads lel.is_none()')
            ml = ctx.body(adt, '_maybe_save_lel')
            ws = [(pt, d, v) for (pt, d, v, s) in writes(ml) if self_field(d, 'lel')]
            good = bool(ws)
            for (pt, d, v) in ws:
                inner = id0(v[3][0][1]) if isinstance(v, tuple) and v[0] == 'aggr' and v[2] == 'Some' else None
                good = good and inner == ('sub', ('call', 'std::vec::Vec::<T, A>::len', (('field', ('param', ml.name, 0, 'self'), 'layers', d[3]),), None), ('const', 1, None, 'usize')) or \
                    (good and isinstance(inner, tuple) and inner[0] == 'sub' and M.is_call(inner[1], 'len') and self_field(inner[1][2][0], 'layers') and M.is_const(inner[2], 1))
            ctx.check(good, 'R08.2', tag + '/lel-is-previous-layer', ml, ml.loc(0), 'the last exact layer recorded is the previous layer (layers.len() - 1)', 'lel is not layers.len() - 1 at the first squash')


def r_restrict(ctx):
    for tag, adt in DIAGRAMS:
        b = ctx.body(adt, '_restrict')
        tr = [(bb, t) for (bb, t) in b.calls_to('truncate')]
        good = False
        if tr:
            a = [b.origin.operand(x, b.term_point(tr[0][0])) for x in tr[0][1]['args']]
            good = M.is_param(a[0], index=2) and M.is_field(a[1], 'max_width', 'CompilationInput')
            r = b.reach([(0, 0)], avoid=[b.term_point(tr[0][0])])
            good = good and not any(p in r for p in ret_points(b))
        ctx.check(good, 'R13.b', tag + '/restrict-truncates-to-width', b, b.loc(tr[0][0]) if tr else b.loc(0), 'every exit of _restrict leaves len(layer) <= max_width (truncate(max_width) on all paths)',
                  '_restrict does not truncate the layer to max_width on every path')
        # dropped nodes are flagged deleted: the loop ranges over skip(max_width) of the same vector
        sd = b.calls_to('set_deleted')
        sk = b.calls_to('skip')
        good = bool(sd) and bool(sk)
        if good:
            a = [b.origin.operand(x, b.term_point(sk[0][0])) for x in sk[0][1]['args']]
            good = M.is_field(a[1], 'max_width', 'CompilationInput') and M.contains(a[0], lambda x: M.is_param(x, index=2))
            da = [b.origin.operand(x, b.term_point(sd[0][0])) for x in sd[0][1]['args']]
            good = good and M.is_const(da[1], True) and node_field(da[0], 'flags') is not None
            # sort happens before the flags are set
            so = b.calls_to('sort_unstable_by', 'sort_by', 'sort_by_key', 'sort_unstable_by_key')
            good = good and bool(so) and b.term_point(sd[0][0]) in b.reach(b.after(b.term_point(so[0][0])))
        ctx.check(good, 'R07.4', tag + '/restrict-deletes-dropped', b, b.loc(sd[0][0]) if sd else b.loc(0), 'after sorting, the nodes beyond max_width are flagged deleted', 'the nodes dropped by _restrict are not flagged deleted (after sorting, skip(max_width))')
        _sort_rule(ctx, tag, b)


def _sort_rule(ctx, tag, b):
    """the squash order: by value_top, then the user ranking, reversed (best first)"""
    so = b.calls_to('sort_unstable_by', 'sort_by')
    if not ctx.floor('R07.4', '%s/%s-sort' % (tag, b.fn_name), b, len(so), 1, 'sort of the layer'):
        return
    cl = b.origin.operand(so[0][1]['args'][1], b.term_point(so[0][0]))
    rt = _closure_ret(ctx.F, cl)
    good = False
    if rt is not None and M.is_call(rt, 'reverse'):
        inner = rt[2][0]
        if M.is_call(inner, 'then_with') and M.is_call(inner[2][0], 'Ord::cmp'):
            c = inner[2][0]
            good = node_field(c[2][0], 'value_top') is not None and node_field(c[2][1], 'value_top') is not None and \
                M.is_param(node_field(c[2][0], 'value_top')[1], index=1) and M.is_param(node_field(c[2][1], 'value_top')[1], index=2)
            rk = _closure_ret(ctx.F, inner[2][1])
            good = good and rk is not None and M.is_call(rk, 'StateRanking::compare')
    ctx.check(good, 'R07.4', '%s/%s-sort-order' % (tag, b.fn_name), b, b.loc(so[0][0]), 'the layer is sorted by (value_top, ranking) descending: the best nodes are kept',
              'the squash order is not value_top.cmp(..).then_with(ranking).reverse() on (a, b): the wrong nodes are kept')


def r_relax(ctx):
    for tag, adt in DIAGRAMS:
        b = ctx.body(adt, '_relax')
        unit = ctx.unit(b)
        sp = b.calls_to('split_at_mut', 'split_at')
        mg = b.calls_to('Relaxation::merge')
        rl = [(c, bb, t) for c in unit for (bb, t) in c.calls_to('Relaxation::relax')]
        if not (ctx.floor('R12.e', tag + '/split', b, len(sp), 1, 'split of the layer') and ctx.floor('R12.e', tag + '/merge', b, len(mg), 1, 'Relaxation::merge call')
                and ctx.floor('R12.e', tag + '/relax', b, len(rl), 1, 'Relaxation::relax call')):
            continue
        spt = b.origin.call(sp[0][1], b.term_point(sp[0][0]))
        sa = spt[2]
        w1 = ('sub', None, None)
        idx_ok = isinstance(sa[1], tuple) and sa[1][0] == 'sub' and M.is_field(sa[1][1], 'max_width', 'CompilationInput') and M.is_const(sa[1][2], 1)
        ctx.check(M.is_param(sa[0], index=2) and idx_ok, 'R13.b', tag + '/relax-split-index', b, b.loc(sp[0][0]), 'the layer is split at max_width - 1 (keep w-1, merge the rest: at least 2 nodes since len > w)',
                  'the layer is split at %s, not max_width - 1' % M.show(sa[1]))
        keep_t = M.simplify_field(spt, '0', None)
        merge_t = M.simplify_field(spt, '1', None)
        mgt = b.origin.call(mg[0][1], b.term_point(mg[0][0]))
        it = mgt[2][1]
        good = M.contains(it, lambda x: x == merge_t)
        mapc = [x for x in M.walk(it) if isinstance(x, tuple) and x and x[0] == 'closure']
        if good and mapc:
            rt = _closure_ret(ctx.F, mapc[0])
            good = rt is not None and node_field(rt, 'state') is not None
        ctx.check(good, 'R12.e', tag + '/merge-over-merged-slice', b, b.loc(mg[0][0]), 'merge() receives the states of exactly the nodes beyond max_width - 1', 'merge() iterates %s' % M.show(it)[:200])
        # merged node id
        mid_calls = b.calls_to('unwrap_or_else', 'unwrap_or')
        mid = None
        for (bb, t) in mid_calls:
            tt = b.origin.call(t, b.term_point(bb))
            if M.contains(tt[2][0], lambda x: M.is_call(x, 'find', 'position')) and M.contains(tt[2][0], lambda x: x == keep_t):
                mid = tt
        if mid is None:
            ctx.bad('R06.1', tag + '/merged-id', b, b.loc(0), 'cannot identify the merged node id (recycled.unwrap_or_else(create))')
            continue
        midx = id0(mid)
        # the recycled node has the merged state; the created node carries it and is flagged relaxed
        findc = [x for x in M.walk(mid[2][0]) if isinstance(x, tuple) and x and x[0] == 'closure']
        good = False
        if findc and findc[0][1] in ctx.F.bodies:
            fb_ = ctx.F.bodies[findc[0][1]]
            for (bb, t) in fb_.calls_to('eq'):
                a = [fb_.origin.operand(x, fb_.term_point(bb)) for x in t['args']]
                if node_field(a[0], 'state') is not None and a[1] == mgt or (node_field(a[1], 'state') is not None and a[0] == mgt):
                    good = True
        ctx.check(good, 'R06.1', tag + '/recycled-has-merged-state', b, b.loc(mg[0][0]), 'a kept node is re-used as merged node only if its state equals the merged state', 'the recycled node is not selected by state == merged')
        crt = mid[2][1] if len(mid[2]) > 1 else None
        good = False
        if isinstance(crt, tuple) and crt[0] == 'closure' and crt[1] in ctx.F.bodies:
            cb = ctx.F.bodies[crt[1]]
            for (bb, t) in cb.calls_to('push'):
                a = [cb.origin.operand(x, cb.term_point(bb)) for x in t['args']]
                if self_field(a[0], 'nodes') and isinstance(a[1], tuple) and a[1][0] == 'aggr':
                    f = dict(a[1][3])
                    rt = _ret_term(cb)
                    good = f.get('state') == mgt and M.is_call(f.get('flags'), 'new_relaxed') and M.is_const(f.get('value_top')) and (f['value_top'][2] or '').endswith('MIN') \
                        and isinstance(f.get('best'), tuple) and f['best'][2] == 'None' and M.is_call(id0(rt), 'len') and self_field(id0(rt)[2][0], 'nodes')
                    dpt = f.get('depth')
                    ctx.check(node_field(dpt, 'depth') is not None and M.contains(dpt, lambda x: x == merge_t), 'R12.f', tag + '/merged-depth', cb, cb.loc(bb),
                              'the merged node takes the depth of a merged member', 'merged node depth is %s' % M.show(dpt))
        ctx.check(good, 'R06.1', tag + '/created-merged-node', b, b.loc(mg[0][0]), 'a fresh merged node has the merged state, value MIN, no best edge, relaxed flags, and its id is nodes.len() before the push',
                  'the freshly created merged node is not (state = merged, value_top = MIN, best = None, flags = new_relaxed)')
        # set_relaxed(true) on the merged node on every path
        sr = [b.term_point(bb) for (bb, t) in b.calls_to('set_relaxed')
              if node_field(b.origin.operand(t['args'][0], b.term_point(bb)), 'flags') == midx and M.is_const(b.origin.operand(t['args'][1], b.term_point(bb)), True)]
        r = b.reach([(0, 0)], avoid=sr)
        ctx.check(bool(sr) and not any(p in r for p in ret_points(b)), 'R06.1', tag + '/merged-flagged-relaxed', b, b.loc(sr[0][0]) if sr else b.loc(mg[0][0]),
                  'the merged node (also a re-used kept node) is flagged relaxed on every path', 'the merged node is not flagged relaxed on every path: a re-used kept node stays "exact" although it now stands for merged states')
        # loop over the merged slice: delete + redirect every inbound arc
        nx = [(bb, t) for (bb, t) in b.calls_to('Iterator::next') if M.contains(b.origin.operand(t['args'][0], b.term_point(bb)), lambda x: x == merge_t)]
        if not ctx.floor('R06.1', tag + '/loop', b, len(nx), 1, 'loop over the merged slice'):
            continue
        nxt = b.origin.call(nx[0][1], b.term_point(nx[0][0]))
        item = id0(M.simplify_field(M.simplify_variant(nxt, 'Some'), '0', None))
        some_edge = [(tb, 0) for bb in b.live_blocks() if b.term(bb)['k'] == 'switch' for (tb, lab) in b.succ(bb)
                     if (lambda lit: lit and lit[0] == 'in' and lit[2] == frozenset(['Some']) and lit[1] == nxt)(M.edge_literal(b, bb, lab))]
        sd = [b.term_point(bb) for (bb, t) in b.calls_to('set_deleted')
              if node_field(b.origin.operand(t['args'][0], b.term_point(bb)), 'flags') == item and M.is_const(b.origin.operand(t['args'][1], b.term_point(bb)), True)]
        r = b.reach(some_edge, avoid=sd)
        nxp = b.term_point(nx[0][0])
        ctx.check(bool(sd) and bool(some_edge) and nxp not in r, 'R06.1', tag + '/merged-away-deleted', b, b.loc(sd[0][0]) if sd else b.loc(nx[0][0]), 'every merged-away node is flagged deleted',
                  'a merged-away node is not flagged deleted on every iteration')
        # foreach edge of the loop node: list variable starts at nodes[item].inbound, advances with tail, body calls the redirect closure on edges[head]
        (rc, rbb, rt_) = rl[0]
        site = ctx.F.closure_site(rc.name) if rc.kind == 'closure' else None
        cm = [(bb, t) for (bb, t) in b.calls_to('call_mut', 'call', 'call_once') if any(
            isinstance(x, tuple) and x and x[0] == 'closure' and x[1] == rc.name for x in [b.origin.operand(a, b.term_point(bb)) for a in t['args']])]
        good = bool(cm)
        listvar = None
        if good:
            a = [b.origin.operand(x, b.term_point(cm[0][0])) for x in cm[0][1]['args']]
            edge_arg = a[1]
            # edge_arg = (edges[ (edgelists[list] as Cons).head.0 ])
            heads = [x for x in M.walk(edge_arg) if M.is_field(x, 'head') and isinstance(x[1], tuple) and x[1][0] == 'variant' and x[1][2] == 'Cons']
            good = bool(heads) and M.contains(edge_arg, lambda x: self_field(x, 'edges'))
            if good:
                lst = heads[0][1][1]
                good = isinstance(lst, tuple) and lst[0] == 'index' and self_field(lst[1], 'edgelists')
                if good:
                    lv = lst[2][1] if M.is_field(lst[2], '0') else lst[2]
                    defs = var_def_terms(b, lv)
                    starts_ok = any(node_field(d, 'inbound') == item for d in defs)
                    adv_ok = any(M.is_field(d, 'tail') for d in defs)
                    good = starts_ok and adv_ok and len(defs) == 2
            # the closure is invoked on every Cons cell: from the Cons edge, avoiding the call, the loop head is unreachable
        ctx.check(good, 'R06.1', tag + '/all-inbound-arcs', b, b.loc(cm[0][0]) if cm else b.loc(nx[0][0]),
                  'the redirect closure is applied to edges[head] of every cell of the inbound list of the merged-away node (list = node.inbound; list = tail)',
                  'the arcs redirected are not exactly the inbound list of the merged-away node (start at nodes[drop].inbound, advance by tail)')
        if cm:
            cons_edges = [(tb, 0) for bb in b.live_blocks() if b.term(bb)['k'] == 'switch' for (tb, lab) in b.succ(bb)
                          if (lambda lit: lit and lit[0] == 'in' and lit[2] == frozenset(['Cons']))(M.edge_literal(b, bb, lab))]
            cmp_ = b.term_point(cm[0][0])
            r = b.reach(cons_edges, avoid=[cmp_])
            swb = [b.term_point(bb) for bb in b.live_blocks() if b.term(bb)['k'] == 'switch' and any(
                (lambda lit: lit and lit[0] == 'in' and 'Cons' in lit[2])(M.edge_literal(b, bb, lab)) for (tb, lab) in b.succ(bb))]
            ctx.check(bool(cons_edges) and nxp not in r and not any(p in r for p in swb), 'R06.1', tag + '/no-arc-skipped', b, b.loc(cm[0][0]),
                      'no inbound arc is skipped (every Cons cell reaches the redirect before the next cell / node)', 'an inbound arc of a merged-away node can be skipped (break/continue before the redirect)')
        # relax() arguments and the redirected edge
        ra = [rc.origin.operand(x, rc.term_point(rbb)) for x in rt_['args']]
        edge_p = lambda t: M.is_param(t) and t[1] == rc.name
        e_from = lambda t: node_field(t, 'state') is not None and M.is_field(node_field(t, 'state'), '0') and M.is_field(node_field(t, 'state')[1], 'from', 'Edge') and edge_p(node_field(t, 'state')[1][1])
        e_to = lambda t: node_field(t, 'state') is not None and M.is_field(node_field(t, 'state'), '0') and M.is_field(node_field(t, 'state')[1], 'to', 'Edge') and edge_p(node_field(t, 'state')[1][1])
        ctx.check(e_from(ra[1]), 'R12.e', tag + '/relax-src', rc, rc.loc(rbb), 'relax: src = state of edge.from', 'relax src is %s' % M.show(ra[1]))
        ctx.check(e_to(ra[2]), 'R12.e', tag + '/relax-dst', rc, rc.loc(rbb), 'relax: dst = state of edge.to (the merged-away node)', 'relax dst is %s' % M.show(ra[2]))
        ctx.check(ra[3] == mgt, 'R12.e', tag + '/relax-merged', rc, rc.loc(rbb), 'relax: merged = the state just returned by merge', 'relax merged argument is %s' % M.show(ra[3])[:200])
        ctx.check(M.is_field(ra[4], 'decision', 'Edge') and edge_p(ra[4][1]), 'R12.e', tag + '/relax-decision', rc, rc.loc(rbb), 'relax: decision of the same arc', 'relax decision is %s' % M.show(ra[4]))
        ctx.check(M.is_field(ra[5], 'cost', 'Edge') and edge_p(ra[5][1]), 'R12.e', tag + '/relax-cost', rc, rc.loc(rbb), 'relax: current cost of the same arc', 'relax cost is %s' % M.show(ra[5]))
        rcost = rc.origin.call(rt_, rc.term_point(rbb))
        sites = [s for s in append_sites(ctx, tag) if s[0] is rc]
        if ctx.floor('R06.1', tag + '/redirect-edge', rc, len(sites), 1, 'edge append in the redirect closure'):
            e = dict(sites[0][2][3])
            good = M.is_field(e['from'], 'from', 'Edge') and edge_p(e['from'][1]) and M.is_field(e['decision'], 'decision', 'Edge') and edge_p(e['decision'][1]) \
                and e['cost'] == rcost and e['to'] == mid
            ctx.check(good, 'R06.1', tag + '/redirected-edge', rc, rc.loc(sites[0][1]), 'the new arc keeps source and decision, points to the merged node and carries the cost returned by relax()',
                      'the redirected arc is %s (expected from/decision of the old arc, to = merged node, cost = relax(..))' % M.show(sites[0][2])[:260])
        # C13: symbolic length at exit
        _relax_length(ctx, tag, b, mid)
        _sort_rule(ctx, tag, b)


def _relax_length(ctx, tag, b, mid):
    """every exit of _relax leaves len(layer) <= max_width: per path, the last truncate(X) and the pushes after it"""
    tr = b.calls_to('truncate')
    pu = [(bb, t) for (bb, t) in b.calls_to('push') if M.is_param(b.origin.operand(t['args'][0], b.term_point(bb)), index=2)]
    ok = bool(tr)
    worst = []
    nx = [b.term_point(bb) for (bb, t) in b.calls_to('Iterator::next')]
    # paths after the loop: start from entry but forbid back edges (loop-free paths are enough: truncation is after the loop)
    paths = M.enumerate_paths(b, (0, 0), stops=[], max_paths=5000)
    n = 0
    for (edges, blocks, end) in paths:
        n += 1
        bound = None  # (base, extra): len <= w + extra
        for blk in blocks:
            t = b.term(blk)
            if t['k'] != 'call':
                continue
            if (blk, t) in [(x, y) for (x, y) in tr]:
                a = [b.origin.operand(x, b.term_point(blk)) for x in t['args']]
                if M.is_param(a[0], index=2):
                    if M.is_field(a[1], 'max_width', 'CompilationInput'):
                        bound = 0
                    elif isinstance(a[1], tuple) and a[1][0] == 'sub' and M.is_field(a[1][1], 'max_width', 'CompilationInput') and M.is_const(a[1][2]):
                        bound = -a[1][2][1]
                    elif isinstance(a[1], tuple) and a[1][0] == 'add' and any(M.is_field(x, 'max_width', 'CompilationInput') for x in a[1]):
                        cs = [x for x in a[1] if M.is_const(x)]
                        bound = cs[0][1] if cs else None
                    else:
                        bound = None
            elif any(blk == x for (x, y) in pu):
                if bound is not None:
                    bound += 1
        if bound is None or bound > 0:
            ok = False
            worst.append(bound)
    ctx.stats['paths'] += n
    ctx.check(ok and n > 0, 'R13.b', tag + '/relax-exit-length', b, b.loc(tr[0][0]) if tr else b.loc(0),
              'on each of the %d loop-free paths through _relax the layer ends with len <= max_width (truncate(w) | truncate(w-1) + one push)' % n,
              'a path through _relax leaves the layer with more than max_width nodes (len <= w%+d)' % (worst[0] if worst and worst[0] is not None else 1) if worst and worst[0] is not None else
              'a path through _relax does not bound the layer length by max_width')
    # the merged node is the one pushed
    for (bb, t) in pu:
        v = b.origin.operand(t['args'][1], b.term_point(bb))
        ctx.check(v == mid, 'R13.b', tag + '/relax-push-merged', b, b.loc(bb), 'the node appended to the layer is the merged node', 'the node appended after truncation is %s' % M.show(v)[:150])
    # recycled path: keeps exactly the re-used node alive again
    sdf = [(bb, t) for (bb, t) in b.calls_to('set_deleted') if M.is_const(b.origin.operand(t['args'][1], b.term_point(bb)), False)]
    for (bb, t) in sdf:
        ok2, cut, bad = M.guarded(b, [b.term_point(bb)], lambda atoms, lit: any(a[0] == 'T' and M.is_call(a[1], 'is_some') for a in atoms))
        ctx.check(ok2, 'R13.b', tag + '/undelete-only-when-recycled', b, b.loc(bb), 'a deleted flag is cleared only on the recycled path', 'set_deleted(false) outside the recycled path')
