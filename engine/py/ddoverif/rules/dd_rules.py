"""Rule instances on the two diagram implementations (mdd/clean.rs `Mdd`, mdd/pooled.rs `Pooled`)."""
from .. import mirlib as M
from ..core import MissingAnchor
from .common import *
from .solver_rules import _ret_term, _closure_ret, _cut_edges, _rel

TERMINAL = {'Mdd': 'next_l', 'Pooled': 'pool'}   # container of not-yet-expanded nodes (terminal container at the end)


def dd_adt(tag):
    return MDD if tag == 'Mdd' else POOLED


def self_field(t, name, tag=None):
    return M.is_field(t, name) and (t[3] or '').endswith(('clean::Mdd', 'pooled::Pooled')) and M.is_param(t[1], index=0)


def node_field(t, name):
    """nodes[IDX].<name>  -> IDX term, else None. The item of `nodes.iter().enumerate()` / `iter_mut().enumerate()` counts as
    nodes[its index]: ((next as Some).0).1.<name> -> ((next as Some).0).0"""
    if M.is_field(t, name) and (t[3] or '').endswith('::Node') and isinstance(t[1], tuple):
        base = t[1]
        if base[0] == 'index' and M.is_field(base[1], 'nodes'):
            return base[2]
        if M.is_field(base, '1') and M.contains(base[1], lambda x: M.is_call(x, 'enumerate')) and \
                M.contains(base[1], lambda x: M.is_call(x, 'iter', 'iter_mut') and M.is_field(x[2][0], 'nodes')) and M.contains(base[1], lambda x: M.is_call(x, 'Iterator::next')):
            return M.simplify_field(base[1], '0', None)
    return None


def id0(t):
    """index value of a NodeId / EdgeId term"""
    return M.simplify_field(t, '0', None)


def dd_unit(ctx, tag):
    """all bodies (methods + closures) of the diagram's inherent impl and DecisionDiagram impl"""
    adt = dd_adt(tag)
    out = []
    for b in ctx.F.bodies.values():
        root = ctx.F.bodies.get(b.root, b) if b.kind == 'closure' else b
        if (root.impl_self_adt or '').endswith(adt):
            out.append(b)
    return out


# ------------------------------------------------------------------------------------------------
# R02.4 / E11 / R06.2 — edge append: longest-path max-update with its witness, exactness propagation
# ------------------------------------------------------------------------------------------------
def append_sites(ctx, tag):
    sites = []
    for b in dd_unit(ctx, tag):
        if b.fn_name not in ('_branch_on', '_relax'):
            continue
        for (bb, t) in b.calls_to('push'):
            a = [b.origin.operand(x, b.term_point(bb)) for x in t['args']]
            if len(a) == 2 and self_field(a[0], 'edges') and isinstance(a[1], tuple) and a[1][0] == 'aggr' and a[1][1].endswith('::Edge'):
                sites.append((b, bb, a[1]))
    return sites


def r_append(ctx, rule='R02.4'):
    for tag, adt in DIAGRAMS:
        sites = append_sites(ctx, tag)
        fns = set(b_.fn_name for (b_, _, _) in sites)
        if not ctx.floor(rule, tag, None, len(fns & {'_branch_on', '_relax'}), 2, 'functions appending edges (_branch_on and _relax)'):
            continue
        accounted = set()
        for n, (b, bb, E) in enumerate(sites):
            pushp_ = b.term_point(bb)
            near_ = b.reach(b.after(pushp_), avoid=[b.term_point(b2) for (b3, b2, _) in sites if b3 is b and b2 != bb])
            for (pt, d, v, s_) in writes(b):
                if pt in near_ and any(node_field(d, f_) is not None for f_ in ('best', 'value_top', 'inbound')):
                    accounted.add((b.name, pt))
        # the longest-path bookkeeping of a node (value_top, best, inbound) is written by an edge append and by nothing else; an arc,
        # once created, is never rewritten (its decision and cost are the ones of the transition that created it)
        stray, edgew = [], []
        for b in dd_unit(ctx, tag):
            for (pt, d, v, s_) in writes(b):
                if any(node_field(d, f_) is not None for f_ in ('best', 'value_top', 'inbound')) and (b.name, pt) not in accounted:
                    stray.append((b, pt, d))
                if isinstance(d, tuple) and d and d[0] == 'field' and (d[3] or '').endswith('::Edge'):
                    edgew.append((b, pt, d))
        ctx.check(not stray, rule, tag + '/longest-path-fields-written-by-appends-only', stray[0][0] if stray else None, stray[0][0].loc(*stray[0][1]) if stray else '-',
                  'value_top / best / inbound of a node are written only by the append of an arc into that node',
                  '%s writes %s outside an edge append: value and witness edge of a node no longer describe one arc of its inbound list' % (short(stray[0][0]) if stray else '', M.show(stray[0][2])[:80] if stray else ''))
        for r_id in (rule, 'R12.a'):
            ctx.check(not edgew, r_id, tag + '/arcs-are-never-rewritten', edgew[0][0] if edgew else None, edgew[0][0].loc(*edgew[0][1]) if edgew else '-',
                      'no field of an existing Edge is ever written (decision and cost stay those of the transition that created the arc)',
                      '%s rewrites %s of an existing arc: relax() / the reported path then see a (decision, cost) pair that no transition produced' % (short(edgew[0][0]) if edgew else '', M.show(edgew[0][2])[:80] if edgew else ''))
        # an append is unconditional: every path through _branch_on (both arms) and every call of the redirect closure stores its arc — the
        # bottom-up passes (local bounds, thresholds, frontier) look at ALL arcs, not only at those that improved a value when they were met
        for fb_ in set(b_ for (b_, _, _) in sites):
            pp_ = [fb_.term_point(bb_) for (b2_, bb_, _) in sites if b2_ is fb_]
            r_ = fb_.reach([(0, 0)], avoid=pp_)
            ctx.check(not any(p_ in r_ for p_ in ret_points(fb_)), rule, '%s/every-arc-is-stored/%s' % (tag, short(fb_)), fb_, fb_.loc(0),
                      'every path through %s pushes its arc onto edges' % short(fb_),
                      '%s can return without storing the arc it was given (a "useless" parallel / dominated arc skipped): local bounds and thresholds computed bottom-up miss that arc' % short(fb_))
        for n, (b, bb, E) in enumerate(sites):
            ctx.analysed_bodies.add(b.name)
            inst = '%s/%s#%d' % (tag, b.fn_name, n)
            e = dict(E[3])
            frm, to, cost = id0(e['from']), id0(e['to']), e['cost']
            pushp = b.term_point(bb)
            after = b.reach(b.after(pushp))
            ws = [(pt, d, v) for (pt, d, v, s) in writes(b) if pt in after]
            bestw = [(pt, d, v) for (pt, d, v) in ws if node_field(d, 'best') is not None]
            valw = [(pt, d, v) for (pt, d, v) in ws if node_field(d, 'value_top') is not None]
            # consider only the writes belonging to this append (closest ones: not reachable through another edge push)
            other_push = [b.term_point(b2) for (b3, b2, _) in sites if b3 is b and b2 != bb]
            near = b.reach(b.after(pushp), avoid=other_push)
            bestw = [w for w in bestw if w[0] in near]
            valw = [w for w in valw if w[0] in near]
            if not (bestw and valw):
                ctx.bad(rule, inst + '/update', b, b.loc(bb), 'the edge append does not update both value_top and best of the target node')
                continue
            (bp, bd, bv), (vp, vd, vv) = bestw[0], valw[0]
            want_val = M.mk_add(('field', ('index', bd[1][1], frm), 'value_top', bd[3]), cost) if False else None
            tgt_ok = node_field(bd, 'best') == to and node_field(vd, 'value_top') == to
            ctx.check(tgt_ok, rule, inst + '/target', b, b.loc(*bp), 'value_top and best are updated on the edge\'s target node',
                      'the longest-path update after pushing the edge touches node %s / %s, not the edge target %s' % (M.show(node_field(bd, 'best')), M.show(node_field(vd, 'value_top')), M.show(to)))
            # value = parent.value_top (+) edge.cost
            good_val = isinstance(vv, tuple) and vv[0] == 'add' and len(vv[1]) == 2 and cost in vv[1] and \
                any(node_field(x, 'value_top') == frm for x in vv[1])
            ctx.check(good_val, rule, inst + '/value', b, b.loc(*vp), 'new value = source.value_top (+) edge.cost',
                      'value_top := %s is not source.value_top + cost of the appended edge' % M.show(vv))
            # witness: best = Some(id of the edge just pushed)
            wit = isinstance(bv, tuple) and bv[0] == 'aggr' and bv[2] == 'Some' and M.is_call(id0(bv[3][0][1]), 'len') and self_field(id0(bv[3][0][1])[2][0], 'edges')
            if wit:
                lensite = id0(bv[3][0][1])[3]
                wit = lensite is not None and lensite[0] == b.name and pushp in b.reach(b.after(b.term_point(lensite[1]))) and \
                    b.term_point(lensite[1]) not in b.reach(b.after(pushp), avoid=[b.term_point(lensite[1])] if False else ())  or True
                wit = lensite is not None and lensite[0] == b.name and pushp in b.reach(b.after(b.term_point(lensite[1])), avoid=other_push)
            ctx.check(wit, rule, inst + '/witness', b, b.loc(*bp), 'best := Some(id of the edge just pushed) (edges.len() taken immediately before the push)',
                      'best := %s is not the id of the edge just pushed' % M.show(bv))
            # coupled + guard (E11: >= only)
            same = bp[0] == vp[0]
            is_val = lambda t: t == vv
            is_old = lambda t: node_field(t, 'value_top') == to

            def acc(atoms, lit):
                return any(M.cmp_matches(a, is_val, is_old, '>=') and _rel(a, is_val) == frozenset('>=') for a in atoms)
            ok, cut, bad = M.guarded(b, [bp, vp], acc, starts=b.after(pushp))
            ctx.check(same and ok, rule, inst + '/max-update', b, b.loc(*vp),
                      'value_top and best are written together, only on an edge asserting new >= old (longest path, first arc becomes the witness)',
                      'the longest-path update is not a `new >= old` max-update writing value and witness together (a `>` loses the first arc\'s witness, `<=` keeps the shortest path)')
            # exactness propagation: exact := source exact & target exact
            se = [(b2, t2) for (b2, t2) in b.calls_to('set_exact') if b.term_point(b2) in near]
            good = False
            for (b2, t2) in se:
                a = [b.origin.operand(x, b.term_point(b2)) for x in t2['args']]
                fl = node_field(a[0], 'flags')
                v = a[1]
                if fl == to and isinstance(v, tuple) and v[0] == 'bin' and v[1] == 'BitAnd':
                    parts = [v[2], v[3]]
                    if any(M.is_call(p, 'is_exact') and node_field(p[2][0], 'flags') == frm for p in parts) and \
                            any(M.is_call(p, 'is_exact') and node_field(p[2][0], 'flags') == to for p in parts):
                        good = True
            ctx.check(good, 'R06.2', inst + '/exact-propagation', b, b.loc(bb), 'target.exact := source.is_exact() & target.is_exact() (an arc can only clear exactness)',
                      'appending an edge does not set target.exact := source.exact & target.exact')
            # adjacency list: inbound of the target gets the new list cell whose head is the new edge and tail the old list
            inw = [(pt, d, v) for (pt, d, v) in ws if node_field(d, 'inbound') is not None and pt in near]
            cells = [(b2, t2) for (b2, t2) in b.calls_to('push') if b.term_point(b2) in near and self_field(b.origin.operand(t2['args'][0], b.term_point(b2)), 'edgelists')]
            good = bool(inw) and bool(cells)
            if good:
                cell = b.origin.operand(cells[0][1]['args'][1], b.term_point(cells[0][0]))
                c = dict(cell[3]) if isinstance(cell, tuple) and cell[0] == 'aggr' and cell[2] == 'Cons' else {}
                good = bool(c) and M.is_call(id0(c['head']), 'len') and self_field(id0(c['head'])[2][0], 'edges') and node_field(c['tail'], 'inbound') == to \
                    and node_field(inw[0][1], 'inbound') == to and M.is_call(id0(inw[0][2]), 'len') and self_field(id0(inw[0][2])[2][0], 'edgelists')
            ctx.check(good, 'R02.4', inst + '/adjacency', b, b.loc(bb), 'the new arc is linked at the head of the target\'s inbound list (no arc is lost)',
                      'the inbound list of the target is not extended with (new edge, old list)')


# ------------------------------------------------------------------------------------------------
# C12 (a)(b) — _branch_on
# ------------------------------------------------------------------------------------------------
def r_branch_on(ctx, rule='R12.a'):
    for tag, adt in DIAGRAMS:
        b = ctx.body(adt, '_branch_on')
        tr = b.calls_to('Problem::transition')
        tc = b.calls_to('Problem::transition_cost')
        if not (ctx.floor(rule, tag + '/transition', b, len(tr), 1, 'Problem::transition call') and ctx.floor(rule, tag + '/transition_cost', b, len(tc), 1, 'Problem::transition_cost call')):
            continue
        ta = [b.origin.operand(x, b.term_point(tr[0][0])) for x in tr[0][1]['args']]
        ca = [b.origin.operand(x, b.term_point(tc[0][0])) for x in tc[0][1]['args']]
        frm = M.simplify_field(('param', b.name, 1, 'from_id'), '0', None)
        src_ok = node_field(ta[1], 'state') is not None and M.is_param(node_field(ta[1], 'state')[1] if isinstance(node_field(ta[1], 'state'), tuple) and node_field(ta[1], 'state')[0] == 'field' else None, index=1)
        ctx.check(src_ok, rule, tag + '/transition-src', b, b.loc(tr[0][0]), 'transition(src = state of the from_id node, d = the decision parameter)',
                  'transition is applied to %s' % M.show(ta[1]))
        ctx.check(M.is_param(ta[2], index=2), rule, tag + '/transition-decision', b, b.loc(tr[0][0]), 'transition receives the decision parameter', 'transition receives %s' % M.show(ta[2]))
        trans = b.origin.call(tr[0][1], b.term_point(tr[0][0]))
        ctx.check(ca[1] == ta[1], rule, tag + '/cost-src', b, b.loc(tc[0][0]), 'transition_cost gets the same source state as transition',
                  'transition_cost source %s differs from transition source %s' % (M.show(ca[1]), M.show(ta[1])))
        ctx.check(ca[2] == trans, rule, tag + '/cost-dst', b, b.loc(tc[0][0]), 'transition_cost gets dst = the state returned by that transition call',
                  'transition_cost dst is %s, not the result of the transition call' % M.show(ca[2]))
        ctx.check(ca[3] == ta[2] and M.is_param(ca[3], index=2), rule, tag + '/cost-decision', b, b.loc(tc[0][0]), 'transition_cost gets the same decision',
                  'transition_cost decision is %s' % M.show(ca[3]))
        cost = b.origin.call(tc[0][1], b.term_point(tc[0][0]))
        # edges: from = from_id, decision = decision, cost = that cost; to = node found/created under the key `next state`
        term_c = TERMINAL[tag]
        ent = [(bb, t) for (bb, t) in b.calls_to('entry') if self_field(b.origin.operand(t['args'][0], b.term_point(bb)), term_c)]
        if ctx.floor(rule, tag + '/entry', b, len(ent), 1, 'entry() on the layer index'):
            key = b.origin.operand(ent[0][1]['args'][1], b.term_point(ent[0][0]))
            ctx.check(key == trans, rule, tag + '/dedup-key', b, b.loc(ent[0][0]), 'the next layer is indexed by the state returned by transition', 'entry key is %s' % M.show(key))
        sites = [s for s in append_sites(ctx, tag) if s[0] is b]
        for n, (_, bb, E) in enumerate(sites):
            e = dict(E[3])
            good = M.is_param(e['from'], index=1) and M.is_param(e['decision'], index=2) and e['cost'] == cost
            ctx.check(good, rule, '%s/edge#%d-fields' % (tag, n), b, b.loc(bb), 'edge = (from_id, decision, cost returned by transition_cost)',
                      'edge pushed by _branch_on is %s' % M.show(E))
            def target_ok(to):
                return (isinstance(to, tuple) and to[0] == 'aggr' and M.is_call(id0(to), 'len') and self_field(id0(to)[2][0], 'nodes')) or \
                    (M.is_call(to, 'get') and M.contains(to, lambda x: M.is_call(x, 'entry'))) or \
                    (M.is_call(to, 'insert', 'or_insert', 'or_insert_with') and M.contains(to, lambda x: M.is_call(x, 'entry')))
            tos = [x for leaf in M.leaves(e['to']) for x in var_def_terms(b, leaf)]
            t_ok = bool(tos) and all(target_ok(x) for x in tos)
            to = e['to']
            ctx.check(t_ok, rule, '%s/edge#%d-target' % (tag, n), b, b.loc(bb), 'edge target = node just created or node stored under the state key', 'edge target is %s' % M.show(to))
        # node creation
        npush = [(bb, t) for (bb, t) in b.calls_to('push') if self_field(b.origin.operand(t['args'][0], b.term_point(bb)), 'nodes')]
        if ctx.floor(rule, tag + '/node-push', b, len(npush), 1, 'node creation'):
            nd = b.origin.operand(npush[0][1]['args'][1], b.term_point(npush[0][0]))
            f = dict(nd[3]) if isinstance(nd, tuple) and nd[0] == 'aggr' else {}
            good = bool(f) and f.get('state') == trans and isinstance(f.get('value_top'), tuple) and f['value_top'][0] == 'add' and cost in f['value_top'][1] \
                and any(node_field(x, 'value_top') is not None for x in f['value_top'][1])
            ctx.check(good, rule, tag + '/new-node', b, b.loc(npush[0][0]), 'new node: state = transition result, value_top = source.value_top (+) cost',
                      'new node is %s' % M.show(nd)[:300])
            th = f.get('theta')
            ctx.check(isinstance(th, tuple) and th[0] == 'aggr' and th[2] == 'None', 'R09.5', tag + '/theta-init', b, b.loc(npush[0][0]), 'theta = None at node creation', 'theta initialised with %s' % M.show(th))
            dp = f.get('depth')
            good = isinstance(dp, tuple) and dp[0] == 'add' and any(M.is_const(x, 1) for x in dp[1]) and any(node_field(x, 'depth') is not None for x in dp[1])
            ctx.check(good, rule, tag + '/new-node-depth', b, b.loc(npush[0][0]), 'new node depth = source depth + 1', 'new node depth is %s' % M.show(dp))
        # who may call _branch_on
        callers = []
        for body in dd_unit(ctx, tag):
            for (bb, t) in body.calls_to('_branch_on'):
                callers.append((body, bb, t))
        for (body, bb, t) in callers:
            site = ctx.F.closure_site(body.name) if body.kind == 'closure' else None
            good = False
            if site is not None:
                (pb, pbb, pi, ps) = site
                dest = ps['place']['l']
                for (fb, ft) in pb.calls_to('Problem::for_each_in_domain'):
                    fa = [pb.origin.operand(x, pb.term_point(fb)) for x in ft['args']]
                    if any(isinstance(x, tuple) and x[0] == 'closure' and x[1] == body.name for x in fa):
                        a = [body.origin.operand(x, body.term_point(bb)) for x in t['args']]
                        st_idx = node_field(fa[2], 'state')
                        good = st_idx is not None and id0(a[1]) == st_idx and M.is_param(a[2]) and a[2][1] == body.name
            ctx.check(good, 'R12.b', '%s/who-calls-branch_on/%s' % (tag, short(body)), body, body.loc(bb),
                      '_branch_on is called only from the closure handed to for_each_in_domain, with that closure\'s decision and the node whose state was enumerated',
                      '_branch_on is called from %s with arguments not tied to a for_each_in_domain enumeration' % body.name)
        ctx.floor('R12.b', tag + '/callers', b, len(callers), 1, 'call sites of _branch_on')


def short(body):
    return (body.fn_name or '?') + ('::closure' if body.kind == 'closure' else '')


# ------------------------------------------------------------------------------------------------
# _compile: C12 (c)(d), C05 R05.1, C01 R01.6, C06 R06.3 (order), C13 (vector expanded)
# ------------------------------------------------------------------------------------------------
def depth_counter(tag, t):
    if tag == 'Mdd':
        return self_field(t, 'curr_depth')
    return M.is_field(t, '0') and self_field(t[1], 'curr_l')


def r_compile(ctx):
    for tag, adt in DIAGRAMS:
        b = ctx.body(adt, '_compile')
        nv = b.calls_to('Problem::next_variable')
        fe = b.calls_to('Problem::for_each_in_domain')
        ms = b.calls_to('Cutoff::must_stop')
        fin = b.calls_to('_finalize')
        mv = b.calls_to('_move_to_next_layer')
        if not (ctx.floor('R12.c', tag + '/next_variable', b, len(nv), 1, 'next_variable call') and ctx.floor('R12.c', tag + '/for_each_in_domain', b, len(fe), 1, 'for_each_in_domain call')
                and ctx.floor('R05.1', tag + '/must_stop', b, len(ms), 1, 'must_stop call') and ctx.floor('R05.1', tag + '/finalize', b, len(fin), 1, '_finalize call')
                and ctx.floor('R13.a', tag + '/move', b, len(mv), 1, '_move_to_next_layer call')):
            continue
        nvp, fep, msp, finp, mvp = [b.term_point(x[0][0]) for x in (nv, fe, ms, fin, mv)]
        na = [b.origin.operand(x, nvp) for x in nv[0][1]['args']]
        fa = [b.origin.operand(x, fep) for x in fe[0][1]['args']]
        # (d) depth argument is the layer counter, iterator ranges over the terminal container's keys
        ctx.check(depth_counter(tag, na[1]), 'R12.d', tag + '/next_variable-depth', b, b.loc(nv[0][0]), 'next_variable receives the layer counter',
                  'next_variable receives depth %s, not the layer counter' % M.show(na[1]))
        ctx.check(M.contains(na[2], lambda x: M.is_call(x, 'keys') and self_field(x[2][0], TERMINAL[tag])), 'R12.d', tag + '/next_variable-states', b, b.loc(nv[0][0]),
                  'next_variable sees the states of the next layer', 'next_variable iterates %s' % M.show(na[2])[:200])
        # counter initialised from residual.depth, incremented exactly once per iteration
        ib = ctx.body(adt, '_initialize')
        iw = [(pt, d, v) for (pt, d, v, s) in writes(ib) if depth_counter(tag, d) or (tag == 'Pooled' and self_field(d, 'curr_l'))]
        good = bool(iw) and all(M.contains(v, lambda x: is_subproblem_field(x, 'depth') and M.is_field(x[1], 'residual', 'CompilationInput')) for (pt, d, v) in iw)
        if good:
            r = ib.reach([(0, 0)], avoid=[pt for (pt, d, v) in iw])
            good = not any(p in r for p in ret_points(ib))
        ctx.check(good, 'R12.d', tag + '/counter-init', ib, ib.loc(0), 'the layer counter starts at residual.depth', 'the layer counter is not initialised from input.residual.depth on every path')
        incs = [(pt, d, v) for (pt, d, v, s) in writes(b) if depth_counter(tag, d)]
        good = bool(incs) and all(v == M.mk_add(('const', 1, None, 'usize'), d) for (pt, d, v) in incs)
        some_edge = [(tb, 0) for bb in b.live_blocks() if b.term(bb)['k'] == 'switch' for (tb, lab) in b.succ(bb)
                     if (lambda lit: lit and lit[0] == 'in' and lit[2] == frozenset(['Some']) and M.is_call(lit[1], 'Problem::next_variable'))(M.edge_literal(b, bb, lab))]
        if good and some_edge:
            r = b.reach(some_edge, avoid=[pt for (pt, d, v) in incs])
            good = nvp not in r
            for (pt, d, v) in incs:
                r2 = b.reach(b.after(pt), stop=[nvp])
                if any(p2 in r2 for (p2, _, _) in incs):
                    good = False
        else:
            good = False
        ctx.check(good, 'R12.d', tag + '/counter-step', b, b.loc(*incs[0][0]) if incs else b.loc(0), 'the layer counter is incremented exactly once on every path through the loop body',
                  'the layer counter is not incremented exactly once per layer iteration')
        # (c) var comes from this iteration's next_variable; state belongs to a node of the vector produced by _move_to_next_layer
        nvt = b.origin.call(nv[0][1], nvp)
        var_ok = fa[1] == M.simplify_field(M.simplify_variant(nvt, 'Some'), '0', None)
        ctx.check(var_ok, 'R12.c', tag + '/domain-variable', b, b.loc(fe[0][0]), 'domains are enumerated for the variable returned by next_variable in the same iteration',
                  'for_each_in_domain receives variable %s' % M.show(fa[1])[:200])
        st_idx = node_field(fa[2], 'state')
        if tag == 'Mdd':
            vec = b.origin.operand(mv[0][1]['args'][2], mvp)
        else:
            vec = b.origin.call(mv[0][1], mvp)
        from_vec = st_idx is not None and M.contains(st_idx, lambda x: M.is_call(x, 'Iterator::next') and M.contains(x, lambda y: y == vec))
        ctx.check(from_vec, 'R12.c', tag + '/domain-state', b, b.loc(fe[0][0]), 'the state enumerated belongs to a node of the vector produced by _move_to_next_layer (after squashing)',
                  'for_each_in_domain receives state %s which is not a node of the layer vector %s' % (M.show(fa[2])[:160], M.show(vec)))
        ctx.check(M.is_field(fa[0], 'problem', 'CompilationInput') and M.is_field(na[0], 'problem', 'CompilationInput'), 'R12.c', tag + '/problem', b, b.loc(fe[0][0]),
                  'callbacks are invoked on input.problem', 'callbacks invoked on %s' % M.show(fa[0]))
        # the move happens in every iteration before the enumeration
        r = b.reach(some_edge, avoid=[mvp])
        ctx.check(fep not in r, 'R13.a', tag + '/move-before-expand', b, b.loc(mv[0][0]), 'every layer goes through _move_to_next_layer (filters + squash) before it is expanded',
                  'a path expands a layer without _move_to_next_layer')
        # the unrolling stops only when no variable is left or no node is left (not when a layer happens to have nothing to expand:
        # with long arcs / filters an empty expansion list does not mean an empty diagram)
        term_c = TERMINAL[tag]
        mvv = move_verdicts(ctx.body(adt, '_move_to_next_layer')) if tag == 'Mdd' else None
        def stop_ok(atoms, lit):
            for a in atoms:
                if opt_is(a, lambda x: M.is_call(x, 'Problem::next_variable'), 'None'):
                    return True
                if empty_lit(a, lambda x: self_field(x, term_c)):
                    return True
                if tag == 'Mdd' and mvv is not None and asserts_verdict(a, lambda x: M.is_call(x, '_move_to_next_layer'), mvv[0]):
                    return True
            return False
        ok, cut, bad = M.guarded(b, [finp], stop_ok)
        ctx.check(ok, 'R07.5', tag + '/unroll-until-no-variable-or-no-node', b, b.loc(fin[0][0]),
                  'the layer loop is left (towards _finalize) only when next_variable() is None or the next-layer container is empty',
                  'the compilation can stop unrolling although a variable is left and nodes are still waiting (e.g. because the list of nodes to expand in this layer is empty): waiting nodes are taken for terminals')
        if tag == 'Mdd':
            mvb = ctx.body(adt, '_move_to_next_layer')
            # the verdict that stops the unrolling (false, or the unit variant answered for an empty layer) is answered ONLY for an empty
            # drained layer (move_verdicts picks it as the constant guarded by "parameter #2 is empty"; the other one must not be)
            falses = mvv[2] if mvv else []
            okf = mvv is not None
            filt = call_points(mvb, '_filter_with_cache', '_filter_with_dominance', '_squash_if_needed')
            for p_ in filt:
                r_ = mvb.reach(mvb.after(p_))
                if any(f_ in r_ for f_ in falses):
                    okf = False
            dr = [(bb_, t_) for (bb_, t_) in mvb.calls_to('drain') if self_field(mvb.origin.operand(t_['args'][0], mvb.term_point(bb_)), term_c)]
            ctx.check(okf and bool(dr), 'R07.5', tag + '/move-false-iff-no-node', mvb, mvb.loc(0),
                      '_move_to_next_layer answers false only when the drained next layer is empty, decided before any filter runs',
                      '_move_to_next_layer can answer false (stop the compilation) for a layer that was emptied by the cache/dominance filters: its thresholds are never propagated')
        # R05.1 cutoff
        errs = [(bb, i) for (bb, i, s) in aggr_assigns(b, 'Result', 'Err') if s['place']['l'] == 0]
        stop_t = lambda atoms, lit: any(a[0] == 'T' and M.is_call(a[1], 'Cutoff::must_stop') for a in atoms)
        if ctx.floor('R05.1', tag + '/err', b, len(errs), 1, 'Err(..) return in _compile'):
            ok, cut, bad = M.guarded(b, errs, stop_t)
            ctx.check(ok, 'R05.1', tag + '/err-only-on-cutoff', b, b.loc(*errs[0]), 'Err(CutoffOccurred) is returned only when must_stop() answered true',
                      '_compile can return Err without the cutoff having fired')
            for (bbk, lab) in cut:
                tb = [t for (t, l) in b.succ(bbk) if l == lab][0]
                r = b.reach([(tb, 0)])
                ctx.check(finp not in r and nvp not in r and fep not in r and all(p in r for p in errs[:1]), 'R05.1', tag + '/cutoff-stops-everything', b, b.loc(bbk),
                          'once must_stop() answers true the compilation returns Err without finalising (no thresholds, cut-set or best node from a partial diagram)',
                          'after must_stop() == true the compilation goes on (reaches _finalize / the next layer) instead of returning Err: bounds are derived from a partial diagram')
        r = b.reach(some_edge, avoid=[msp])
        ctx.check(fep not in r, 'R05.1', tag + '/poll-every-layer', b, b.loc(ms[0][0]), 'the cutoff is polled in every layer iteration', 'a layer can be expanded without polling the cutoff')
        # R01.6 rough upper bound pruning
        rub_or_field = lambda x: M.is_call(x, 'Relaxation::fast_upper_bound') or node_field(x, 'rub') is not None
        def is_tot(t):
            if not (isinstance(t, tuple) and t[0] == 'add' and len(t[1]) == 2):
                return False
            r_ = [x for x in t[1] if rub_or_field(x)]
            v_ = [x for x in t[1] if node_field(x, 'value_top') is not None]
            if not (r_ and v_):
                return False
            # rub computed on the state of the node whose value_top is used, which is the node being expanded
            vi = node_field(v_[0], 'value_top')
            if M.is_call(r_[0], 'Relaxation::fast_upper_bound'):
                ri = node_field(r_[0][2][1], 'state')
            else:
                ri = node_field(r_[0], 'rub')
            return vi == ri == st_idx
        def acc(atoms, lit):
            return any(M.cmp_matches(a, is_tot, is_input_lb, '>=') and '>' in _rel(a, is_tot) for a in atoms)
        ok, cut, bad = M.guarded(b, [fep], acc)
        ctx.check(ok, 'R01.6', tag + '/rub-prune', b, b.loc(fe[0][0]), 'a node is expanded only on an edge asserting rub(state) (+) value_top >|>= input.best_lb, all three of the node being expanded',
                  'the expansion guard is not `fast_upper_bound(node.state) + node.value_top > input.best_lb` on the node being expanded')
        for (bbk, lab) in cut:
            tb = [t for (t, l) in b.succ(bbk) if l == lab][0]
            r = b.reach([(tb, 0)], avoid=[fep])
            ctx.check(nvp not in r and finp not in r, 'R01.6', tag + '/rub-keep-must-expand', b, b.loc(bbk), 'a node passing the bound test is always expanded',
                      'a node with rub + value > best_lb can be skipped')
        # stored rub is the computed one (used later by thresholds and cut-set bounds)
        rw = [(pt, d, v) for (pt, d, v, s) in writes(b) if node_field(d, 'rub') is not None]
        good = bool(rw) and all(M.is_call(v, 'Relaxation::fast_upper_bound') and node_field(v[2][1], 'state') == node_field(d, 'rub') for (pt, d, v) in rw)
        ctx.check(good, 'R08.4', tag + '/rub-stored', b, b.loc(*rw[0][0]) if rw else b.loc(0), 'node.rub := fast_upper_bound(node.state) of the same node', 'node.rub is not the rough bound of the node\'s own state')
        # R06.3 order: _clear, then _initialize, before anything else
        cl = b.calls_to('_clear')
        ini = b.calls_to('_initialize')
        good = bool(cl) and bool(ini)
        if good:
            clp, inp = b.term_point(cl[0][0]), b.term_point(ini[0][0])
            other = [b.term_point(bb) for (bb, t) in b.calls() if b.term_point(bb) not in (clp, inp) and not (t.get('callee') or '').startswith(('std::ops::Deref', 'std::vec::Vec::<T>::new'))]
            r0 = b.reach([(0, 0)], avoid=[clp])
            r1 = b.reach([(0, 0)], avoid=[inp])
            good = not any(p in r0 for p in other + [inp]) and not any(p in r1 for p in other)
        ctx.check(good, 'R06.3', tag + '/clear-then-initialize-first', b, b.loc(0), '_compile runs _clear and _initialize before anything else on every path',
                  '_compile does not start with _clear(); _initialize(): state of a previous compilation can leak')
        # ... and the public entry point cannot answer without compiling: every return of DecisionDiagram::compile passes through _compile
        # (an early `Ok(..)` in the wrapper leaves the content of the PREVIOUS compilation behind the accessors), and answers with its result
        wb = ctx.body(adt, 'compile', trait='DecisionDiagram')
        wc = [wb.term_point(bb) for (bb, t) in wb.calls_to('_compile')]
        good = bool(wc)
        if good:
            r0 = wb.reach([(0, 0)], avoid=wc)
            good = not any(p in r0 for p in ret_points(wb))
            for (edges_, blocks_, end_) in M.enumerate_paths(wb, (0, 0)):
                rt_ = _path_ret(wb, blocks_, end_)
                if rt_ is None:
                    rets_ = wb.return_blocks()
                    rt_ = wb.origin.place({'l': 0, 'p': []}, wb.term_point(rets_[0])) if rets_ else None
                good = good and rt_ is not None and M.contains(rt_, lambda x: M.is_call(x, '_compile'))
        ctx.check(good, 'R06.3', tag + '/compile-entry-always-compiles', wb, wb.loc(0), 'DecisionDiagram::compile returns the result of _compile on every path (no answer without clearing and rebuilding the diagram)',
                  'DecisionDiagram::compile can return without running _compile: the accessors (best_value, best_solution, is_exact, cut-set) keep answering about the previous compilation')
        # result: Completion{is_exact: self.is_exact(), best_value: value_top of best_node}
        comp = aggr_assigns(b, 'common::Completion')
        for (bb, i, s) in comp:
            v = b.origin.rvalue(s['rv'], (bb, i))
            ex = M.simplify_field(v, 'is_exact', None)
            ctx.check(M.is_call(ex, 'is_exact') and M.is_param(ex[2][0], index=0), 'R01.7', tag + '/completion-is_exact', b, b.loc(bb, i), 'Completion.is_exact = self.is_exact()', 'Completion.is_exact = %s' % M.show(ex))


# ------------------------------------------------------------------------------------------------
# _squash_if_needed / _restrict / _relax : R01.7, R07, R06.1, R12.e, R13
# ------------------------------------------------------------------------------------------------
def _ensures_lel_some(body):
    """all paths through `body` end with self.lel = Some(..) (written, or already Some)"""
    ws = [pt for (pt, d, v, s) in writes(body) if self_field(d, 'lel') and isinstance(v, tuple) and v[0] == 'aggr' and v[2] == 'Some']
    def acc(atoms, lit):
        for a in atoms:
            if opt_is(a, lambda x: self_field(x, 'lel'), 'Some'):
                return True
        return False
    cut = _cut_edges(body, acc)
    r = body.reach([(0, 0)], cut_edges=cut, avoid=ws)
    return bool(ws) and not any(p in r for p in ret_points(body))


def _writes_inexact(body):
    ws = [pt for (pt, d, v, s) in writes(body) if self_field(d, 'is_exact') and M.is_const(v, False)]
    r = body.reach([(0, 0)], avoid=ws)
    return bool(ws) and not any(p in r for p in ret_points(body))


def r_squash(ctx):
    for tag, adt in DIAGRAMS:
        b = ctx.body(adt, '_squash_if_needed')
        rs = b.calls_to('_restrict')
        rx = b.calls_to('_relax')
        if not (ctx.floor('R01.7', tag + '/restrict-call', b, len(rs), 1, '_restrict call') and ctx.floor('R01.7', tag + '/relax-call', b, len(rx), 1, '_relax call')):
            continue
        comp_type = lambda t: M.is_field(t, 'comp_type', 'CompilationInput')
        is_len = lambda t: isinstance(t, tuple) and t[0] in ('len',) or M.is_call(t, 'len')
        is_w = lambda t: M.is_field(t, 'max_width', 'CompilationInput')
        for (kind, calls, variant) in (('restrict', rs, 'Restricted'), ('relax', rx, 'Relaxed')):
            for (bb, t) in calls:
                p = b.term_point(bb)
                ok, cut, bad = M.guarded(b, [p], lambda atoms, lit: any(enum_is(a, comp_type, variant) for a in atoms))
                ctx.check(ok, 'R07.1', '%s/%s-only-in-%s' % (tag, kind, variant), b, b.loc(bb), '_%s is reachable only in a %s compilation (Exact never squashes, Restricted never merges)' % (kind, variant),
                          '_%s can run in a compilation whose type is not %s' % (kind, variant))
                # width guard
                allowed = '>=' if kind == 'restrict' else '>'
                def accw(atoms, lit, allowed=allowed):
                    return any(M.cmp_matches(a, lambda t: M.is_call(t, 'len') and M.is_param(t[2][0], index=2), is_w, allowed) and '>' in _rel(a, lambda t: M.is_call(t, 'len')) for a in atoms)
                ok, cut, bad = M.guarded(b, [p], accw)
                ctx.check(ok, 'R13.b' if kind == 'restrict' else 'R12.e', '%s/%s-width-guard' % (tag, kind), b, b.loc(bb),
                          '_%s runs only on an edge asserting len(layer) %s max_width' % (kind, '>|>=' if kind == 'restrict' else '>'),
                          '_%s can run without len(layer) > max_width being asserted%s' % (kind, ' (with >= a single node would be "merged")' if kind == 'relax' else ''))
                # inexactness marker
                callee = ctx.body(adt, '_' + kind)
                marker = _writes_inexact(callee)
                if not marker:
                    # a marker call before/after the squash call on every path of this arm
                    mk = [b.term_point(b2) for (b2, t2) in b.calls() if (t2.get('callee') or '') in ctx.F.bodies and _ensures_lel_some(ctx.F.bodies[t2['callee']])]
                    mk += [pt for (pt, d, v, s) in writes(b) if self_field(d, 'lel') and isinstance(v, tuple) and v[0] == 'aggr' and v[2] == 'Some']
                    # `if self.lel.is_none() { self.lel = Some(..) }` written in place: the edge asserting "already Some" is as good as the write
                    already = _cut_edges(b, lambda atoms, lit: any(opt_is(a_, lambda x: self_field(x, 'lel'), 'Some') for a_ in atoms))
                    r0 = b.reach([(0, 0)], cut_edges=already, avoid=mk)
                    before = p not in r0
                    r1 = b.reach(b.after(p), cut_edges=already, avoid=mk)
                    after_ = not any(q in r1 for q in ret_points(b))
                    marker = bool(mk) and (before or after_)
                ctx.check(marker, 'R01.7', '%s/%s-withdraws-exactness' % (tag, kind), b, b.loc(bb),
                          'every path that squashes a layer (%s) records the inexactness (lel := Some(..) / is_exact := false)' % kind,
                          'a layer can be %s without the diagram withdrawing its exactness claim' % ('truncated' if kind == 'restrict' else 'merged'))
        # C13: the squash is not only guarded, it is mandatory: the only exemptions are len <= w and (relaxed) fewer than two layers
        for (kind, calls, variant) in (('restrict', rs, 'Restricted'), ('relax', rx, 'Relaxed')):
            arm = [(tb, 0) for bbk in b.live_blocks() if b.term(bbk)['k'] == 'switch' for (tb, lab) in b.succ(bbk)
                   if any(enum_is(a_, comp_type, variant) for a_ in M.lit_atoms(M.edge_literal(b, bbk, lab)))]
            def exempt(atoms, lit, kind=kind):
                for a in atoms:
                    if M.cmp_matches(a, lambda t: M.is_call(t, 'len') and M.is_param(t[2][0], index=2), is_w, '<='):
                        return True
                    if kind == 'relax':
                        if M.cmp_matches(a, lambda t: M.is_call(t, 'len') and self_field(t[2][0], 'layers'), lambda t: M.is_const(t, 2), '<'):
                            return True
                        if M.cmp_matches(a, lambda t: M.is_call(t, 'len') and self_field(t[2][0], 'layers'), lambda t: M.is_const(t, 1), '<='):
                            return True
                return False
            # from the ENTRY (an exemption tested before the dispatch on the compilation type counts too): paths that are neither exempt
            # nor in another compilation type must reach the squash
            def other_type(atoms, lit, variant=variant):
                for a in atoms:
                    if a[0] == 'in' and comp_type(a[1]) and variant not in a[2]:
                        return True
                    if a[0] == 'cmp' and a[3] in (frozenset('='), frozenset('<>')):
                        for (x, y) in ((a[1], a[2]), (a[2], a[1])):
                            if comp_type(x) and isinstance(y, tuple) and y and y[0] == 'aggr':
                                if (a[3] == frozenset('=')) != (y[2] == variant):
                                    return True
                return False
            cut = _cut_edges(b, exempt) | _cut_edges(b, other_type)
            r = b.reach([(0, 0)], cut_edges=cut, avoid=[b.term_point(bb) for (bb, t) in calls])
            ctx.check(bool(arm) and not any(p in r for p in ret_points(b)), 'R13.b', '%s/%s-is-mandatory' % (tag, kind), b, b.loc(calls[0][0]),
                      'in a %s compilation a layer escapes the squash only when len <= max_width%s' % (variant, ' or fewer than two layers exist' if kind == 'relax' else ''),
                      'in a %s compilation a layer with len > max_width can be left unsquashed for a reason other than %s: layers wider than max_width are expanded' % (variant, '"fewer than two layers exist"' if kind == 'relax' else 'none'))
        # relaxed squash keeps the first layer below the root intact (E15)
        (bb, t) = rx[0]
        def accl(atoms, lit):
            for a in atoms:
                if M.cmp_matches(a, lambda t: M.is_call(t, 'len') and self_field(t[2][0], 'layers'), lambda t: M.is_const(t, 1), '>'):
                    return True
                if M.cmp_matches(a, lambda t: M.is_call(t, 'len') and self_field(t[2][0], 'layers'), lambda t: M.is_const(t, 2), '>='):
                    return True
            return False
        ok, cut, bad = M.guarded(b, [b.term_point(bb)], accl)
        ctx.check(ok, 'R08.3', tag + '/first-layer-not-squashed', b, b.loc(bb), 'a relaxed layer is merged only when at least two layers exist (the first layer below the root stays exact)',
                  'the relaxed squash can merge the first layer below the root (the root itself would enter the cut-set: no progress)')
        # exactness claim: is_exact() reads only the two flags; who writes is_exact
        ie = ctx.body(adt, 'is_exact', trait='DecisionDiagram')
        fields = set()
        for bb2 in ie.live_blocks():
            for s in ie.stmts(bb2):
                if s['k'] == 'assign':
                    for x in M.walk(ie.origin.rvalue(s['rv'], (bb2, 0))):
                        if isinstance(x, tuple) and x and x[0] == 'field' and len(x) == 4 and (x[3] or '').endswith(('clean::Mdd', 'pooled::Pooled')):
                            fields.add(x[2])
        ctx.check(fields == {'is_exact', 'has_exact_best_path'}, 'R01.7', tag + '/is_exact-reads', ie, ie.loc(0), 'is_exact() = is_exact || has_exact_best_path',
                  'DecisionDiagram::is_exact reads %s' % sorted(fields))
        # accepted origins of the is_exact field
        for body in dd_unit(ctx, tag):
            for (pt, d, v, s) in writes(body):
                if self_field(d, 'is_exact'):
                    okv = M.is_const(v, False) or (M.is_const(v, True) and body.fn_name in ('_clear', 'new')) or \
                        (is_variant_test(v, lambda x: self_field(x, 'lel'), 'None') and body.fn_name == '_finalize_exact')
                    ctx.check(okv, 'R01.7', '%s/is_exact-write/%s' % (tag, short(body)), body, body.loc(*pt), 'is_exact is written with false, with lel.is_none() at finalisation, or reset to true by _clear',
                              'is_exact := %s in %s' % (M.show(v), body.fn_name))
                if self_field(d, 'lel'):
                    okv = (isinstance(v, tuple) and v[0] == 'aggr' and v[2] == 'None' and body.fn_name in ('_clear', 'new')) or \
                        (isinstance(v, tuple) and v[0] == 'aggr' and v[2] == 'Some' and body.fn_name in ('_maybe_save_lel', '_finalize_cutset', '_squash_if_needed', '_restrict', '_relax'))
                    ctx.check(okv, 'R01.7', '%s/lel-write/%s' % (tag, short(body)), body, body.loc(*pt), 'lel is set by _maybe_save_lel / _finalize_cutset and reset by _clear only',
                              'lel := %s in %s' % (M.show(v), body.fn_name))
        # when a squash records the inexactness through `lel` only, the claim itself is computed at finalisation — on every path
        if not all(_writes_inexact(ctx.body(adt, '_' + k_)) for k_ in ('restrict', 'relax')):
            fe_b = ctx.body(adt, '_finalize_exact')
            wsx = [pt for (pt, d, v, s) in writes(fe_b) if self_field(d, 'is_exact') and is_variant_test(v, lambda x: self_field(x, 'lel'), 'None')]
            r_ = fe_b.reach([(0, 0)], avoid=wsx)
            ctx.check(bool(wsx) and not any(p_ in r_ for p_ in ret_points(fe_b)), 'R01.7', tag + '/is_exact-finalised', fe_b, fe_b.loc(0),
                      'every path through _finalize_exact computes is_exact := lel.is_none() (the squash only records lel)',
                      'a squashed layer is recorded through lel only, but _finalize_exact does not compute is_exact := lel.is_none() on every path: the diagram keeps claiming exactness after restricting / merging')
        if tag == 'Mdd':
            # _finalize_cutset must not run before _finalize_exact (it fills lel in)
            fb = ctx.body(adt, '_finalize')
            fe_ = call_points(fb, '_finalize_exact')
            fc_ = call_points(fb, '_finalize_cutset')
            good = bool(fe_) and bool(fc_) and fe_[0] not in fb.reach(fb.after(fc_[0]))
            ctx.check(good, 'R01.7', tag + '/finalize-order', fb, fb.loc(0), '_finalize_exact reads lel before _finalize_cutset fills it in', '_finalize_cutset (which sets lel) runs before _finalize_exact reads lel.is_none()')
            # the layer recorded at the first squash (in _squash_if_needed, a helper of it, or the squash functions themselves)
            ml = ctx.body(adt, '_squash_if_needed')
            ws = []
            for nm_ in ('_squash_if_needed', '_maybe_save_lel', '_restrict', '_relax'):
                for bx_ in ctx.F.find(adt=adt, name=nm_):
                    if bx_.name in ctx.F.bodies or nm_ == '_maybe_save_lel':
                        for (pt, d, v, s) in writes(bx_):
                            if self_field(d, 'lel') and not (nm_ == '_maybe_save_lel' and bx_.name not in ctx.F.bodies and any(self_field(d2, 'lel') for (p2, d2, v2, s2) in writes(ml))):
                                ws.append((pt, d, v))
                                if nm_ != '_squash_if_needed' and ml.fn_name == '_squash_if_needed':
                                    ml = bx_
            good = bool(ws)
            for (pt, d, v) in ws:
                inner = id0(v[3][0][1]) if isinstance(v, tuple) and v[0] == 'aggr' and v[2] == 'Some' else None
                good = good and inner == ('sub', ('call', 'std::vec::Vec::<T, A>::len', (('field', ('param', ml.name, 0, 'self'), 'layers', d[3]),), None), ('const', 1, None, 'usize')) or \
                    (good and isinstance(inner, tuple) and inner[0] == 'sub' and M.is_call(inner[1], 'len') and self_field(inner[1][2][0], 'layers') and M.is_const(inner[2], 1))
            ctx.check(good, 'R08.2', tag + '/lel-is-previous-layer', ml, ml.loc(0), 'the last exact layer recorded is the previous layer (layers.len() - 1)', 'lel is not layers.len() - 1 at the first squash')


def _layers_len(t):
    return M.is_call(t, 'len') and self_field(t[2][0], 'layers')


def _two_layers(a):
    """atom asserts layers.len() >= 2"""
    return M.cmp_matches(a, _layers_len, lambda t: M.is_const(t, 2), '>=') or M.cmp_matches(a, _layers_len, lambda t: M.is_const(t, 1), '>')


def _fewer_than_two_layers(a):
    return M.cmp_matches(a, _layers_len, lambda t: M.is_const(t, 2), '<') or M.cmp_matches(a, _layers_len, lambda t: M.is_const(t, 1), '<=')


def r_deleted_sites(ctx):
    """only the squash (restrict / relax) may flag a node deleted: deleted nodes are skipped by the threshold computation"""
    for tag, adt in DIAGRAMS:
        n = 0
        for body in dd_unit(ctx, tag):
            for (bb, t) in body.calls_to('set_deleted'):
                a = [body.origin.operand(x, body.term_point(bb)) for x in t['args']]
                if M.is_const(a[1], False):
                    continue
                n += 1
                root = ctx.F.bodies.get(body.root, body) if body.kind == 'closure' else body
                ctx.check(root.fn_name in ('_restrict', '_relax'), 'R07.6', '%s/who-deletes/%s' % (tag, short(root)), body, body.loc(bb),
                          'nodes are flagged deleted by the squash only', 'a node is flagged deleted in %s: deleted nodes are skipped when thresholds are computed and propagated' % root.fn_name)
        ctx.floor('R07.6', tag + '/sites', None, n, 2, 'set_deleted(true) sites (_restrict, _relax)')


def r_restrict(ctx):
    for tag, adt in DIAGRAMS:
        b = ctx.body(adt, '_restrict')
        tr = [(bb, t) for (bb, t) in b.calls_to('truncate')]
        good = False
        if tr:
            a = [b.origin.operand(x, b.term_point(tr[0][0])) for x in tr[0][1]['args']]
            good = M.is_param(a[0], index=2) and M.is_field(a[1], 'max_width', 'CompilationInput')
            r = b.reach([(0, 0)], avoid=[b.term_point(tr[0][0])])
            good = good and not any(p in r for p in ret_points(b))
        ctx.check(good, 'R13.b', tag + '/restrict-truncates-to-width', b, b.loc(tr[0][0]) if tr else b.loc(0), 'every exit of _restrict leaves len(layer) <= max_width (truncate(max_width) on all paths)',
                  '_restrict does not truncate the layer to max_width on every path')
        # dropped nodes are flagged deleted: the loop ranges over skip(max_width) of the same vector
        sd = b.calls_to('set_deleted')
        sk = b.calls_to('skip')
        good = bool(sd) and bool(sk)
        if good:
            a = [b.origin.operand(x, b.term_point(sk[0][0])) for x in sk[0][1]['args']]
            good = M.is_field(a[1], 'max_width', 'CompilationInput') and M.contains(a[0], lambda x: M.is_param(x, index=2))
            da = [b.origin.operand(x, b.term_point(sd[0][0])) for x in sd[0][1]['args']]
            good = good and M.is_const(da[1], True) and node_field(da[0], 'flags') is not None
            # sort happens before the flags are set
            so = b.calls_to('sort_unstable_by', 'sort_by', 'sort_by_key', 'sort_unstable_by_key')
            good = good and bool(so) and b.term_point(sd[0][0]) in b.reach(b.after(b.term_point(so[0][0])))
        ctx.check(good, 'R07.4', tag + '/restrict-deletes-dropped', b, b.loc(sd[0][0]) if sd else b.loc(0), 'after sorting, the nodes beyond max_width are flagged deleted', 'the nodes dropped by _restrict are not flagged deleted (after sorting, skip(max_width))')
        _sort_rule(ctx, tag, b)


def _sort_rule(ctx, tag, b):
    """the squash order: by value_top, then the user ranking, reversed (best first)"""
    so = b.calls_to('sort_unstable_by', 'sort_by')
    if not ctx.floor('R07.4', '%s/%s-sort' % (tag, b.fn_name), b, len(so), 1, 'sort of the layer'):
        return
    cl = b.origin.operand(so[0][1]['args'][1], b.term_point(so[0][0]))
    # comparator applied to (x, y): a closure or a function item; result = lex(cmp(x.value_top, y.value_top), ranking(..)).reverse()
    X, Y = ('cmparg', 0), ('cmparg', 1)
    rt = b.origin.apply_fn(cl, (X, Y))
    good = False
    if rt is not None and M.is_call(rt, 'reverse'):
        inner = rt[2][0]
        if isinstance(inner, tuple) and inner and inner[0] == 'lex' and len(inner[1]) == 2 and M.is_call(inner[1][0], 'Ord::cmp'):
            c = inner[1][0]
            fa, fb = node_field(c[2][0], 'value_top'), node_field(c[2][1], 'value_top')
            good = fa is not None and fb is not None and M.contains(fa, lambda x: x == X) and M.contains(fb, lambda x: x == Y) and \
                not M.contains(fa, lambda x: x == Y) and not M.contains(fb, lambda x: x == X)
            rk = inner[1][1]
            good = good and M.is_call(rk, 'StateRanking::compare') and M.contains(rk[2][1], lambda x: x == X) and M.contains(rk[2][2], lambda x: x == Y) and \
                not M.contains(rk[2][1], lambda x: x == Y) and not M.contains(rk[2][2], lambda x: x == X)
    ctx.check(good, 'R07.4', '%s/%s-sort-order' % (tag, b.fn_name), b, b.loc(so[0][0]), 'the layer is sorted by (value_top, ranking) descending: the best nodes are kept',
              'the squash order is not value_top.cmp(..).then_with(ranking).reverse() on (a, b): the wrong nodes are kept')


def r_relax(ctx):
    for tag, adt in DIAGRAMS:
        b = ctx.body(adt, '_relax')
        unit = ctx.unit(b)
        sp = b.calls_to('split_at_mut', 'split_at')
        mg = b.calls_to('Relaxation::merge')
        rl = [(c, bb, t) for c in unit for (bb, t) in c.calls_to('Relaxation::relax')]
        if not (ctx.floor('R12.e', tag + '/split', b, len(sp), 1, 'split of the layer') and ctx.floor('R12.e', tag + '/merge', b, len(mg), 1, 'Relaxation::merge call')
                and ctx.floor('R12.e', tag + '/relax', b, len(rl), 1, 'Relaxation::relax call')):
            continue
        spt = b.origin.call(sp[0][1], b.term_point(sp[0][0]))
        sa = spt[2]
        w1 = ('sub', None, None)
        idx_ok = isinstance(sa[1], tuple) and sa[1][0] == 'sub' and M.is_field(sa[1][1], 'max_width', 'CompilationInput') and M.is_const(sa[1][2], 1)
        ctx.check(M.is_param(sa[0], index=2) and idx_ok, 'R13.b', tag + '/relax-split-index', b, b.loc(sp[0][0]), 'the layer is split at max_width - 1 (keep w-1, merge the rest: at least 2 nodes since len > w)',
                  'the layer is split at %s, not max_width - 1' % M.show(sa[1]))
        keep_t = M.simplify_field(spt, '0', None)
        merge_t = M.simplify_field(spt, '1', None)
        mgt = b.origin.call(mg[0][1], b.term_point(mg[0][0]))
        it = mgt[2][1]
        good = M.contains(it, lambda x: x == merge_t)
        mapc = [x for x in M.walk(it) if isinstance(x, tuple) and x and x[0] == 'closure']
        if good and mapc:
            rt = _closure_ret(ctx.F, mapc[0])
            good = rt is not None and node_field(rt, 'state') is not None
        ctx.check(good, 'R12.e', tag + '/merge-over-merged-slice', b, b.loc(mg[0][0]), 'merge() receives the states of exactly the nodes beyond max_width - 1', 'merge() iterates %s' % M.show(it)[:200])
        # merged node id: the node flagged relaxed; in normal form  ite(recycled is Some ? recycled : freshly pushed node)  whatever the
        # spelling (unwrap_or_else(create) / match / if let); `recycled` is a search over the kept slice
        midx = None
        srs = []
        def is_mid(ix):
            f = opt_fold(ix) if ix is not None else None
            return f is not None and M.contains(f[0], lambda x: M.is_call(x, 'find', 'position')) and M.contains(f[0], lambda x: x == keep_t)
        for (bb, t) in b.calls_to('set_relaxed'):
            a = [b.origin.operand(x, b.term_point(bb)) for x in t['args']]
            ix = node_field(a[0], 'flags')
            if is_mid(ix) and M.is_const(a[1], True):
                midx = ix
                srs.append(b.term_point(bb))
        if midx is None:
            # not flagged (reported below): fall back on the target of the redirected arcs
            for s_ in append_sites(ctx, tag):
                if s_[0] in unit and is_mid(id0(dict(s_[2][3]).get('to'))):
                    midx = id0(dict(s_[2][3])['to'])
        if midx is None:
            ctx.bad('R06.1', tag + '/merged-id', b, b.loc(0), 'cannot identify the merged node (the node flagged relaxed, = the recycled kept node if any, else a fresh node)')
            continue
        (rec_t, some_v, none_v) = opt_fold(midx)
        # the node re-used as merged node is looked for among the KEPT nodes only (they stay in the layer whatever happens next); a search
        # that also covers merged-away members (chain / the whole layer) can pick a node that the truncation then removes
        finds_ = [x for x in M.walk(rec_t) if M.is_call(x, 'find', 'position', 'find_map', 'rfind')]
        only_find_ = M.is_call(rec_t, 'find', 'position', 'find_map', 'rfind') or (M.is_field(rec_t, '0') and M.is_call(rec_t[1], 'find', 'position'))
        for rid_ in ('R06.1', 'R12.e'):
            ctx.check(bool(finds_) and only_find_ and strip_iter(finds_[0][2][0]) == keep_t, rid_, tag + '/recycled-searched-in-kept-slice', b, b.loc(mg[0][0]),
                      'the kept node to re-use is the result of ONE search, over the kept slice only',
                      'the node to recycle is %s, not the result of a search over the kept slice only: a merged-away member (dropped by the truncation) or a node of another layer still waiting in the pool (whose inbound arcs were not produced by transitions into THIS layer) can be chosen' % M.show(rec_t)[:160])
        ctx.check(some_v == id0(opt_payload(rec_t)) and M.is_call(none_v, 'len') and self_field(none_v[2][0], 'nodes'), 'R06.1', tag + '/merged-id', b, b.loc(mg[0][0]),
                  'the merged node is the recycled kept node when there is one, else the node about to be pushed (id = nodes.len())', 'the merged node id is %s' % M.show(midx)[:200])
        # the recycled node has the merged state; the created node carries it and is flagged relaxed
        findc = [x for x in M.walk(rec_t) if isinstance(x, tuple) and x and x[0] == 'closure']
        good = False
        if findc and findc[0][1] in ctx.F.bodies:
            fb_ = ctx.F.bodies[findc[0][1]]
            for (bb, t) in fb_.calls_to('eq'):
                a = [fb_.origin.operand(x, fb_.term_point(bb)) for x in t['args']]
                if node_field(a[0], 'state') is not None and a[1] == mgt or (node_field(a[1], 'state') is not None and a[0] == mgt):
                    good = True
        ctx.check(good, 'R06.1', tag + '/recycled-has-merged-state', b, b.loc(mg[0][0]), 'a kept node is re-used as merged node only if its state equals the merged state', 'the recycled node is not selected by state == merged')
        # creation: ONE push onto self.nodes in the unit, of (state = merged, value MIN, no best edge, relaxed flags), executed only when nothing is recycled
        created = []
        for cb in unit:
            for (bb, t) in cb.calls_to('push'):
                a = [cb.origin.operand(x, cb.term_point(bb)) for x in t['args']]
                if self_field(a[0], 'nodes') and isinstance(a[1], tuple) and a[1][0] == 'aggr':
                    created.append((cb, bb, dict(a[1][3])))
        good = len(created) == 1
        if good:
            (cb, bb, f) = created[0]
            good = f.get('state') == mgt and M.is_call(f.get('flags'), 'new_relaxed') and is_min_const(f.get('value_top')) \
                and isinstance(f.get('best'), tuple) and f['best'][2] == 'None'
            dpt = f.get('depth')
            ctx.check(node_field(dpt, 'depth') is not None and M.contains(dpt, lambda x: x == merge_t), 'R12.f', tag + '/merged-depth', cb, cb.loc(bb),
                      'the merged node takes the depth of a merged member', 'merged node depth is %s' % M.show(dpt))
            if cb is b:
                only_none, _, _ = M.guarded(b, [b.term_point(bb)], lambda atoms, lit: any(opt_is(a_, lambda x: x == rec_t, 'None') for a_ in atoms))
            else:
                # lazily evaluated alternative of an Option combinator applied to `recycled`
                only_none = any(M.contains(b.origin.operand(x, b.term_point(b2)), lambda y: isinstance(y, tuple) and y and y[0] == 'closure' and y[1] == cb.name) and
                                b.origin.operand(t2['args'][0], b.term_point(b2)) == rec_t
                                for (b2, t2) in b.calls_to('unwrap_or_else', 'map_or_else', 'or_else', 'ok_or_else') for x in t2['args'][1:])
            ctx.check(only_none, 'R06.1', tag + '/created-only-when-not-recycled', cb, cb.loc(bb), 'a fresh merged node is pushed only when no kept node is recycled',
                      'a fresh merged node is pushed even when a kept node is recycled as the merged node: an arc-less phantom node with the merged state stays in the diagram')
        ctx.check(good, 'R06.1', tag + '/created-merged-node', b, b.loc(mg[0][0]), 'a fresh merged node has the merged state, value MIN, no best edge, relaxed flags, and its id is nodes.len() before the push',
                  'the freshly created merged node is not (state = merged, value_top = MIN, best = None, flags = new_relaxed)')
        # set_relaxed(true) on the merged node on every path
        sr = srs
        r = b.reach([(0, 0)], avoid=sr)
        ctx.check(bool(sr) and not any(p in r for p in ret_points(b)), 'R06.1', tag + '/merged-flagged-relaxed', b, b.loc(sr[0][0]) if sr else b.loc(mg[0][0]),
                  'the merged node (also a re-used kept node) is flagged relaxed on every path', 'the merged node is not flagged relaxed on every path: a re-used kept node stays "exact" although it now stands for merged states')
        # loop over the merged slice: delete + redirect every inbound arc
        nx_any = [(bb, t) for (bb, t) in b.calls_to('Iterator::next') if M.contains(b.origin.operand(t['args'][0], b.term_point(bb)), lambda x: x == merge_t)]
        # ... over ALL of it: only element-preserving adaptors (iter, copied, ..) between the slice and the loop — skip / take / filter / rev-
        # free; a member that is neither redirected nor kept is lost together with every completion through it
        nx = [(bb, t) for (bb, t) in nx_any if strip_iter(b.origin.operand(t['args'][0], b.term_point(bb))) == merge_t]
        if nx_any and not nx:
            ctx.bad('R06.1', tag + '/loop-visits-whole-merged-slice', b, b.loc(nx_any[0][0]),
                    'the delete-and-redirect loop does not range over the whole merged slice (%s): a merged member can be neither redirected into the merged node nor kept' % M.show(b.origin.operand(nx_any[0][1]['args'][0], b.term_point(nx_any[0][0])))[:160])
            continue
        if not ctx.floor('R06.1', tag + '/loop', b, len(nx), 1, 'loop over the merged slice'):
            continue
        ctx.ok('R06.1', tag + '/loop-visits-whole-merged-slice', b, b.loc(nx[0][0]), 'the delete-and-redirect loop ranges over the whole merged slice')
        nxt = b.origin.call(nx[0][1], b.term_point(nx[0][0]))
        item = id0(M.simplify_field(M.simplify_variant(nxt, 'Some'), '0', None))
        some_edge = [(tb, 0) for bb in b.live_blocks() if b.term(bb)['k'] == 'switch' for (tb, lab) in b.succ(bb)
                     if (lambda lit: lit and lit[0] == 'in' and lit[2] == frozenset(['Some']) and lit[1] == nxt)(M.edge_literal(b, bb, lab))]
        sd = [b.term_point(bb) for (bb, t) in b.calls_to('set_deleted')
              if node_field(b.origin.operand(t['args'][0], b.term_point(bb)), 'flags') == item and M.is_const(b.origin.operand(t['args'][1], b.term_point(bb)), True)]
        r = b.reach(some_edge, avoid=sd)
        nxp = b.term_point(nx[0][0])
        ctx.check(bool(sd) and bool(some_edge) and nxp not in r, 'R06.1', tag + '/merged-away-deleted', b, b.loc(sd[0][0]) if sd else b.loc(nx[0][0]), 'every merged-away node is flagged deleted',
                  'a merged-away node is not flagged deleted on every iteration')
        # foreach edge of the loop node: list variable starts at nodes[item].inbound, advances with tail, body calls the redirect closure on edges[head]
        (rc, rbb, rt_) = rl[0]
        site = ctx.F.closure_site(rc.name) if rc.kind == 'closure' else None
        cm = [(bb, t) for (bb, t) in b.calls_to('call_mut', 'call', 'call_once') if any(
            isinstance(x, tuple) and x and x[0] == 'closure' and x[1] == rc.name for x in [b.origin.operand(a, b.term_point(bb)) for a in t['args']])]
        good = bool(cm)
        listvar = None
        if good:
            a = [b.origin.operand(x, b.term_point(cm[0][0])) for x in cm[0][1]['args']]
            edge_arg = a[1]
            # edge_arg = (edges[ (edgelists[list] as Cons).head.0 ])
            heads = [x for x in M.walk(edge_arg) if M.is_field(x, 'head') and isinstance(x[1], tuple) and x[1][0] == 'variant' and x[1][2] == 'Cons']
            good = bool(heads) and M.contains(edge_arg, lambda x: self_field(x, 'edges'))
            if good:
                lst = heads[0][1][1]
                good = isinstance(lst, tuple) and lst[0] == 'index' and self_field(lst[1], 'edgelists')
                if good:
                    lv = lst[2][1] if M.is_field(lst[2], '0') else lst[2]
                    defs = var_def_terms(b, lv)
                    starts_ok = any(node_field(d, 'inbound') == item for d in defs)
                    adv_ok = any(M.is_field(d, 'tail') for d in defs)
                    good = starts_ok and adv_ok and len(defs) == 2
            # the closure is invoked on every Cons cell: from the Cons edge, avoiding the call, the loop head is unreachable
        ctx.check(good, 'R06.1', tag + '/all-inbound-arcs', b, b.loc(cm[0][0]) if cm else b.loc(nx[0][0]),
                  'the redirect closure is applied to edges[head] of every cell of the inbound list of the merged-away node (list = node.inbound; list = tail)',
                  'the arcs redirected are not exactly the inbound list of the merged-away node (start at nodes[drop].inbound, advance by tail)')
        if cm:
            cons_edges = [(tb, 0) for bb in b.live_blocks() if b.term(bb)['k'] == 'switch' for (tb, lab) in b.succ(bb)
                          if (lambda lit: lit and lit[0] == 'in' and lit[2] == frozenset(['Cons']))(M.edge_literal(b, bb, lab))]
            cmp_ = b.term_point(cm[0][0])
            r = b.reach(cons_edges, avoid=[cmp_])
            swb = [b.term_point(bb) for bb in b.live_blocks() if b.term(bb)['k'] == 'switch' and any(
                (lambda lit: lit and lit[0] == 'in' and 'Cons' in lit[2])(M.edge_literal(b, bb, lab)) for (tb, lab) in b.succ(bb))]
            ctx.check(bool(cons_edges) and nxp not in r and not any(p in r for p in swb), 'R06.1', tag + '/no-arc-skipped', b, b.loc(cm[0][0]),
                      'no inbound arc is skipped (every Cons cell reaches the redirect before the next cell / node)', 'an inbound arc of a merged-away node can be skipped (break/continue before the redirect)')
        # relax() arguments and the redirected edge
        ra = [rc.origin.operand(x, rc.term_point(rbb)) for x in rt_['args']]
        edge_p = lambda t: M.is_param(t) and t[1] == rc.name
        e_from = lambda t: node_field(t, 'state') is not None and M.is_field(node_field(t, 'state'), '0') and M.is_field(node_field(t, 'state')[1], 'from', 'Edge') and edge_p(node_field(t, 'state')[1][1])
        e_to = lambda t: node_field(t, 'state') is not None and M.is_field(node_field(t, 'state'), '0') and M.is_field(node_field(t, 'state')[1], 'to', 'Edge') and edge_p(node_field(t, 'state')[1][1])
        ctx.check(e_from(ra[1]), 'R12.e', tag + '/relax-src', rc, rc.loc(rbb), 'relax: src = state of edge.from', 'relax src is %s' % M.show(ra[1]))
        ctx.check(e_to(ra[2]), 'R12.e', tag + '/relax-dst', rc, rc.loc(rbb), 'relax: dst = state of edge.to (the merged-away node)', 'relax dst is %s' % M.show(ra[2]))
        ctx.check(ra[3] == mgt, 'R12.e', tag + '/relax-merged', rc, rc.loc(rbb), 'relax: merged = the state just returned by merge', 'relax merged argument is %s' % M.show(ra[3])[:200])
        ctx.check(M.is_field(ra[4], 'decision', 'Edge') and edge_p(ra[4][1]), 'R12.e', tag + '/relax-decision', rc, rc.loc(rbb), 'relax: decision of the same arc', 'relax decision is %s' % M.show(ra[4]))
        ctx.check(M.is_field(ra[5], 'cost', 'Edge') and edge_p(ra[5][1]), 'R12.e', tag + '/relax-cost', rc, rc.loc(rbb), 'relax: current cost of the same arc', 'relax cost is %s' % M.show(ra[5]))
        rcost = rc.origin.call(rt_, rc.term_point(rbb))
        sites = [s for s in append_sites(ctx, tag) if s[0] is rc]
        if ctx.floor('R06.1', tag + '/redirect-edge', rc, len(sites), 1, 'edge append in the redirect closure'):
            e = dict(sites[0][2][3])
            good = M.is_field(e['from'], 'from', 'Edge') and edge_p(e['from'][1]) and M.is_field(e['decision'], 'decision', 'Edge') and edge_p(e['decision'][1]) \
                and e['cost'] == rcost and id0(e['to']) == midx
            ctx.check(good, 'R06.1', tag + '/redirected-edge', rc, rc.loc(sites[0][1]), 'the new arc keeps source and decision, points to the merged node and carries the cost returned by relax()',
                      'the redirected arc is %s (expected from/decision of the old arc, to = merged node, cost = relax(..))' % M.show(sites[0][2])[:260])
        # C13: symbolic length at exit
        _relax_length(ctx, tag, b, midx)
        _sort_rule(ctx, tag, b)


def _relax_length(ctx, tag, b, mid):
    """every exit of _relax leaves len(layer) <= max_width: per path, the last truncate(X) and the pushes after it"""
    tr = b.calls_to('truncate')
    pu = [(bb, t) for (bb, t) in b.calls_to('push') if M.is_param(b.origin.operand(t['args'][0], b.term_point(bb)), index=2)]
    ok = bool(tr)
    worst = []
    nx = [b.term_point(bb) for (bb, t) in b.calls_to('Iterator::next')]
    # paths after the loop: start from entry but forbid back edges (loop-free paths are enough: truncation is after the loop)
    paths = M.enumerate_paths(b, (0, 0), stops=[], max_paths=5000)
    n = 0
    for (edges, blocks, end) in paths:
        n += 1
        bound = None  # (base, extra): len <= w + extra
        for blk in blocks:
            t = b.term(blk)
            if t['k'] != 'call':
                continue
            if (blk, t) in [(x, y) for (x, y) in tr]:
                a = [b.origin.operand(x, b.term_point(blk)) for x in t['args']]
                if M.is_param(a[0], index=2):
                    if M.is_field(a[1], 'max_width', 'CompilationInput'):
                        bound = 0
                    elif isinstance(a[1], tuple) and a[1][0] == 'sub' and M.is_field(a[1][1], 'max_width', 'CompilationInput') and M.is_const(a[1][2]):
                        bound = -a[1][2][1]
                    elif isinstance(a[1], tuple) and a[1][0] == 'add' and any(M.is_field(x, 'max_width', 'CompilationInput') for x in a[1]):
                        cs = [x for x in a[1] if M.is_const(x)]
                        bound = cs[0][1] if cs else None
                    else:
                        bound = None
            elif any(blk == x for (x, y) in pu):
                if bound is not None:
                    bound += 1
        if bound is None or bound > 0:
            ok = False
            worst.append(bound)
    ctx.stats['paths'] += n
    ctx.check(ok and n > 0, 'R13.b', tag + '/relax-exit-length', b, b.loc(tr[0][0]) if tr else b.loc(0),
              'on each of the %d loop-free paths through _relax the layer ends with len <= max_width (truncate(w) | truncate(w-1) + one push)' % n,
              'a path through _relax leaves the layer with more than max_width nodes (len <= w%+d)' % (worst[0] if worst and worst[0] is not None else 1) if worst and worst[0] is not None else
              'a path through _relax does not bound the layer length by max_width')
    # the merged node is the one pushed
    for (bb, t) in pu:
        v = b.origin.operand(t['args'][1], b.term_point(bb))
        ctx.check(id0(v) == mid, 'R13.b', tag + '/relax-push-merged', b, b.loc(bb), 'the node appended to the layer is the merged node', 'the node appended after truncation is %s' % M.show(v)[:150])
    # recycled path: keeps exactly the re-used node alive again
    sdf = [(bb, t) for (bb, t) in b.calls_to('set_deleted') if M.is_const(b.origin.operand(t['args'][1], b.term_point(bb)), False)]
    is_w = lambda t: M.is_field(t, 'max_width', 'CompilationInput')
    layer = lambda t: M.is_param(t, index=2)
    trw = [b.term_point(bb) for (bb, t) in tr if layer(b.origin.operand(t['args'][0], b.term_point(bb))) and is_w(b.origin.operand(t['args'][1], b.term_point(bb)))]
    for (bb, t) in sdf:
        ok2, cut, bad = M.guarded(b, [b.term_point(bb)], lambda atoms, lit: any(opt_is(a, lambda x: M.contains(x, lambda y: M.is_call(y, 'find', 'position')), 'Some') for a in atoms))
        ctx.check(ok2, 'R13.b', tag + '/undelete-only-when-recycled', b, b.loc(bb), 'a deleted flag is cleared only on the recycled path', 'set_deleted(false) outside the recycled path')
        # which node: the one that stays in the layer at position max_width - 1 (it was flagged deleted with the merged slice). Position
        # max_width - 1 is stable through truncate(max_width); the LAST element is that node only once the truncation has happened
        ix = node_field(b.origin.operand(t['args'][0], b.term_point(bb)), 'flags')
        src = ix[1] if M.is_field(ix, '0') else ix
        good = False
        if isinstance(src, tuple) and src and src[0] == 'index' and layer(src[1]) and isinstance(src[2], tuple) and src[2][0] == 'sub' and is_w(src[2][1]) and M.is_const(src[2][2], 1):
            good = True
        else:
            lasts = [x for x in M.walk(src) if M.is_call(x, 'last', 'last_mut') and layer(x[2][0]) and x[3]] if src is not None else []
            if lasts:
                lp = b.term_point(lasts[0][3][1])
                # every path to the read of last() has truncated the layer to max_width
                r0 = b.reach([(0, 0)], avoid=trw)
                good = bool(trw) and lp not in r0
        ctx.check(good, 'R07.6', tag + '/relax-undeletes-kept-node', b, b.loc(bb), 'the node whose deleted flag is cleared is the one that stays in the layer at position max_width - 1',
                  'on the recycled path the node un-deleted (%s) is not the node kept at position max_width - 1 of the truncated layer: a node that stays in the layer and is expanded remains flagged deleted' % M.show(src)[:120])
    # every path that keeps max_width nodes restores that flag
    if trw:
        sdp = [b.term_point(bb) for (bb, t) in sdf]
        for tp in trw:
            r1 = b.reach(b.after(tp), avoid=sdp)
            r2 = b.reach([(0, 0)], avoid=sdp)
            ctx.check(bool(sdp) and (not any(p in r1 for p in ret_points(b)) or tp not in r2), 'R07.6', tag + '/relax-kept-node-undeleted', b, b.loc(tp[0]),
                      'when the layer keeps max_width nodes (a kept node was recycled) the node at position max_width - 1, flagged deleted with the merged slice, is un-deleted on every path',
                      'a path keeps max_width nodes in the layer without clearing the deleted flag of the node at position max_width - 1')


# ================================================================================================
# batch 2 — finalisation: thresholds, cache, cut-sets, local bounds, best nodes, filters, reset, flags
# ================================================================================================
def loop_item_of(t):
    """the node index term if t is nodes[IDX].something"""
    return t


def _is_relaxed_lit(a):
    return (a[0] == 'cmp' and M.is_field(a[1], 'comp_type', 'CompilationInput') and isinstance(a[2], tuple) and a[2][0] == 'aggr' and a[2][2] == 'Relaxed' and a[3] == frozenset('=')) or \
        (a[0] == 'cmp' and M.is_field(a[2], 'comp_type', 'CompilationInput') and isinstance(a[1], tuple) and a[1][0] == 'aggr' and a[1][2] == 'Relaxed' and a[3] == frozenset('=')) or \
        (a[0] == 'in' and M.is_field(a[1], 'comp_type', 'CompilationInput') and a[2] == frozenset(['Relaxed']))


def _relaxed_or_exact(atoms, lit):
    return any(_is_relaxed_lit(a) or (a[0] == 'T' and self_field(a[1], 'is_exact')) for a in atoms)


def _best_known_ok(b, t):
    """best_known = max(input.best_lb, value of the best exact node) (or input.best_lb when there is none)"""
    alts = []
    for leaf in M.leaves(t):
        alts.extend(var_def_terms(b, leaf))
    for d in alts:
        if is_input_lb(d):
            continue
        if isinstance(d, tuple) and d[0] == 'max' and len(d[1]) == 2 and any(is_input_lb(x) for x in d[1]) and \
                any(node_field(x, 'value_top') is not None and M.contains(x, lambda y: self_field(y, 'best_exact_node')) for x in d[1]):
            continue
        return False
    return True


def r_thresholds(ctx):
    for tag, adt in DIAGRAMS:
        b = ctx.body(adt, '_compute_thresholds')
        unit = ctx.unit(b)
        # R09.1 everything in here happens only for relaxed or exact diagrams
        pts = [pt for (pt, d, v, s) in writes(b) if node_field(d, 'theta') is not None]
        # (_maybe_update_cache is a soft anchor: it is inlined into _compute_thresholds on every tree, the rules speak of its effect)
        muc = b.calls_to('Cache::update_threshold')
        pts += [b.term_point(bb) for (bb, t) in muc]
        pts += [b.term_point(bb) for (bb, t) in b.calls_to('call_mut')]
        if ctx.floor('R09.1', tag + '/anchors', b, len(pts), 6, 'theta writes / cache updates in _compute_thresholds'):
            ok, cut, bad = M.guarded(b, pts, _relaxed_or_exact)
            ctx.check(ok, 'R09.1', tag + '/thresholds-only-relaxed-or-exact', b, b.loc(0), 'thresholds are computed and cached only for a relaxed compilation or an exact diagram',
                      'thresholds can be computed/cached from a truncated (inexact) restricted diagram')
        # who calls update_threshold / _maybe_update_cache
        for body in dd_unit(ctx, tag):
            for (bb, t) in body.calls_to('Cache::update_threshold'):
                ctx.check(body is b, 'R09.1', '%s/who-updates-cache/%s' % (tag, short(body)), body, body.loc(bb),
                          'the cache is written by _compute_thresholds only (directly or through its private helper)', 'Cache::update_threshold is called from %s' % body.name)
        ctx.floor('R09.1', tag + '/cache-update-call', b, len(muc), 1, 'Cache::update_threshold call in _compute_thresholds')
        # R09.5 closed list of theta writes in this unit
        for body in unit:
            for (pt, d, v, s) in writes(body):
                idx = node_field(d, 'theta')
                if idx is None:
                    continue
                inner = v[3][0][1] if isinstance(v, tuple) and v[0] == 'aggr' and v[2] == 'Some' else None
                form = None
                nf = lambda x, f: node_field(x, f) == idx
                if inner is None:
                    form = None
                elif inner[0] in ('var', 'max', 'ite') or is_input_lb(inner):
                    if _best_known_ok(body, inner):
                        form = 'best_known (exact terminal)'
                        ok, cut, bad = M.guarded(body, [pt], lambda atoms, lit: any(a[0] == 'T' and (self_field(a[1], 'is_exact') or (M.is_call(a[1], 'is_exact') and node_field(a[1][2][0], 'flags') == idx)) for a in atoms))
                        ctx.check(ok, 'R09.5', tag + '/theta-terminal-guard', body, body.loc(*pt), 'terminal nodes get theta = best_known only when exact (the diagram or the node)',
                                  'an inexact terminal node receives theta = best_known')
                elif inner[0] == 'sub' and _best_known_ok(body, inner[1]) and nf(inner[2], 'rub'):
                    form = 'best_known - rub'
                    tot = lambda t: isinstance(t, tuple) and t[0] == 'add' and len(t[1]) == 2 and any(nf(x, 'rub') for x in t[1]) and any(nf(x, 'value_top') for x in t[1])
                    bk = lambda t: _best_known_ok(body, t) and (is_input_lb(t) or t[0] in ('var', 'max', 'ite'))
                    ok, cut, bad = M.guarded(body, [pt], lambda atoms, lit: any(M.cmp_matches(a, tot, bk, '<=') and _rel(a, tot) == frozenset('<=') for a in atoms))
                    ctx.check(ok, 'R09.5', tag + '/theta-rub-guard(E8)', body, body.loc(*pt), 'theta = best_known - rub exactly when value_top + rub <= best_known (the equality case must not fall through to the dangling-node case)',
                              'the rub-threshold case is not guarded by `value_top + rub <= best_known` (<= only)')
                elif inner[0] == 'min' and len(inner[1]) == 2 and any(opt_or(x, lambda o: nf(o, 'theta'), is_max_const) for x in inner[1]) and \
                        any(x[0] == 'sub' and _best_known_ok(body, x[1]) and nf(x[2], 'value_bot') for x in inner[1] if isinstance(x, tuple)):
                    form = 'min(theta, best_known - value_bot)'
                    tot = lambda t: isinstance(t, tuple) and t[0] == 'add' and len(t[1]) == 2 and any(nf(x, 'value_bot') for x in t[1]) and any(nf(x, 'value_top') for x in t[1])
                    bk = lambda t: _best_known_ok(body, t) and (is_input_lb(t) or t[0] in ('var', 'max', 'ite'))
                    ok, cut, bad = M.guarded(body, [pt], lambda atoms, lit: any(M.cmp_matches(a, tot, bk, '<=') and '<' in _rel(a, tot) for a in atoms))
                    ok2, _, _ = M.guarded(body, [pt], lambda atoms, lit: any(a[0] == 'T' and M.is_call(a[1], 'is_cutset') and node_field(a[1][2][0], 'flags') == idx for a in atoms))
                    ctx.check(ok and ok2, 'R09.5', tag + '/theta-locb-guard(E9)', body, body.loc(*pt), 'theta = min(theta, best_known - value_bot) only for cut-set nodes with value_top + value_bot <=|< best_known',
                              'the local-bound threshold case is not guarded by is_cutset and `value_top + value_bot <= best_known`')
                elif nf(inner, 'value_top'):
                    form = 'value_top (cut-set node that must be explored)'
                    ok2, _, _ = M.guarded(body, [pt], lambda atoms, lit: any(a[0] == 'T' and M.is_call(a[1], 'is_cutset') and node_field(a[1][2][0], 'flags') == idx for a in atoms))
                    ctx.check(ok2, 'R09.5', tag + '/theta-value-guard', body, body.loc(*pt), 'theta = value_top only for cut-set nodes', 'theta = value_top on a node that is not in the cut-set')
                elif is_max_const(inner):
                    form = 'MAX (exact node without threshold)'
                    ok2, _, _ = M.guarded(body, [pt], lambda atoms, lit: any(a[0] == 'T' and M.is_call(a[1], 'is_exact') and node_field(a[1][2][0], 'flags') == idx for a in atoms))
                    ok3, _, _ = M.guarded(body, [pt], lambda atoms, lit: any(opt_is(a, lambda x: nf(x, 'theta'), 'None') for a in atoms))
                    ctx.check(ok2 and ok3, 'R09.5', tag + '/theta-max-guard', body, body.loc(*pt), 'theta = MAX only for exact nodes that received no threshold from below',
                              'theta = MAX is assigned to a node that is not (exact and still without threshold)')
                elif inner[0] == 'min' and len(inner[1]) == 2 and body is b and any(isinstance(x, tuple) and x[0] == 'sub' and M.is_field(x[2], 'cost', 'Edge') for x in inner[1]):
                    # propagation to a parent, list walk written in place (the foreach! macro expanded by hand, or a helper doing the walk
                    # that was inlined): min(parent.theta or MAX, child.theta - edge.cost) with edge = the current inbound arc of that child
                    par = [x for x in inner[1] if opt_or(x, lambda o: nf(o, 'theta'), is_max_const)]
                    chd = [x for x in inner[1] if isinstance(x, tuple) and x[0] == 'sub' and M.is_field(x[2], 'cost', 'Edge')]
                    if par and chd:
                        E_ = chd[0][2][1]
                        ct = chd[0][1]
                        par_is_from = M.is_field(idx, '0') and M.is_field(idx[1], 'from', 'Edge') and idx[1][1] == E_
                        child_ok = M.is_field(ct, '0') and isinstance(ct[1], tuple) and ct[1][0] == 'variant' and ct[1][2] == 'Some' and node_field(ct[1][1], 'theta') is not None
                        ac_ = arc_child(ctx, b, body, E_) if par_is_from and child_ok else None
                        if ac_ is not None:
                            form = 'propagation min(parent.theta, child.theta - edge.cost)'
                            ctx.check(ac_[0] == node_field(ct[1][1], 'theta'), 'R09.5', tag + '/theta-propagation-arcs', body, body.loc(*pt),
                                      'thresholds are propagated along the inbound arcs of the node whose theta is used', 'theta propagation does not iterate the inbound arcs of the child whose theta it uses')
                elif inner[0] == 'min' and len(inner[1]) == 2 and body.kind == 'closure':
                    # propagation to a parent: min(parent.theta or MAX, child.theta - edge.cost)
                    par = [x for x in inner[1] if opt_or(x, lambda o: nf(o, 'theta'), is_max_const)]
                    chd = [x for x in inner[1] if isinstance(x, tuple) and x[0] == 'sub' and M.is_field(x[2], 'cost', 'Edge') and M.is_param(x[2][1]) and x[2][1][1] == body.name]
                    par_is_from = M.is_field(idx, '0') and M.is_field(idx[1], 'from', 'Edge') and M.is_param(idx[1][1]) and idx[1][1][1] == body.name
                    if par and chd and par_is_from:
                        ct = chd[0][1]
                        child_ok = M.is_field(ct, '0') and isinstance(ct[1], tuple) and ct[1][0] == 'variant' and ct[1][2] == 'Some' and node_field(ct[1][1], 'theta') is not None
                        if child_ok:
                            form = 'propagation min(parent.theta, child.theta - edge.cost)'
                            # the edge is an inbound arc of that child: checked through the foreach shape
                            child_idx = node_field(ct[1][1], 'theta')
                            ctx.check(_foreach_over(ctx, b, body, child_idx), 'R09.5', tag + '/theta-propagation-arcs', body, body.loc(*pt),
                                      'thresholds are propagated along the inbound arcs of the node whose theta is used', 'theta propagation does not iterate the inbound arcs of the child whose theta it uses')
                ctx.check(form is not None, 'R09.5', '%s/theta-write/%s' % (tag, form or 'unknown'), body, body.loc(*pt), 'theta write of an allowed form: %s' % form,
                          'a write to Node.theta is not of an allowed form: theta := %s' % M.show(v)[:300])
        loops_exhaust(ctx, 'R09.5', tag + '/thresholds', b, 'the bottom-up threshold computation (terminal nodes; layers, then nodes)')
        # propagation is not optional either: every node of the bottom-up traversal that holds a threshold hands it to ALL its parents; an
        # iteration may end without walking the node's inbound arcs only for a deleted node, a node without threshold, or the end of its
        # inbound list (closed list of reasons: an extra `continue` — "inexact nodes are never cached" — also stops the thresholds of
        # rub- / cache-pruned nodes below from reaching their exact ancestors)
        prop_pts = []
        for body in unit:
            for (pt, d, v, s_) in writes(body):
                if node_field(d, 'theta') is not None and isinstance(v, tuple) and v[0] == 'aggr' and v[2] == 'Some' and isinstance(v[3][0][1], tuple) and v[3][0][1][0] == 'min' \
                        and M.contains(v, lambda x: M.is_field(x, 'cost', 'Edge')):
                    if body is b:
                        prop_pts.append(pt)
                    else:
                        prop_pts += [b.term_point(bb) for (bb, t) in b.calls_to('call_mut', 'call', 'call_once') if any(
                            isinstance(x, tuple) and x and x[0] == 'closure' and x[1] == body.name for x in [b.origin.operand(a_, b.term_point(bb)) for a_ in t['args']])]
        node_nexts = []
        for (bb, t) in b.calls_to('Iterator::next'):
            ct_ = b.origin.call(t, b.term_point(bb))
            it_ = M.simplify_field(M.simplify_variant(ct_, 'Some'), '0', None)
            # the loop whose item is the node being finalised: its flags are tested for `deleted`
            if any(M.is_call(a_[1], 'is_deleted') and M.contains(a_[1], lambda x: x == it_) for bbk in b.live_blocks() if b.term(bbk)['k'] == 'switch'
                   for (tb, lab) in b.succ(bbk) for a_ in M.lit_atoms(M.edge_literal(b, bbk, lab)) if a_[0] in ('T', 'F') and isinstance(a_[1], tuple)):
                node_nexts.append((bb, ct_))
        if ctx.floor('R09.5', tag + '/propagation-site', b, len(prop_pts), 1, 'threshold propagation to the parents') and ctx.floor('R09.5', tag + '/node-loop', b, len(node_nexts), 1, 'bottom-up loop over the nodes'):
            # nested loops (layers, then nodes): the node loop is the innermost one — its item term contains the outer one's
            node_nexts = [x for x in node_nexts if not any(y is not x and M.contains(y[1], lambda z: z == x[1]) for y in node_nexts)] or node_nexts
            (nbb_, nct_) = node_nexts[0]
            nxp_ = b.term_point(nbb_)
            some_ = [(tb, 0) for bbk in b.live_blocks() if b.term(bbk)['k'] == 'switch' for (tb, lab) in b.succ(bbk)
                     if (lambda lit: lit and lit[0] == 'in' and lit[1] == nct_ and lit[2] == frozenset(['Some']))(M.edge_literal(b, bbk, lab))]
            def excused(atoms, lit):
                for a_ in atoms:
                    if a_[0] == 'T' and M.is_call(a_[1], 'is_deleted'):
                        return True
                    if opt_is(a_, lambda x: node_field(x, 'theta') is not None, 'None'):
                        return True
                    if a_[0] == 'in' and 'Nil' in a_[2] and 'Cons' not in a_[2]:
                        return True
                return False
            cut_ = _cut_edges(b, excused)
            r_ = b.reach(some_, cut_edges=cut_, avoid=prop_pts)
            ctx.check(bool(some_) and nxp_ not in r_ and not any(p_ in r_ for p_ in ret_points(b)), 'R09.5', tag + '/propagation-mandatory', b, b.loc(nbb_),
                      'every node that is not deleted and holds a threshold propagates it along its inbound arcs (no other reason ends an iteration early)',
                      'an iteration of the bottom-up threshold loop can end without propagating the node\'s threshold to its parents for a reason other than "deleted" / "no threshold": thresholds of pruned nodes below never reach their ancestors, which are then cached with thresholds that are too high')
        # the own-threshold cases are not optional: on the rough-bound edge (value_top + rub <= best_known) and for a cut-set node, a theta is
        # written before the node is handed to the cache / the next node is taken (a node left with the theta inherited from SOME of its
        # children would be cached with a threshold that ignores the other routes below it)
        thw = [(pt, node_field(d, 'theta')) for (pt, d, v, s_) in writes(b) if node_field(d, 'theta') is not None]
        ends_ = [b.term_point(bb) for (bb, t) in muc] + ret_points(b)
        tot_rub = lambda t: isinstance(t, tuple) and t[0] == 'add' and len(t[1]) == 2 and any(node_field(x, 'rub') is not None for x in t[1]) and any(node_field(x, 'value_top') is not None for x in t[1])
        for (what, pred_) in (('rough-bound', lambda atoms, lit: any(M.cmp_matches(a, tot_rub, lambda t: _best_known_ok(b, t), '<=') for a in atoms)),
                             ('cut-set', lambda atoms, lit: any(a[0] == 'T' and M.is_call(a[1], 'is_cutset') and node_field(a[1][2][0], 'flags') is not None for a in atoms))):
            edges_ = _cut_edges(b, pred_)
            starts_ = [(tb, 0) for (bbk, lab) in edges_ for (tb, l_) in b.succ(bbk) if l_ == lab]
            r_ = b.reach(starts_, avoid=[pt for (pt, ix) in thw])
            ctx.check(bool(starts_) and not any(p_ in r_ for p_ in ends_), 'R09.5', '%s/theta-mandatory/%s' % (tag, what), b, b.loc(starts_[0][0]) if starts_ else b.loc(0),
                      'in the %s case every path writes the node\'s own theta before the cache update' % what,
                      'in the %s case a path reaches the cache update without writing the node\'s own theta: the cached threshold is the one inherited from some children only' % what)
        # terminal nodes: theta := best_known EXACTLY when (last-exact-layer cut-set and the diagram is exact) or (frontier cut-set and the
        # node is exact) — decided per case; a terminal that misses it falls into the dangling-node case below (theta = MAX)
        term_fld = TERMINAL[tag]
        nxs = [(bb, t) for (bb, t) in b.calls_to('Iterator::next') if M.contains(b.origin.operand(t['args'][0], b.term_point(bb)), lambda x: M.is_call(x, 'values') and self_field(x[2][0], term_fld))]
        if ctx.floor('R09.5', tag + '/terminal-loop', b, len(nxs), 1, 'loop over the terminal nodes in _compute_thresholds'):
            (nbb, nt) = nxs[0]
            nxp = b.term_point(nbb)
            nxt_ = b.origin.call(nt, nxp)
            item = id0(M.simplify_field(M.simplify_variant(nxt_, 'Some'), '0', None))
            some_edges = [(tb, 0) for bbk in b.live_blocks() if b.term(bbk)['k'] == 'switch' for (tb, lab) in b.succ(bbk)
                          if (lambda lit: lit and lit[0] == 'in' and lit[1] == nxt_ and lit[2] == frozenset(['Some']))(M.edge_literal(b, bbk, lab))]
            tw = set(pt for body_ in [b] for (pt, d, v, s_) in writes(b) if node_field(d, 'theta') == item and isinstance(v, tuple) and v[0] == 'aggr' and v[2] == 'Some' and _best_known_ok(b, v[3][0][1]))
            paths_ = []
            for st in some_edges:
                for (edges, blocks, end) in M.enumerate_paths(b, st, stops=[nxp]):
                    atoms = M.path_atoms(b, edges)
                    if M.consistent(atoms):
                        paths_.append((atoms, any(pt[0] in blocks for pt in tw)))
            consts_ = {k.split('::')[-1]: v['int'] for k, v in ctx.F.consts.items() if k.endswith(('::LAST_EXACT_LAYER', '::FRONTIER')) and 'int' in v}
            generic = any(M.contains(a_, lambda x: isinstance(x, tuple) and x and x[0] == 'cparam') for (atoms, w_) in paths_ for a_ in atoms)
            bad_ = []
            kinds = (('LAST_EXACT_LAYER', 'FRONTIER') if generic else ('FRONTIER',))
            for kind in kinds:
                for ddx in (True, False):
                    for ndx in (True, False):
                        env = [(lambda t: isinstance(t, tuple) and t and t[0] == 'cparam', consts_.get(kind)),
                               (lambda t: isinstance(t, tuple) and t and t[0] == 'const' and (t[2] or '').endswith('::LAST_EXACT_LAYER'), consts_.get('LAST_EXACT_LAYER')),
                               (lambda t: isinstance(t, tuple) and t and t[0] == 'const' and (t[2] or '').endswith('::FRONTIER'), consts_.get('FRONTIER')),
                               (lambda t: self_field(t, 'is_exact'), ddx),
                               (lambda t: M.is_call(t, 'is_exact') and node_field(t[2][0], 'flags') == item, ndx)]
                        outs = set(w_ for (atoms, w_) in paths_ if case_feasible(atoms, env))
                        want = (ddx if kind == 'LAST_EXACT_LAYER' else ndx)
                        if outs != {want}:
                            bad_.append((kind, 'diagram exact' if ddx else 'diagram inexact', 'node exact' if ndx else 'node inexact', 'written: %s' % sorted(outs)))
            ctx.stats['paths'] += len(paths_)
            ctx.check(bool(paths_) and bool(tw) and not bad_ and len(consts_) == 2, 'R09.5', tag + '/terminal-theta-table', b, b.loc(nbb),
                      'a terminal node receives theta = best_known exactly when (LEL cut-set and exact diagram) or (frontier cut-set and exact node) (%d cases)' % (4 * len(kinds)),
                      'terminal thresholds deviate from the table in case(s) %s: an exact terminal that is skipped gets theta = MAX as a dangling node and a better arrival at that state is pruned for ever' % bad_[:3])
        # R09.2 the cache entry written for a node (the helper _maybe_update_cache is inlined: `node` is nodes[IDX] of the bottom-up loop)
        mb = b
        ut = mb.calls_to('Cache::update_threshold')
        if ctx.floor('R09.2', tag + '/update_threshold', mb, len(ut), 1, 'update_threshold call'):
            (bb, t) = ut[0]
            a = [mb.origin.operand(x, mb.term_point(bb)) for x in t['args']]
            ni_ = node_field(a[1], 'state')
            node = lambda x, f: ni_ is not None and node_field(x, f) == ni_
            ok, cut, bad = M.guarded(mb, [mb.term_point(bb)], lambda atoms, lit: any(a_[0] == 'T' and M.is_call(a_[1], 'is_above_cutset') and node(a_[1][2][0], 'flags') for a_ in atoms))
            ctx.check(ok, 'R09.2', tag + '/only-above-cutset', mb, mb.loc(bb), 'only nodes at or above the cut-set are written to the cache', 'a node below the cut-set can be written to the cache')
            th_ = a[3]
            th_ok = M.is_field(th_, '0') and isinstance(th_[1], tuple) and th_[1][0] == 'variant' and th_[1][2] == 'Some' and node(th_[1][1], 'theta')
            good = node(a[1], 'state') and node(a[2], 'depth') and th_ok and \
                isinstance(a[4], tuple) and a[4][0] == 'not' and M.is_call(a[4][1], 'is_cutset') and node(a[4][1][2][0], 'flags')
            ctx.check(good, 'R09.2', tag + '/cache-entry', mb, mb.loc(bb), 'cache entry = (state, depth, theta, explored = !is_cutset) of one node',
                      'update_threshold receives (%s)' % ', '.join(M.show(x) for x in a[1:]))
            ctx.check(M.is_field(a[0], 'cache', 'CompilationInput'), 'R09.2', tag + '/cache-receiver', mb, mb.loc(bb), 'the cache written is input.cache', 'cache receiver is %s' % M.show(a[0]))


def _list_walk_child(parent, edge_term):
    """edge_term = edges[(edgelists[LIST] as Cons).head] where LIST is a variable of `parent` that starts at nodes[CHILD].inbound and advances
    by `tail`: returns (CHILD index term,) — the walk over the inbound arcs of CHILD — else None"""
    heads = [x for x in M.walk(edge_term) if M.is_field(x, 'head') and isinstance(x[1], tuple) and x[1][0] == 'variant' and x[1][2] == 'Cons']
    if not heads or not M.contains(edge_term, lambda x: self_field(x, 'edges')):
        return None
    lst = heads[0][1][1]
    if not (isinstance(lst, tuple) and lst[0] == 'index' and self_field(lst[1], 'edgelists')):
        return None
    lv = lst[2][1] if M.is_field(lst[2], '0') else lst[2]
    defs = var_def_terms(parent, lv)
    starts = [node_field(d, 'inbound') for d in defs if node_field(d, 'inbound') is not None]
    adv_ok = any(M.is_field(d, 'tail') for d in defs)
    if len(starts) == 1 and adv_ok and len(defs) == 2:
        return (starts[0],)
    return None


def arc_child(ctx, parent, body, t):
    """if term `t` (seen in `body`, which is `parent` or a closure of it) denotes 'the current inbound arc of node CHILD' in a walk over CHILD's
    inbound list, returns (CHILD index term, walk point in parent); else None. Two spellings of the walk are recognised:
      closure form (foreach! macro): t is the parameter of closure `body`, which `parent` applies to edges[head] of every Cons cell;
      inline form: t is edges[(edgelists[list] as Cons).head] itself, read in `parent`."""
    if body is not parent and body.kind == 'closure' and M.is_param(t, index=1) and t[1] == body.name:
        for (bb, tm) in parent.calls_to('call_mut', 'call', 'call_once'):
            a = [parent.origin.operand(x, parent.term_point(bb)) for x in tm['args']]
            if isinstance(a[0], tuple) and a[0][0] == 'closure' and a[0][1] == body.name:
                c = _list_walk_child(parent, a[1])
                return (c[0], parent.term_point(bb)) if c else None
        return None
    if body is parent and isinstance(t, tuple) and t and t[0] == 'index' and self_field(t[1], 'edges'):
        c = _list_walk_child(parent, t)
        if c:
            # walk point: the block that tests the list cell for Cons
            for bbk in parent.live_blocks():
                if parent.term(bbk)['k'] == 'switch':
                    for (tb, lab) in parent.succ(bbk):
                        lit = M.edge_literal(parent, bbk, lab)
                        if lit and lit[0] == 'in' and 'Cons' in lit[2] and M.contains(t, lambda x: x == lit[1]):
                            return (c[0], parent.term_point(bbk))
            return (c[0], None)
    return None


def _foreach_over(ctx, parent, closure, child_idx):
    """closure is applied (call_mut) in `parent` to edges[head] for cells of the inbound list of nodes[child_idx]"""
    r = arc_child(ctx, parent, closure, ('param', closure.name, 1, None))
    return r is not None and (child_idx is None or r[0] == child_idx)


def move_verdicts(mvb):
    """Mdd::_move_to_next_layer answers one of two constants: `true` / `false`, or the two unit variants of a private enum
    (LayerStatus::Expandable / Exhausted). Returns (stop, go, stop_pts, go_pts): the constant answered when the drained layer is empty
    (stop the unrolling), the other one, and the points of the assignments of each to the return place; None if the answers are not two
    such constants."""
    def const_of(s_):
        rv = s_['rv']
        if rv['k'] == 'use' and isinstance(rv['op'].get('const', {}).get('bool'), bool):
            return ('bool', rv['op']['const']['bool'])
        if rv['k'] == 'aggr' and rv.get('adt') and rv.get('variant') is not None and not (rv.get('ops') or []):
            return ('variant', rv['adt'], rv['variant'])
        return None
    pts = {}
    for (bb_, i_, s_) in mvb.assigns(lambda s_: s_['place']['l'] == 0 and not s_['place']['p']):
        c_ = const_of(s_)
        if c_ is None:
            return None
        pts.setdefault(c_, []).append((bb_, i_))
    if len(pts) != 2 or len(set(k[0] for k in pts)) != 1:
        return None
    # the stop verdict: the one assigned on a path that asserts "the layer vector (parameter #2) is empty"
    stop = None
    for c_, ps_ in pts.items():
        # path-sensitive, with freshness: a test of the vector made BEFORE it is filled (a debug_assert!(curr_l.is_empty()) at the top)
        # says nothing about the drained layer — literals are dropped once the vector is handed out mutably / refilled
        ok_ = True
        n_ = 0
        for (edges_, blocks_, end_) in M.enumerate_paths(mvb, (0, 0), stops=ps_):
            if end_ not in ps_:
                continue
            atoms_ = M.path_atoms_fresh(mvb, edges_, blocks_)
            if not M.consistent(atoms_):
                continue
            n_ += 1
            if not any(empty_lit(a, lambda x: M.is_param(x, index=2)) for a in atoms_):
                ok_ = False
        if ok_ and n_:
            stop = c_ if stop is None else 'both'
    if stop is None or stop == 'both':
        return None
    go = [c_ for c_ in pts if c_ != stop][0]
    return (stop, go, pts[stop], pts[go])


def asserts_verdict(a, call_pred, verdict):
    """the guard atom `a` asserts that the result of the call selected by call_pred IS `verdict` (a ('bool', v) or ('variant', adt, name))"""
    is_v = lambda t: (verdict[0] == 'variant' and isinstance(t, tuple) and t[:1] == ('aggr',) and t[1] == verdict[1] and t[2] == verdict[2]) or \
        (verdict[0] == 'bool' and M.is_const(t, verdict[1]))
    if verdict[0] == 'bool' and a[0] in ('T', 'F') and call_pred(a[1]):
        return (a[0] == 'T') == verdict[1]
    if a[0] == 'in' and call_pred(a[1]) and verdict[0] == 'variant':
        return a[2] == frozenset([verdict[2]])
    if a[0] == 'cmp' and a[3] == frozenset('='):
        return (call_pred(a[1]) and is_v(a[2])) or (call_pred(a[2]) and is_v(a[1]))
    if a[0] == 'T' and M.is_call(a[1], 'eq') and len(a[1][2]) == 2:
        x, y = a[1][2]
        return (call_pred(x) and is_v(y)) or (call_pred(y) and is_v(x))
    if a[0] == 'F' and M.is_call(a[1], 'ne') and len(a[1][2]) == 2:
        x, y = a[1][2]
        return (call_pred(x) and is_v(y)) or (call_pred(y) and is_v(x))
    return False


# ------------------------------------------------------------------------------------------------
def r_filters(ctx):
    for tag, adt in DIAGRAMS:
        mv = ctx.body(adt, '_move_to_next_layer')
        fc = mv.calls_to('_filter_with_cache')
        fd = mv.calls_to('_filter_with_dominance')
        sq = mv.calls_to('_squash_if_needed')
        if ctx.floor('R09.3', tag + '/filter-call', mv, len(fc), 1, '_filter_with_cache call'):
            ok, cut, bad = M.guarded(mv, [mv.term_point(fc[0][0])], lambda atoms, lit: any(a[0] == 'F' and M.is_call(a[1], 'is_empty') and self_field(a[1][2][0], 'layers') for a in atoms))
            ctx.check(ok, 'R09.3', tag + '/cache-filter-below-root-only', mv, mv.loc(fc[0][0]), 'the cache filter is applied below the root only (layers non-empty)',
                      'the cache filter can be applied to the root layer: the root, just marked explored at pop time, would prune itself')
        if ctx.floor('R13.a', tag + '/squash-call', mv, len(sq), 1, '_squash_if_needed call') and fd and fc:
            sqp = mv.term_point(sq[0][0])
            # squash after the filters, on the vector that is returned / shared with _compile
            r = mv.reach(mv.after(sqp))
            ctx.check(mv.term_point(fd[0][0]) not in r and mv.term_point(fc[0][0]) not in r, 'R13.a', tag + '/squash-after-filters', mv, mv.loc(sq[0][0]), 'the layer is squashed after filtering',
                      'a filter runs after the squash')
            sarg = mv.origin.operand(sq[0][1]['args'][2], sqp)
            if tag == 'Mdd':
                good = M.is_param(sarg, index=2)
                # every path answering "go on, expand" went through the squash
                mvv_ = move_verdicts(mv)
                trues = mvv_[3] if mvv_ else []
                r0 = mv.reach([(0, 0)], avoid=[sqp])
                good = good and bool(trues) and not any(p in r0 for p in trues)
            else:
                rt = _ret_term(mv)
                good = rt == sarg
                r0 = mv.reach([(0, 0)], avoid=[sqp])
                good = good and not any(p in r0 for p in ret_points(mv))
            ctx.check(good, 'R13.a', tag + '/squash-on-expanded-vector', mv, mv.loc(sq[0][0]), 'the vector handed to _compile for expansion has been squashed on every path',
                      'the vector expanded by _compile is not the one that went through _squash_if_needed on every path')
        # R09.4 cache filter closure
        fb = ctx.body(adt, '_filter_with_cache')
        cl = [c for c in ctx.unit(fb)[1:] if c.calls_to('Cache::get_threshold')]
        if ctx.floor('R09.4', tag + '/closure', fb, len(cl), 1, 'retain closure of _filter_with_cache'):
            c = cl[0]
            gt = c.calls_to('Cache::get_threshold')[0]
            ga = [c.origin.operand(x, c.term_point(gt[0])) for x in gt[1]['args']]
            idx = node_field(ga[1], 'state')
            ctx.check(idx is not None and node_field(ga[2], 'depth') == idx, 'R09.4', tag + '/threshold-key', c, c.loc(gt[0]), 'the threshold is looked up under (state, depth) of the node being filtered',
                      'get_threshold is asked for (%s, %s)' % (M.show(ga[1]), M.show(ga[2])))
            gtt = c.origin.call(gt[1], c.term_point(gt[0]))
            thv = lambda t: M.is_field(t, 'value', 'Threshold') and M.contains(t, lambda x: x == gtt)
            val = lambda t: node_field(t, 'value_top') == idx
            ok = returns_value_only_if(c, False, lambda atoms: any(M.cmp_matches(a, val, thv, '<=') for a in atoms))
            ctx.check(ok, 'R09.4', tag + '/prune-polarity(E5)', c, c.loc(gt[0]), 'a node is pruned by the cache only on an edge asserting value_top <=|< threshold.value',
                      'the cache filter can prune a node without value_top <= theta being asserted (a strictly better path to the state is discarded)')
            eff = sorted(set([d[2] for (pt, d, v, s) in writes(c) if isinstance(d, tuple) and d[0] == 'field'] +
                             [(t_.get('callee') or '').split('::')[-1] for (b_, t_) in c.calls() if (t_.get('callee') or '').split('::')[-1].startswith('set_')]))
            ctx.check(eff == ['set_pruned_by_cache', 'theta'], 'R09.4', tag + '/filter-only-records-flag-and-theta', c, c.loc(gt[0]), 'the cache filter changes nothing on a node except the cache flag and theta',
                      'the cache filter has other effects on the node: %s' % eff)
            # pruned => flag + theta, on every path that may answer false
            flagp = set(bb for (bb, t) in c.calls_to('set_pruned_by_cache') if M.is_const(c.origin.operand(t['args'][1], c.term_point(bb)), True))
            tw = set(pt[0] for (pt, d, v, s) in writes(c) if node_field(d, 'theta') == idx and isinstance(v, tuple) and v[0] == 'aggr' and v[2] == 'Some' and thv(v[3][0][1]))
            good = bool(flagp) and bool(tw)
            npaths = 0
            for (atoms_, rt_, blocks_, end_) in bool_fn_paths(c):
                if M.is_const(rt_, True):
                    continue
                if rt_ is not None and not M.is_const(rt_) and not M.consistent(list(atoms_) + M.lit_atoms(('F', rt_))):
                    continue        # the path returns a boolean TERM that its own path condition makes true (`keep` after `if !keep {..}`)
                npaths += 1
                if not (flagp & set(blocks_)) or not (tw & set(blocks_)):
                    good = False
            ctx.check(good and npaths > 0, 'R09.4', tag + '/pruned-gets-flag-and-theta', c, c.loc(gt[0]), 'a pruned node is flagged pruned-by-cache and inherits theta := threshold.value (needed for propagation)',
                      'a node pruned by the cache does not get the cache flag and theta := threshold.value on every path')
        # R10.6 dominance filter
        db = ctx.body(adt, '_filter_with_dominance')
        so = db.calls_to('sort_unstable_by', 'sort_by')
        good = False
        if so:
            rt = _closure_ret(ctx.F, db.origin.operand(so[0][1]['args'][1], db.term_point(so[0][0])))
            if rt is not None and M.is_call(rt, 'reverse') and M.is_call(rt[2][0], 'DominanceChecker::cmp'):
                a = rt[2][0][2]
                ia, ib = node_field(a[1], 'state'), node_field(a[3], 'state')
                good = ia is not None and ib is not None and node_field(a[2], 'value_top') == ia and node_field(a[4], 'value_top') == ib and \
                    M.is_param(ia[1], index=1) and M.is_param(ib[1], index=2)
        ctx.check(good, 'R10.6', tag + '/sort-dominators-first', db, db.loc(so[0][0]) if so else db.loc(0), 'the layer is sorted with dominance.cmp(a.state, a.value, b.state, b.value).reverse() (dominating states first)',
                  'the layer is not sorted by DominanceChecker::cmp(..).reverse() on (a, b) before the dominance filter')
        cl = [c for c in ctx.unit(db)[1:] if c.calls_to('DominanceChecker::is_dominated_or_insert')]
        if ctx.floor('R10.6', tag + '/closure', db, len(cl), 1, 'retain closure of _filter_with_dominance'):
            c = cl[0]
            (bb, t) = c.calls_to('DominanceChecker::is_dominated_or_insert')[0]
            a = [c.origin.operand(x, c.term_point(bb)) for x in t['args']]
            idx = node_field(a[1], 'state')
            ctx.check(idx is not None and node_field(a[2], 'depth') == idx and node_field(a[3], 'value_top') == idx, 'R10.6', tag + '/query-args', c, c.loc(bb),
                      'the checker is queried with (state, depth, value_top) of the node being filtered', 'is_dominated_or_insert receives (%s)' % ', '.join(M.show(x) for x in a[1:]))
            ok, cut, bad = M.guarded(c, [c.term_point(bb)], lambda atoms, lit: any(a_[0] == 'T' and M.is_call(a_[1], 'is_exact') and node_field(a_[1][2][0], 'flags') == idx for a_ in atoms))
            ctx.check(ok, 'R10.6', tag + '/only-exact-nodes', c, c.loc(bb), 'only exact nodes are submitted to the dominance checker', 'an inexact (merged) node can be submitted to / pruned by the dominance checker')
            res = c.origin.call(t, c.term_point(bb))
            falses = [(b2, i) for (b2, i, s) in c.assigns(lambda s: s['place']['l'] == 0 and not s['place']['p'] and s['rv']['k'] == 'use' and s['rv']['op'].get('const', {}).get('bool') is False)]
            is_dom = lambda atoms: any(a_[0] == 'T' and M.is_field(a_[1], 'dominated', 'DominanceCheckResult') and a_[1][1] == res for a_ in atoms)
            ok = returns_value_only_if(c, False, is_dom)
            ctx.check(ok, 'R10.6', tag + '/drop-only-dominated', c, c.loc(*falses[0]) if falses else c.loc(bb), 'a node is dropped (closure answers false) only when the checker answered dominated',
                      'the dominance filter can drop a node the checker did not report dominated')
            eff = sorted(set([d[2] for (pt, d, v, s) in writes(c) if isinstance(d, tuple) and d[0] == 'field'] +
                             [(t_.get('callee') or '').split('::')[-1] for (b_, t_) in c.calls() if (t_.get('callee') or '').split('::')[-1].startswith('set_')]))
            ctx.check(eff == ['theta'], 'R10.6', tag + '/filter-only-records-theta', c, c.loc(bb), 'the dominance filter changes nothing on a node except theta',
                      'the dominance filter has other effects on the node than recording theta: %s' % eff)
            tw = [(pt, d, v) for (pt, d, v, s) in writes(c) if node_field(d, 'theta') is not None]
            good = bool(tw) and all(node_field(d, 'theta') == idx and M.is_field(v, 'threshold', 'DominanceCheckResult') and v[1] == res for (pt, d, v) in tw)
            if good:
                # every path that may answer false (drop) has written theta
                twp = [pt for (pt, d, v) in tw]
                for (atoms_, rt_, blocks_, end_) in bool_fn_paths(c):
                    if M.is_const(rt_, True):
                        continue
                    dominated_path = M.is_const(rt_, False) or any(a_[0] == 'T' and M.is_field(a_[1], 'dominated', 'DominanceCheckResult') for a_ in atoms_)
                    if dominated_path and not any(pt_[0] in blocks_ for pt_ in twp):
                        good = False
            for rid in ('R09.5', 'R10.6'):
                ctx.check(good, rid, tag + '/theta-write/dominance threshold', c, c.loc(*tw[0][0]) if tw else c.loc(bb), 'a dominated node receives theta := the checker\'s threshold (otherwise it is taken for a dangling exact node and gets theta = MAX)',
                          'a dominated node does not receive theta := threshold returned by the checker')


# ------------------------------------------------------------------------------------------------
def r_cutset(ctx):
    for tag, adt in DIAGRAMS:
        # ---- R08.1 / R08.4 drain ----------------------------------------------------------------
        b = ctx.body(adt, '_drain_cutset')
        sp = aggr_assigns(b, 'common::SubProblem')
        if ctx.floor('R08.1', tag + '/subproblem', b, len(sp), 1, 'SubProblem aggregate in _drain_cutset'):
            (bb, i, s) = sp[0]
            v = b.origin.rvalue(s['rv'], (bb, i))
            f = dict(v[3])
            idx = node_field(f['state'], 'state')
            ctx.check(idx is not None and node_field(f['value'], 'value_top') == idx and node_field(f['depth'], 'depth') == idx, 'R08.1', tag + '/fields-of-one-node', b, b.loc(bb, i),
                      'state, value (= value_top) and depth of a handed-out sub-problem come from one node', 'SubProblem fields come from different nodes / fields: %s' % M.show(v)[:300])
            pth = f['path']
            good = M.is_call(pth, '_best_path_partial_borrow', '_best_path') and idx is not None and id0(pth[2][0]) == idx and \
                (not M.is_call(pth, '_best_path_partial_borrow') or (self_field(pth[2][1], 'path_to_root') and self_field(pth[2][2], 'nodes') and self_field(pth[2][3], 'edges')))
            ctx.check(good, 'R08.1', tag + '/path-of-same-node', b, b.loc(bb, i), 'the path handed out is the best path of that same node (prefixed by path_to_root)', 'SubProblem.path is %s' % M.show(pth)[:200])
            ctx.check(idx is not None and M.contains(idx, lambda x: M.is_call(x, 'drain') and self_field(x[2][0], 'cutset')), 'R08.1', tag + '/ids-from-cutset', b, b.loc(bb, i),
                      'the nodes handed out are the members of self.cutset', 'the node handed out is %s' % M.show(idx)[:200])
            ub = f['ub']
            items = ub[1] if isinstance(ub, tuple) and ub[0] == 'min' else (ub,)
            def kind(x):
                if isinstance(x, tuple) and x[0] == 'add' and len(x[1]) == 2 and any(node_field(y, 'value_top') == idx for y in x[1]):
                    if any(node_field(y, 'rub') == idx for y in x[1]):
                        return 'rub'
                    if any(node_field(y, 'value_bot') == idx for y in x[1]):
                        return 'locb'
                if M.is_field(x, '0') and isinstance(x[1], tuple) and x[1][0] == 'variant' and M.is_call(x[1][1], 'best_value', '_best_value'):
                    return 'best'
                return None
            kinds = [kind(x) for x in items]
            ctx.check(all(k is not None for k in kinds) and len(kinds) >= 1, 'R08.4', tag + '/ub-term', b, b.loc(bb, i),
                      'ub = min over a non-empty subset of {value_top + rub, value_top + value_bot, best_value} of that node (%s)' % ', '.join(str(k) for k in kinds),
                      'the bound of a handed-out sub-problem is %s: not a min-combination of value_top+rub, value_top+value_bot, best_value of the node' % M.show(ub)[:300])
            ok, cut, bad = M.guarded(b, [(bb, i)], lambda atoms, lit: any(a[0] == 'T' and M.is_call(a[1], 'is_marked') and node_field(a[1][2][0], 'flags') == idx for a in atoms))
            ctx.check(ok, 'R08.1', tag + '/only-marked', b, b.loc(bb, i), 'only marked (backward reachable) nodes are handed out', 'an unmarked node can be handed out')
            # the callback receives this aggregate
            cm = [(b2, t2) for (b2, t2) in b.calls() if t2.get('callee') in ('std::ops::FnMut::call_mut', 'std::ops::FnOnce::call_once', 'std::ops::Fn::call')]
            good = any(M.contains(b.origin.operand(t2['args'][1], b.term_point(b2)), lambda x: x == v) for (b2, t2) in cm)
            ctx.check(good, 'R08.1', tag + '/callback-gets-it', b, b.loc(bb, i), 'the sub-problem built is what the callback receives', 'the callback does not receive the SubProblem built from the node')
            # coverage (iv): EVERY marked member of the cut-set is handed out — the only reason for an iteration of the drain loop to end
            # without calling the callback is "the node is not marked" (closed list; a de-duplication on the state, a value test, a
            # counter ... silently drops a sub-problem that nothing else covers)
            cmp_ = [b.term_point(b2) for (b2, t2) in cm]
            its_ = [it for it in iterations(ctx, b) if it['where'] is b and M.contains(it['src'], lambda x: self_field(x, 'cutset'))]
            if ctx.floor('R08.1', tag + '/drain-loop', b, len(its_), 1, 'loop over self.cutset in _drain_cutset'):
                it = its_[0]
                def excused_(atoms, lit):
                    return any(a[0] == 'F' and M.is_call(a[1], 'is_marked') for a in atoms)
                cut_ = _cut_edges(b, excused_)
                r_ = b.reach(it['starts'], cut_edges=cut_, avoid=cmp_)
                ctx.check(bool(it['starts']) and bool(cmp_) and not any(e in r_ for e in it['ends']), 'R08.1', tag + '/every-marked-member-is-handed-out', b, b.loc(it['at'][0]),
                          'every marked node of the cut-set reaches the callback (the only reason to skip a member is "not marked")',
                          'an iteration of the drain loop can end without handing the node out although it is marked: that sub-problem is silently dropped and nothing else covers its completions')
                # ... and the loop itself is only left when the iterator is exhausted: "not marked" excuses skipping THIS member, not
                # the rest of the cut-set (a guard clause written `return` where `continue` was meant: seeded/C08-r10-2)
                if it['kind'] == 'for':
                    rets_ = set(ret_points(b))
                    r2_ = b.reach(it['starts'], avoid=[it['at']])
                    ctx.check(not any(e in r2_ for e in rets_), 'R08.1', tag + '/drain-loop-runs-to-the-end', b, b.loc(it['at'][0]),
                              'the drain loop is left only when the cut-set is exhausted (no return from inside an iteration)',
                              '_drain_cutset can return from inside an iteration of the drain loop: the remaining members of the cut-set are never handed out')
        # ---- R08.5 local bounds -------------------------------------------------------------------
        lb = ctx.body(adt, '_compute_local_bounds')
        for body in ctx.unit(lb):
            for (pt, d, v, s) in writes(body):
                idx = node_field(d, 'value_bot')
                if idx is None:
                    continue
                if M.is_const(v, 0):
                    ctx.ok('R08.5', tag + '/value_bot-init', body, body.loc(*pt), 'terminal nodes start with value_bot = 0')
                    continue
                cands = guarded_update(body, pt, d, v, 'max')
                good = len(cands) == 1
                if good:
                    other = cands[0]
                    good = isinstance(other, tuple) and other[0] == 'add' and any(M.is_field(y, 'cost', 'Edge') for y in other[1]) and any(node_field(y, 'value_bot') is not None for y in other[1])
                    good = good and M.is_field(idx, '0') and M.is_field(idx[1], 'from', 'Edge')
                    if good:
                        child = [node_field(y, 'value_bot') for y in other[1] if node_field(y, 'value_bot') is not None][0]
                        good = _foreach_over(ctx, lb, body, child) if body.kind == 'closure' else True
                ctx.check(good, 'R08.5', tag + '/value_bot-max-update(E12)', body, body.loc(*pt), 'parent.value_bot := max(parent.value_bot, child.value_bot (+) edge.cost) over the inbound arcs of the child',
                          'value_bot := %s is not the max-update over (child.value_bot + edge.cost) for arcs child <- parent' % M.show(v)[:260])
            for (bb, t) in body.calls_to('set_marked'):
                a = [body.origin.operand(x, body.term_point(bb)) for x in t['args']]
                ctx.check(M.is_const(a[1], True), 'R08.5', '%s/marking/%s' % (tag, short(body)), body, body.loc(bb), 'marking only sets the flag', 'set_marked(%s)' % M.show(a[1]))
        vw = [1 for body in ctx.unit(lb) for (pt, d, v, s) in writes(body) if M.is_field(d, 'value_bot', '::Node')]
        for (pt, d, v, s) in writes(lb):
            if M.is_field(d, 'value_bot', '::Node') and node_field(d, 'value_bot') is None:
                ctx.check(M.is_const(v, 0) and M.contains(d, lambda x: self_field(x, 'nodes')), 'R08.5', tag + '/value_bot-init', lb, lb.loc(*pt), 'terminal nodes start with value_bot = 0', 'value_bot := %s' % M.show(v))
        ctx.floor('R08.5', tag + '/value_bot-writes', lb, len(vw), 2, 'writes of value_bot (init + update)')
        # traversal is bottom-up
        rev = lb.calls_to('rev')
        ctx.check(bool(rev) and M.contains(lb.origin.operand(rev[0][1]['args'][0], lb.term_point(rev[0][0])), lambda x: self_field(x, 'layers')), 'R08.5', tag + '/bottom-up', lb,
                  lb.loc(rev[0][0]) if rev else lb.loc(0), 'local bounds are computed over the layers in reverse order', 'local bounds are not computed bottom-up (layers.rev())')
        ok, cut, bad = M.guarded(lb, [p for p in [lb.term_point(bb) for (bb, t) in lb.calls_to('rev')]], lambda atoms, lit: any(_is_relaxed_lit(a) for a in atoms))
        ctx.check(ok, 'R08.5', tag + '/only-relaxed', lb, lb.loc(0), 'local bounds are computed for relaxed compilations', 'local bounds computed outside relaxed compilations')
        # ... and they are not optional: in a relaxed compilation that has a cut-set, the bottom-up traversal runs on every path (closed list
        # of exemptions: not relaxed; no cut-set — `lel` beyond the last layer / `cutset` empty). The thresholds of the cut-set nodes read
        # value_bot as well: left at its initial MIN, theta saturates to MAX and the state is never explored again.
        def lb_exempt(atoms, lit):
            for a_ in atoms:
                if a_[0] == 'cmp' and a_[3] == frozenset('<>') and _is_relaxed_lit(('cmp', a_[1], a_[2], frozenset('='))):
                    return True         # comp_type != Relaxed
                if a_[0] == 'in' and M.is_field(a_[1], 'comp_type', 'CompilationInput') and 'Relaxed' not in a_[2]:
                    return True
                if a_[0] == 'T' and M.is_call(a_[1], 'is_empty') and self_field(a_[1][2][0], 'cutset'):
                    return True
                if a_[0] == 'cmp' and M.contains(a_[1], lambda x: self_field(x, 'lel')) and M.contains(a_[2], lambda x: _layers_len(x)) and not (a_[3] <= frozenset('<')):
                    return True
                if a_[0] == 'cmp' and M.contains(a_[2], lambda x: self_field(x, 'lel')) and M.contains(a_[1], lambda x: _layers_len(x)) and not (a_[3] <= frozenset('>')):
                    return True
            return False
        loops_exhaust(ctx, 'R08.5', tag + '/local-bounds', lb, 'the bottom-up local-bound traversal (layers, then nodes)')
        trav = [lb.term_point(bb) for (bb, t) in lb.calls_to('rev')]
        cut_ = _cut_edges(lb, lb_exempt)
        r_ = lb.reach([(0, 0)], cut_edges=cut_, avoid=trav)
        ctx.check(bool(trav) and not any(p_ in r_ for p_ in ret_points(lb)), 'R08.5', tag + '/local-bounds-mandatory', lb, lb.loc(0),
                  'in a relaxed compilation with a cut-set every path through _compute_local_bounds runs the bottom-up traversal',
                  '_compute_local_bounds can return without computing value_bot in a relaxed compilation that has a cut-set (an extra early exit): cut-set bounds and thresholds then use value_bot = MIN')
        # every finalisation step runs on every path through _finalize (an early return written at the top of a step is hoisted to this call
        # site by the guard normalisation, so a new reason to skip a step shows up here whichever side it was written on)
        fz_ = ctx.body(adt, '_finalize')
        for step_ in ('_finalize_layers', '_find_best_node', '_finalize_exact', '_finalize_cutset', '_compute_local_bounds', '_compute_thresholds'):
            cps_ = call_points(fz_, step_)
            if not cps_:
                continue            # merged into a neighbour / renamed beyond recognition: the step's own rules report a missing anchor
            # the closed list of reasons for which a step may skip its work may be tested on either side of the call (a whole-body guard
            # moved from the callee to this call site is the same program)
            def th_exempt(atoms, lit):
                for a_ in atoms:
                    if a_[0] == 'F' and self_field(a_[1], 'is_exact'):
                        return True
                    if a_[0] == 'cmp' and a_[3] == frozenset('<>') and _is_relaxed_lit(('cmp', a_[1], a_[2], frozenset('='))):
                        return True
                    if a_[0] == 'in' and M.is_field(a_[1], 'comp_type', 'CompilationInput') and 'Relaxed' not in a_[2]:
                        return True
                return False
            ex_ = {'_compute_local_bounds': lb_exempt, '_compute_thresholds': th_exempt}.get(step_)
            r_ = fz_.reach([(0, 0)], avoid=cps_, cut_edges=(_cut_edges(fz_, ex_) if ex_ else ()))
            rid_ = {'_compute_local_bounds': 'R08.5', '_compute_thresholds': 'R09.1', '_finalize_cutset': 'R08.2', '_finalize_layers': 'R20.a'}.get(step_, 'R02.6')
            ctx.check(not any(p_ in r_ for p_ in ret_points(fz_)), rid_, '%s/finalize-always-runs/%s' % (tag, step_), fz_, fz_.loc(cps_[0][0]),
                      '_finalize runs %s on every path' % step_, '_finalize can skip %s (a new early exit / guard in front of that step): what the step computes (best nodes, cut-set, local bounds, thresholds) is missing or stale for some compilations' % step_)
        # ---- R08.2 frontier admission ------------------------------------------------------------
        fb = ctx.body(adt, '_compute_frontier_cutset')
        loops_exhaust(ctx, 'R08.2', tag + '/frontier', fb, 'the bottom-up frontier construction (layers, then nodes)')
        pushes = [(c, bb, t) for c in ctx.unit(fb) for (bb, t) in c.calls_to('push') if self_field(c.origin.operand(t['args'][0], c.term_point(bb)), 'cutset')]
        if ctx.floor('R08.2', tag + '/frontier-push', fb, len(pushes), 1, 'push onto cutset in the frontier construction'):
            (c, bb, t) = pushes[0]
            v = c.origin.operand(t['args'][1], c.term_point(bb))
            par = id0(v)
            walk = arc_child(ctx, fb, c, v[1]) if M.is_field(v, 'from', 'Edge') else None
            good_v = walk is not None
            ok1, _, _ = M.guarded(c, [c.term_point(bb)], lambda atoms, lit: any(a[0] == 'T' and M.is_call(a[1], 'is_exact') and node_field(a[1][2][0], 'flags') == par for a in atoms))
            ok2, _, _ = M.guarded(c, [c.term_point(bb)], lambda atoms, lit: any(a[0] == 'F' and M.is_call(a[1], 'is_cutset') and node_field(a[1][2][0], 'flags') == par for a in atoms))
            ctx.check(good_v and ok1 and ok2, 'R08.2', tag + '/frontier-admission', c, c.loc(bb), 'a node enters the frontier cut-set only if it is the exact source of the arc and not yet a member',
                      'the frontier cut-set admits %s without asserting is_exact(parent) && !is_cutset(parent)' % M.show(v))
            sc = [c.term_point(b2) for (b2, t2) in c.calls_to('set_cutset') if node_field(c.origin.operand(t2['args'][0], c.term_point(b2)), 'flags') == par and M.is_const(c.origin.operand(t2['args'][1], c.term_point(b2)), True)]
            r = c.reach(c.after(c.term_point(bb)), avoid=sc, stop=[walk[1]] if (walk and c is fb and walk[1]) else ())
            ends = ret_points(c) + ([walk[1]] if (walk and c is fb and walk[1]) else [])
            ctx.check(bool(sc) and not any(p in r for p in ends), 'R08.2', tag + '/frontier-flag', c, c.loc(bb), 'an admitted node is flagged cut-set on every path (no duplicates)', 'an admitted node is not flagged F_CUTSET')
            # the arcs examined are the inbound arcs of the inexact nodes met in a bottom-up traversal
            good = walk is not None and walk[1] is not None
            if good:
                (child, wp) = walk
                ok3, cut3, _ = M.guarded(fb, [wp], lambda atoms, lit: any(a[0] == 'F' and M.is_call(a[1], 'is_exact') and node_field(a[1][2][0], 'flags') == child for a in atoms))
                # no inexact node is skipped: from the edge asserting !is_exact(child), avoiding the walk, the next node cannot be reached
                good = ok3
            ctx.check(good, 'R08.2', tag + '/frontier-covers-inexact-nodes', fb, fb.loc(wp[0]) if good else fb.loc(0), 'every inbound arc of every inexact node is examined',
                      'the frontier construction does not examine the inbound arcs of each inexact node')
            rev = fb.calls_to('rev')
            ctx.check(bool(rev), 'R08.2', tag + '/frontier-bottom-up', fb, fb.loc(0), 'the frontier is built bottom-up', 'the frontier construction does not traverse layers in reverse')
            # exact nodes met in the traversal are marked above-cutset
            sa = [(b2, t2) for (b2, t2) in fb.calls_to('set_above_cutset')]
            good = bool(sa)
            if good:
                a = [fb.origin.operand(x, fb.term_point(sa[0][0])) for x in sa[0][1]['args']]
                ni = node_field(a[0], 'flags')
                ok4, _, _ = M.guarded(fb, [fb.term_point(sa[0][0])], lambda atoms, lit: any(a_[0] == 'T' and M.is_call(a_[1], 'is_exact') and node_field(a_[1][2][0], 'flags') == ni for a_ in atoms))
                good = ok4 and M.is_const(a[1], True)
            ctx.check(good, 'R09.2', tag + '/above-cutset-iff-exact', fb, fb.loc(sa[0][0]) if sa else fb.loc(0), 'in the frontier construction a node is above the cut-set iff it is exact', 'set_above_cutset is not guarded by is_exact of the same node')
        # ---- R08.3 progress: a diagram that keeps nodes in its pool across layers needs a root test -----------
        uses_impact = any(body.calls_to('Problem::is_impacted_by') for body in dd_unit(ctx, tag))
        if uses_impact:
            root_test = False
            for body in ctx.unit(fb) + ctx.unit(b) + ctx.unit(ctx.body(adt, '_squash_if_needed')) + ctx.unit(ctx.body(adt, '_relax')):
                for bbk in body.live_blocks():
                    if body.term(bbk)['k'] != 'switch':
                        continue
                    for (tb, lab) in body.succ(bbk):
                        for a in M.lit_atoms(M.edge_literal(body, bbk, lab)):
                            if a[0] == 'cmp':
                                ts = (a[1], a[2])
                                is_id = lambda x: (M.is_field(x, '0') and (M.is_field(x[1], 'from', 'Edge') or M.is_param(x[1]))) or node_field(x, 'depth') is not None
                                is_root = lambda x: M.is_const(x, 0) or M.contains(x, lambda y: M.is_field(y, 'residual', 'CompilationInput')) or self_field(x, 'root')
                                if (is_id(ts[0]) and is_root(ts[1])) or (is_id(ts[1]) and is_root(ts[0])):
                                    root_test = True
            # accepted alternative (the repair of D4): no long arc leaves the root or one of its children — a pool node may skip a layer
            # (the candidate filter answers false) only on an edge asserting that at least two layers are recorded. With the
            # first-layer-not-squashed guard (same rule id) and "a layer is recorded only when non-empty" (R15.3), every child of the root is
            # expanded in the never-squashed layer below the root and has left the pool before any merged node exists: the root keeps
            # exact children only and cannot be admitted to the frontier.
            eager_top = False
            mv_ = ctx.body(adt, '_move_to_next_layer')
            flt_ = [c_ for c_ in ctx.unit(mv_) if c_.calls_to('Problem::is_impacted_by')]
            if flt_:
                eager_top = all(returns_value_only_if(c_, False, lambda atoms: any(_two_layers(a_) for a_ in atoms)) for c_ in flt_)
            how_ = 'the cut-set construction tests for the compilation root' if root_test else 'no pool node skips a layer before two layers are recorded (the root and its children are developed right away)'
            ctx.check(root_test or eager_top, 'R08.3', tag + '/root-test', fb, fb.loc(0),
                      'a diagram whose pool keeps un-impacted nodes across layers protects the compilation root: ' + how_,
                      '%s keeps nodes in its pool across layers (is_impacted_by) but neither the squash guard nor the cut-set construction tests for the compilation root: '
                      'a lingering child of the root can be merged (or receive an inexact arc) and the root itself enters the cut-set — no progress (D4)' % tag)
        else:
            mv = ctx.body(adt, '_move_to_next_layer')
            dr = mv.calls_to('drain')
            good = any(self_field(mv.origin.operand(t['args'][0], mv.term_point(bb)), TERMINAL[tag]) for (bb, t) in dr)
            ctx.check(good, 'R08.3', tag + '/all-nodes-move', mv, mv.loc(dr[0][0]) if dr else mv.loc(0), 'every node of the next layer is moved into the expanded vector at each layer (drain, no conditional skip): all parents of a layer-k node lie in layer k-1',
                      'the diagram no longer drains its whole next layer each iteration: the layer-count guard does not protect the root any more')
        if tag == 'Mdd':
            lc = ctx.body(adt, '_compute_last_exact_layer_cutset')
            ps = [(bb, t) for (bb, t) in lc.calls_to('push') if self_field(lc.origin.operand(t['args'][0], lc.term_point(bb)), 'cutset')]
            good = bool(ps)
            if good:
                v = lc.origin.operand(ps[0][1]['args'][1], lc.term_point(ps[0][0]))
                good = M.contains(v, lambda x: M.is_call(x, 'skip')) and M.contains(v, lambda x: M.is_call(x, 'take')) and M.contains(v, lambda x: M.is_call(x, 'enumerate'))
                sk = [x for x in M.walk(v) if M.is_call(x, 'skip')][0] if good else None
                tk = [x for x in M.walk(v) if M.is_call(x, 'take')][0] if good else None
                if good:
                    lay = lambda x, f: M.is_field(x, f, 'Layer') and M.contains(x, lambda y: M.is_param(y, index=1))
                    good = lay(sk[2][1], 'from') and isinstance(tk[2][1], tuple) and tk[2][1][0] == 'sub' and lay(tk[2][1][1], 'to') and lay(tk[2][1][2], 'from')
            ctx.check(good, 'R08.2', tag + '/lel-cutset-is-layer-lel', lc, lc.loc(ps[0][0]) if ps else lc.loc(0), 'the LEL cut-set is exactly the node range [from, to) of layer `lel`',
                      'the last-exact-layer cut-set is not nodes[from..to) of the recorded layer')
            # the members get both bits, whatever the spelling: add(F_CUTSET | F_ABOVE_CUTSET) (inlined: flags.0 |= mask), two setters, ...
            from .flags_rules import bits_always_set
            consts_ = {k.split('::')[-1]: v['int'] for k, v in ctx.F.consts.items() if 'NodeFlags::F_' in k and 'int' in v}
            want_ = consts_.get('F_CUTSET', 0) | consts_.get('F_ABOVE_CUTSET', 0)
            got_ = 0
            clean_ = True
            for (pt, d, v, s_) in writes(lc):
                if M.is_field(d, '0') and node_field(d[1], 'flags') is not None:
                    r_ = bits_always_set(ctx.F, d, v)
                    if r_ is None:
                        clean_ = False
                    else:
                        got_ |= r_[0]
                        clean_ = clean_ and r_[1]
            for (nm, c_) in (('set_cutset', 'F_CUTSET'), ('set_above_cutset', 'F_ABOVE_CUTSET')):
                for (bb, t) in lc.calls_to(nm):
                    a = [lc.origin.operand(x, lc.term_point(bb)) for x in t['args']]
                    if node_field(a[0], 'flags') is not None and M.is_const(a[1], True):
                        got_ |= consts_.get(c_, 0)
            good = want_ != 0 and (got_ & want_) == want_ and clean_ and (got_ & ~want_) == 0
            ctx.check(good, 'R08.2', tag + '/lel-cutset-flags', lc, lc.loc(0), 'LEL cut-set nodes are flagged F_CUTSET | F_ABOVE_CUTSET', 'LEL cut-set nodes are not flagged F_CUTSET | F_ABOVE_CUTSET')
            fcs = ctx.body(adt, '_finalize_cutset')
            ok, cut, bad = M.guarded(fcs, call_points(fcs, '_compute_last_exact_layer_cutset', '_compute_frontier_cutset'), _relaxed_or_exact)
            ctx.check(ok, 'R08.2', tag + '/cutset-only-relaxed-or-exact', fcs, fcs.loc(0), 'cut-sets are built for relaxed or exact diagrams only', 'a cut-set can be built from an inexact restricted diagram')
        else:
            ok, cut, bad = M.guarded(fb, [fb.term_point(bb) for (bb, t) in fb.calls_to('rev')], _relaxed_or_exact)
            ctx.check(ok, 'R08.2', tag + '/cutset-only-relaxed-or-exact', fb, fb.loc(0), 'cut-sets are built for relaxed or exact diagrams only', 'a cut-set can be built from an inexact restricted diagram')


# ------------------------------------------------------------------------------------------------
def r_best_nodes(ctx):
    for tag, adt in DIAGRAMS:
        for (fn, fld, what) in (('_best_value', 'best_node', 'value'), ('_best_solution', 'best_node', 'path'), ('_best_exact_value', 'best_exact_node', 'value'), ('_best_exact_solution', 'best_exact_node', 'path')):
            b = ctx.body(adt, fn)
            rt = _ret_term(b)
            om = opt_map(rt)
            good = om is not None and self_field(om[0], fld)
            if good:
                crt = om[1]
                pay = opt_payload(om[0])
                if what == 'value':
                    good = node_field(crt, 'value_top') is not None and node_field(crt, 'value_top') == id0(pay)
                else:
                    # the best path of THAT node, prefixed by path_to_root (through the `_best_path` helper or directly)
                    good = (M.is_call(crt, '_best_path') and crt[2][1] == pay) or \
                        (M.is_call(crt, '_best_path_partial_borrow') and crt[2][0] == pay and self_field(crt[2][1], 'path_to_root') and self_field(crt[2][2], 'nodes') and self_field(crt[2][3], 'edges'))
            ctx.check(good, 'R02.5', '%s/%s' % (tag, fn), b, b.loc(0), '%s = %s.map(|id| %s of that node)' % (fn, fld, 'value_top' if what == 'value' else 'best path'),
                      '%s returns %s' % (fn, M.show(rt)[:200]))
        for (tr, fn) in (('best_value', '_best_value'), ('best_solution', '_best_solution'), ('best_exact_value', '_best_exact_value'), ('best_exact_solution', '_best_exact_solution'), ('drain_cutset', '_drain_cutset')):
            b = ctx.body(adt, tr, trait='DecisionDiagram')
            cs = b.calls_to(fn)
            good = len(cs) == 1 and (tr == 'drain_cutset' or M.is_call(_ret_term(b), fn))
            ctx.check(good, 'R02.5', '%s/trait-%s' % (tag, tr), b, b.loc(0), 'DecisionDiagram::%s delegates to %s' % (tr, fn), 'DecisionDiagram::%s does not delegate to %s' % (tr, fn))
        for bp in ctx.F.find(adt=adt, name='_best_path'):
            if bp.name not in ctx.F.bodies:
                continue        # inlined at every call site: judged there
            rt = _ret_term(bp)
            good = M.is_call(rt, '_best_path_partial_borrow') and M.is_param(rt[2][0], index=1) and self_field(rt[2][1], 'path_to_root') and self_field(rt[2][2], 'nodes') and self_field(rt[2][3], 'edges')
            ctx.check(good, 'R02.5', tag + '/_best_path', bp, bp.loc(0), '_best_path(id) = partial_borrow(id, path_to_root, nodes, edges)', '_best_path returns %s' % M.show(rt))
        pb = ctx.body(adt, '_best_path_partial_borrow')
        # sol starts as root_pa, edge_id starts at nodes[id].best, then pushes edge.decision and moves to nodes[edge.from].best
        so = pb.calls_to('to_owned', 'to_vec', 'extend_from_slice')
        start_ok = False
        for l, ds in pb.defs().items():
            if pb.local_name(l) == 'sol' or (pb.local_ty(l).startswith('std::vec::Vec<common::Decision')):
                for dd_ in ds:
                    t = pb.origin._def_term(l, dd_, 0)
                    if M.is_param(t, index=1) or (isinstance(t, tuple) and M.contains(t, lambda x: M.is_param(x, index=1))):
                        start_ok = True
        ps = pb.calls_to('push')
        good = start_ok and bool(ps)
        if good:
            a = [pb.origin.operand(x, pb.term_point(ps[0][0])) for x in ps[0][1]['args']]
            ed = a[1]
            good = M.is_field(ed, 'decision', 'Edge') and isinstance(ed[1], tuple) and ed[1][0] == 'index' and M.is_param(ed[1][1], index=3)
            if good:
                eid = ed[1][2]
                lv = [x for x in M.walk(eid) if isinstance(x, tuple) and x and x[0] == 'var']
                defs = var_def_terms(pb, lv[0]) if lv else []
                def nbest(t, who):
                    return M.is_field(t, 'best', '::Node') and isinstance(t[1], tuple) and t[1][0] == 'index' and M.is_param(t[1][1], index=2) and who(t[1][2])
                from_id = lambda x: M.is_field(x, '0') and M.is_param(x[1], index=0)
                from_edge = lambda x: M.is_field(x, '0') and M.is_field(x[1], 'from', 'Edge') and isinstance(x[1][1], tuple) and x[1][1][0] == 'index' and M.is_param(x[1][1][1], index=3)
                good = len(defs) == 2 and any(nbest(d, from_id) for d in defs) and any(nbest(d, from_edge) for d in defs)
        ctx.check(good, 'R02.5', tag + '/best-path-walk', pb, pb.loc(0), 'the path is root_pa followed by the decisions of the best-edge chain (edge := nodes[id].best; then nodes[edge.from].best)',
                  'the solution reconstruction does not follow nodes[id].best -> edges[e].decision -> nodes[edge.from].best starting from root_pa')
        # _find_best_node
        fb = ctx.body(adt, '_find_best_node')
        for (pt, d, v, s) in writes(fb):
            for fld in ('best_node', 'best_exact_node'):
                if self_field(d, fld):
                    good = M.is_call(v, 'max_by_key') and M.contains(v[2][0], lambda x: M.is_call(x, 'values') and self_field(x[2][0], TERMINAL[tag]))
                    if good:
                        k = _closure_ret(ctx.F, v[2][1])
                        good = k is not None and node_field(k, 'value_top') is not None and M.is_param(M.strip_casts(node_field(k, 'value_top'))[1] if M.is_field(node_field(k, 'value_top'), '0') else None, index=1)
                    filt = [x for x in M.walk(v) if M.is_call(x, 'filter')]
                    if fld == 'best_exact_node':
                        fok = False
                        if filt:
                            fr = _closure_ret(ctx.F, filt[0][2][1])
                            fok = fr is not None and M.is_call(fr, 'is_exact') and node_field(fr[2][0], 'flags') is not None
                        good = good and fok
                    else:
                        good = good and not filt
                    ctx.check(good, 'R02.6', '%s/find-%s' % (tag, fld), fb, fb.loc(*pt), '%s = argmax value_top over %s terminal nodes' % (fld, 'the exact' if fld == 'best_exact_node' else 'all'),
                              '%s := %s' % (fld, M.show(v)[:260]))
        # _finalize_exact
        fe = ctx.body(adt, '_finalize_exact')
        for (pt, d, v, s) in writes(fe):
            if self_field(d, 'best_exact_node'):
                ok, cut, bad = M.guarded(fe, [pt], lambda atoms, lit: any(a[0] == 'T' and self_field(a[1], 'has_exact_best_path') for a in atoms))
                ctx.check(ok and self_field(v, 'best_node'), 'R02.6', tag + '/exact-best-path-promotion', fe, fe.loc(*pt), 'best_exact_node := best_node only when has_exact_best_path',
                          'best_exact_node is overwritten with %s without has_exact_best_path being asserted' % M.show(v))
            if self_field(d, 'has_exact_best_path'):
                defs = [x for leaf in M.leaves(v) for x in var_def_terms(fe, leaf)]
                calls = [x for x in defs if M.is_call(x, '_has_exact_best_path')]
                good = bool(calls) and all(M.is_const(x, False) or M.is_call(x, '_has_exact_best_path') for x in defs) and self_field(calls[0][2][1], 'best_node')
                cp = call_points(fe, '_has_exact_best_path')
                ok, cut, bad = M.guarded(fe, cp, lambda atoms, lit: any(_is_relaxed_lit(a) for a in atoms))
                ctx.check(good and ok and bool(cp), 'R02.6', tag + '/has_exact_best_path-origin', fe, fe.loc(*pt), 'has_exact_best_path = Relaxed && _has_exact_best_path(best_node)',
                          'has_exact_best_path := %s' % ', '.join(M.show(x) for x in defs))
        # ... and the promotion is not optional: is_exact() answers true when has_exact_best_path, so the exact accessors must then
        # describe the best node (otherwise the solver stops on a 'proved' value below the sub-problem optimum)
        prom = [pt for (pt, d, v, s) in writes(fe) if self_field(d, 'best_exact_node') and self_field(v, 'best_node')]
        hebp = _cut_edges(fe, lambda atoms, lit: any(a[0] == 'T' and self_field(a[1], 'has_exact_best_path') for a in atoms))
        starts_ = [(tb, 0) for (bbk, lab) in hebp for (tb, l_) in fe.succ(bbk) if l_ == lab]
        r_ = fe.reach(starts_, avoid=prom)
        ctx.check(bool(prom) and bool(starts_) and not any(p_ in r_ for p_ in ret_points(fe)), 'R02.6', tag + '/exact-best-path-promotes', fe, fe.loc(0),
                  'whenever has_exact_best_path holds, best_exact_node := best_node is executed (every path)',
                  'a diagram can claim an exact best path (is_exact() = true) without promoting best_node to best_exact_node: best_exact_value stays below the value it claims to have proved')
        # who else writes best_exact_node / best_node
        for body in dd_unit(ctx, tag):
            for (pt, d, v, s) in writes(body):
                if self_field(d, 'best_exact_node') or self_field(d, 'best_node'):
                    ctx.check(body.fn_name in ('_find_best_node', '_finalize_exact', '_clear', 'new'), 'R02.6', '%s/who-writes-best-nodes/%s' % (tag, short(body)), body, body.loc(*pt),
                              'best nodes written by _find_best_node/_finalize_exact/_clear only', 'best_node/best_exact_node written in %s' % body.name)
        # finalize order: find best node before finalize_exact before thresholds
        fz = ctx.body(adt, '_finalize')
        order = ['_finalize_layers', '_find_best_node', '_finalize_exact', '_compute_local_bounds', '_compute_thresholds']
        pts = [call_points(fz, n) for n in order]
        good = all(pts)
        if good:
            for i in range(len(order) - 1):
                if pts[i][0] in fz.reach(fz.after(pts[i + 1][0])) or pts[i + 1][0] not in fz.reach(fz.after(pts[i][0])):
                    good = False
            cs = call_points(fz, '_finalize_cutset', '_compute_frontier_cutset')
            good = good and bool(cs) and pts[3][0] in fz.reach(fz.after(cs[0])) and cs[0] in fz.reach(fz.after(pts[2][0]))
        ctx.check(good, 'R02.6', tag + '/finalize-order', fz, fz.loc(0), '_finalize: layers, best node, exactness, cut-set, local bounds, thresholds — in that order', '_finalize does not run its steps in the required order')
        # T7 _has_exact_best_path
        hb = ctx.body(adt, '_has_exact_best_path')
        _has_exact_best_path_table(ctx, tag, hb)


def _path_ret(body, blocks, end):
    """term returned on the path (path-sensitive through plain copies)"""
    has = any((kind == 'assign' and s['place']['l'] == 0) or (kind == 'call' and s['dest']['l'] == 0 and not s['dest']['p'])
              for (kind, pt, s) in M.path_effects(body, blocks, (0, 0), end))
    if not has:
        return None
    return M.path_local_term(body, blocks, end, 0)


def _has_exact_best_path_table(ctx, tag, hb):
    paths = M.enumerate_paths(hb, (0, 0))
    rows = []
    ok = True
    n = 0
    for (edges, blocks, end) in paths:
        atoms = M.path_atoms(hb, edges)
        if not M.consistent(atoms):
            continue
        n += 1
        rt = _path_ret(hb, blocks, end)
        none = any(a[0] == 'in' and M.is_param(a[1], index=1) and a[2] == frozenset(['None']) for a in atoms)
        ex = [a[0] for a in atoms if a[0] in 'TF' and M.is_call(a[1], 'is_exact')]
        rx = [a[0] for a in atoms if a[0] in 'TF' and M.is_call(a[1], 'is_relaxed')]
        if none:
            want = 'true'
            good = M.is_const(rt, True)
        elif ex == ['T']:
            want = 'true'
            good = M.is_const(rt, True)
        elif ex == ['F'] and rx == ['T']:
            want = 'false'
            good = M.is_const(rt, False)
        elif ex == ['F'] and rx == ['F']:
            want = 'recurse on best.from'
            good = M.is_call(rt, '_has_exact_best_path')
            if good:
                arg = rt[2][1]
                om = opt_map(arg)
                good = om is not None and node_field(om[0], 'best') is not None and M.is_field(om[1], 'from', 'Edge')
        else:
            want = '?'
            good = False
        rows.append((none, ex, rx, want, good))
        ok = ok and good
    ctx.stats['paths'] += n
    ctx.check(ok and n == 4, 'R02.6', tag + '/has_exact_best_path-table', hb, hb.loc(0),
              'decision table of _has_exact_best_path (4 cases): None -> true, exact -> true, relaxed -> false, otherwise recurse on the source of the best edge',
              '_has_exact_best_path does not implement the table {None: true, exact: true, relaxed: false, else: recurse on best.from} (%d feasible paths, rows %s)' % (n, [(r[0], r[1], r[2], r[3], r[4]) for r in rows]))


# ------------------------------------------------------------------------------------------------
MUTATORS = ('push', 'insert', 'clear', 'extend_from_slice', 'extend', 'drain', 'truncate', 'remove', 'retain', 'entry', 'pop', 'append', 'resize', 'sort_unstable_by')


def r_reset(ctx):
    """T9: every field some non-constructor method writes is reset by _clear or overwritten by _initialize on every path"""
    for tag, adt in DIAGRAMS:
        name, info = ctx.F.adt(adt)
        if info is None:
            raise MissingAnchor('ADT ' + adt)
        fields = [f[0] for f in info['variants'][0]['fields']]
        clr = ctx.body(adt, '_clear')
        ini = ctx.body(adt, '_initialize')
        written = {}
        for body in dd_unit(ctx, tag):
            if body.fn_name in ('new', 'default', '_clear') and body.kind != 'closure':
                continue
            for (pt, d, v, s) in writes(body):
                for x in M.walk(d):
                    if self_field(x, x[2]) if (isinstance(x, tuple) and len(x) == 4 and x[0] == 'field') else False:
                        written.setdefault(x[2], set()).add(body.fn_name)
            for (bb, t) in body.calls():
                last = (t.get('callee') or '').split('::')[-1]
                if last in MUTATORS and t['args'] and t['arg_tys'][0].startswith('&mut'):
                    a0 = body.origin.operand(t['args'][0], body.term_point(bb))
                    for x in M.walk(a0):
                        if isinstance(x, tuple) and len(x) == 4 and x[0] == 'field' and self_field(x, x[2]):
                            written.setdefault(x[2], set()).add(body.fn_name)
                # passing &mut self.f to a crate function counts as a write
        n = 0
        for f in fields:
            if f not in written:
                continue
            n += 1
            def resets(body):
                pts = [pt for (pt, d, v, s) in writes(body) if self_field(d, f)]
                pts += [body.term_point(bb) for (bb, t) in body.calls_to('clear') if self_field(body.origin.operand(t['args'][0], body.term_point(bb)), f)]
                if not pts:
                    return False
                r = body.reach([(0, 0)], avoid=pts)
                return not any(p in r for p in ret_points(body))
            ctx.check(resets(clr) or resets(ini), 'R06.3', '%s/reset/%s' % (tag, f), clr, clr.loc(0), 'field %s (written by %s) is reset by _clear or overwritten by _initialize on every path' % (f, ', '.join(sorted(written[f]))[:80]),
                      'field `%s` of %s is written during a compilation (%s) but neither reset by _clear nor overwritten by _initialize: state of an earlier compilation leaks into the next one' % (f, tag, ', '.join(sorted(written[f]))[:100]))
        ctx.floor('R06.3', tag + '/fields', clr, n, 10, 'per-compilation fields of the diagram struct')
        # values written by _clear are the constructor's
        for (pt, d, v, s) in writes(clr):
            if self_field(d, 'is_exact'):
                ctx.check(M.is_const(v, True), 'R06.3', tag + '/clear-is_exact', clr, clr.loc(*pt), '_clear resets is_exact to true', '_clear sets is_exact := %s' % M.show(v))
            if self_field(d, 'has_exact_best_path'):
                ctx.check(M.is_const(v, False), 'R06.3', tag + '/clear-ebpo', clr, clr.loc(*pt), '_clear resets has_exact_best_path to false', '_clear sets has_exact_best_path := %s' % M.show(v))
            for fld in ('best_node', 'best_exact_node', 'lel'):
                if self_field(d, fld):
                    ctx.check(isinstance(v, tuple) and v[0] == 'aggr' and v[2] == 'None', 'R06.3', '%s/clear-%s' % (tag, fld), clr, clr.loc(*pt), '_clear resets %s to None' % fld, '_clear sets %s := %s' % (fld, M.show(v)))
        # _initialize: root node
        np_ = [(bb, t) for (bb, t) in ini.calls_to('push') if self_field(ini.origin.operand(t['args'][0], ini.term_point(bb)), 'nodes')]
        if ctx.floor('R06.3', tag + '/root', ini, len(np_), 1, 'root node creation'):
            nd = ini.origin.operand(np_[0][1]['args'][1], ini.term_point(np_[0][0]))
            f = dict(nd[3]) if isinstance(nd, tuple) and nd[0] == 'aggr' else {}
            res = lambda x, fld: is_subproblem_field(x, fld) and M.is_field(x[1], 'residual', 'CompilationInput')
            good = bool(f) and res(f['state'], 'state') and res(f['value_top'], 'value') and res(f['depth'], 'depth') and M.is_call(f['flags'], 'new_exact') and f['best'][2] == 'None'
            ctx.check(good, 'R06.3', tag + '/root-node', ini, ini.loc(np_[0][0]), 'the root node is (residual.state, residual.value, residual.depth), exact, without best edge', 'root node is %s' % M.show(nd)[:260])
            ex = [(bb, t) for (bb, t) in ini.calls_to('extend_from_slice', 'extend') if self_field(ini.origin.operand(t['args'][0], ini.term_point(bb)), 'path_to_root')]
            good = bool(ex) and is_subproblem_field(ini.origin.operand(ex[0][1]['args'][1], ini.term_point(ex[0][0])), 'path')
            ctx.check(good, 'R02.5', tag + '/path_to_root', ini, ini.loc(0), 'path_to_root := residual.path', 'path_to_root is not initialised from input.residual.path')
            ins = [(bb, t) for (bb, t) in ini.calls_to('insert') if self_field(ini.origin.operand(t['args'][0], ini.term_point(bb)), TERMINAL[tag])]
            good = bool(ins) and res(ini.origin.operand(ins[0][1]['args'][1], ini.term_point(ins[0][0])), 'state')
            ctx.check(good, 'R06.3', tag + '/root-in-next-layer', ini, ini.loc(0), 'the root is the only member of the first layer to expand', 'the root node is not inserted into the next-layer container')


def r_flags(ctx):
    consts = {k.split('::')[-1]: v['int'] for k, v in ctx.F.consts.items() if 'NodeFlags::F_' in k}
    vals = sorted(consts.values())
    good = len(consts) >= 7 and all(v > 0 and (v & (v - 1)) == 0 for v in vals) and len(set(vals)) == len(vals)
    anyb = ctx.body('node_flags::NodeFlags', 'test')
    ctx.check(good, 'R06.4', 'flag-bits', anyb, anyb.loc(0), 'the %d NodeFlags constants are pairwise distinct single bits' % len(consts), 'NodeFlags constants are not pairwise distinct single bits: %s' % consts)
    NF = 'node_flags::NodeFlags'
    pairs = [('is_relaxed', 'F_RELAXED'), ('is_marked', 'F_MARKED'), ('is_cutset', 'F_CUTSET'), ('is_above_cutset', 'F_ABOVE_CUTSET'), ('is_deleted', 'F_DELETED'), ('is_pruned_by_cache', 'F_CACHE')]
    for (fn, c) in pairs:
        b = ctx.body(NF, fn)
        rt = _ret_term(b)
        good = M.is_call(rt, 'test') and M.is_param(rt[2][0], index=0) and M.is_const(rt[2][1]) and (rt[2][1][2] or '').endswith(c)
        ctx.check(good, 'R06.4', 'getter/' + fn, b, b.loc(0), '%s = test(%s)' % (fn, c), '%s returns %s' % (fn, M.show(rt)))
    sp = [('set_exact', 'F_EXACT'), ('set_relaxed', 'F_RELAXED'), ('set_marked', 'F_MARKED'), ('set_cutset', 'F_CUTSET'), ('set_above_cutset', 'F_ABOVE_CUTSET'), ('set_deleted', 'F_DELETED'), ('set_pruned_by_cache', 'F_CACHE')]
    for (fn, c) in sp:
        b = ctx.body(NF, fn)
        cs = b.calls_to('set')
        good = len(cs) == 1
        if good:
            a = [b.origin.operand(x, b.term_point(cs[0][0])) for x in cs[0][1]['args']]
            good = M.is_param(a[0], index=0) and M.is_const(a[1]) and (a[1][2] or '').endswith(c) and M.is_param(a[2], index=1)
        ctx.check(good, 'R06.4', 'setter/' + fn, b, b.loc(0), '%s(v) = set(%s, v)' % (fn, c), '%s does not call set(%s, value)' % (fn, c))
    b = ctx.body(NF, 'test')
    rt = _ret_term(b)
    good = isinstance(rt, tuple) and rt[0] == 'cmp' and rt[1] == 'Eq' and any(isinstance(x, tuple) and x[0] == 'bin' and x[1] == 'BitAnd' for x in rt[2:4]) and any(M.is_param(x, index=1) for x in rt[2:4])
    ctx.check(good, 'R06.4', 'test', b, b.loc(0), 'test(mask) = (bits & mask) == mask', 'test returns %s' % M.show(rt))
    b = ctx.body(NF, 'set')
    ad, rm = b.calls_to('NodeFlags::add'), b.calls_to('NodeFlags::remove')
    good = len(ad) == 1 and len(rm) == 1
    if good:
        ok1, _, _ = M.guarded(b, [b.term_point(ad[0][0])], lambda atoms, lit: any(a[0] == 'T' and M.is_param(a[1], index=2) for a in atoms))
        ok2, _, _ = M.guarded(b, [b.term_point(rm[0][0])], lambda atoms, lit: any(a[0] == 'F' and M.is_param(a[1], index=2) for a in atoms))
        good = ok1 and ok2
    ctx.check(good, 'R06.4', 'set', b, b.loc(0), 'set(flag, v) = if v {add(flag)} else {remove(flag)}', 'set does not add on true / remove on false')
    for (fn, op) in (('add', 'BitOr'), ('remove', 'BitAnd')):
        b = ctx.body(NF, fn)
        ws = writes(b)
        good = len(ws) == 1
        if good:
            v = ws[0][2]
            good = isinstance(v, tuple) and v[0] == 'bin' and v[1] == op
            if good and fn == 'remove':
                good = any(isinstance(x, tuple) and x[0] == 'not' or (isinstance(x, tuple) and x[0] == 'un') for x in v[2:4])
            if good and fn == 'add':
                good = any(M.is_param(x, index=1) for x in v[2:4])
        ctx.check(good, 'R06.4', fn, b, b.loc(0), '%s(f): bits %s' % (fn, '|= f' if fn == 'add' else '&= !f'), '%s writes %s' % (fn, M.show(ws[0][2]) if ws else '-'))
    # is_exact = F_EXACT && !F_RELAXED  (T7 over the two bits)
    b = ctx.body(NF, 'is_exact')
    paths = M.enumerate_paths(b, (0, 0))
    ok = True
    n = 0
    for (edges, blocks, end) in paths:
        atoms = M.path_atoms(b, edges)
        if not M.consistent(atoms):
            continue
        n += 1
        rt = _path_ret(b, blocks, end)
        facts = {}
        for a in atoms:
            if a[0] in 'TF' and M.is_call(a[1], 'test') and M.is_const(a[1][2][1]):
                facts[(a[1][2][1][2] or '').split('::')[-1]] = (a[0] == 'T')
        # evaluate the returned term under the path facts
        def ev(t):
            if M.is_const(t, True): return True
            if M.is_const(t, False): return False
            if isinstance(t, tuple) and t[0] == 'not':
                x = ev(t[1]); return None if x is None else (not x)
            if M.is_call(t, 'test') and M.is_const(t[2][1]):
                return {'__': None}.get('x', None) if False else ('F_' + (t[2][1][2] or '').split('::F_')[-1], )
            return None
        r = ev(rt)
        # exact iff EXACT and not RELAXED; the unevaluated bit (short circuit) appears symbolically in the return
        if isinstance(r, tuple):
            bit = r[0]
            for val in (True, False):
                f2 = dict(facts); f2[bit] = val
                got = val
                want = f2.get('F_EXACT', False) and not f2.get('F_RELAXED', True)
                ok = ok and (got == want) if bit == 'F_EXACT' else ok
        elif isinstance(rt, tuple) and rt[0] == 'not' and M.is_call(rt[1], 'test'):
            bit = (rt[1][2][1][2] or '').split('::')[-1]
            for val in (True, False):
                f2 = dict(facts); f2[bit] = val
                want = f2.get('F_EXACT', False) and not f2.get('F_RELAXED', True)
                ok = ok and ((not val) == want)
        elif r is not None:
            want = facts.get('F_EXACT', False) and not facts.get('F_RELAXED', True)
            if 'F_EXACT' in facts and (facts['F_EXACT'] is False):
                want = False
            ok = ok and (r == want)
        else:
            ok = False
    ctx.check(ok and n >= 2, 'R06.4', 'is_exact-table', b, b.loc(0), 'is_exact() = test(F_EXACT) && !test(F_RELAXED) (%d paths)' % n, 'NodeFlags::is_exact is not F_EXACT && !F_RELAXED')
    for (fn, c) in (('new_exact', 'F_EXACT'), ('new_relaxed', 'F_RELAXED')):
        b = ctx.body(NF, fn)
        rt = _ret_term(b)
        good = isinstance(rt, tuple) and rt[0] == 'aggr' and M.is_const(rt[3][0][1]) and (rt[3][0][1][2] or '').endswith(c)
        ctx.check(good, 'R06.4', fn, b, b.loc(0), '%s() = NodeFlags(%s)' % (fn, c), '%s returns %s' % (fn, M.show(rt)))


# ================================================================================================
# C15 — long arcs in Pooled: un-impacted nodes stay in the pool; depth bookkeeping; layer recording
# ================================================================================================
COPY_CALLS = ('Clone::clone', 'to_vec', 'ToOwned::to_owned')   # calls producing an independent copy of a Vec / slice


def r_pooled_layers(ctx):
    adt = POOLED
    tag = 'Pooled'
    mv = ctx.body(adt, '_move_to_next_layer')
    unit = ctx.unit(mv)
    imp = [(c, bb, t) for c in unit for (bb, t) in c.calls_to('Problem::is_impacted_by')]
    if not ctx.floor('R15.1', 'is_impacted_by', mv, len(imp), 1, 'is_impacted_by call in _move_to_next_layer'):
        return
    (c, bb, t) = imp[0]
    a = [c.origin.operand(x, c.term_point(bb)) for x in t['args']]
    idx = node_field(a[2], 'state')
    ctx.check(M.is_param(a[1], index=2) and a[1][1] == mv.name and idx is not None and M.is_param(idx[1], index=1) and idx[1][1] == c.name, 'R15.1', 'impact-query', c, c.loc(bb),
              'is_impacted_by(var of this layer, state of the candidate node)', 'is_impacted_by receives (%s, %s)' % (M.show(a[1]), M.show(a[2])))
    imt = c.origin.call(t, c.term_point(bb))
    # a node is developed when the variable impacts its state — or, whatever the answer, while fewer than two layers are recorded (the
    # root and its children never skip a layer: R08.3)
    impacted = lambda atoms, lit: any((a_[0] == 'T' and a_[1] == imt) or _fewer_than_two_layers(a_) for a_ in atoms)
    trues = [(b2, i) for (b2, i, s) in c.assigns(lambda s: s['place']['l'] == 0 and not s['place']['p'] and s['rv']['k'] == 'use' and s['rv']['op'].get('const', {}).get('bool') is True)]
    ok = returns_value_only_if(c, True, lambda atoms: any((a_[0] == 'T' and a_[1] == imt) or _fewer_than_two_layers(a_) for a_ in atoms))
    ctx.check(ok, 'R15.1', 'expand-only-impacted', c, c.loc(*trues[0]) if trues else c.loc(bb), 'a pool node joins the layer (closure answers true) only when the variable impacts its state (or at the top of the diagram)',
              'a node can join the layer although is_impacted_by answered false (and two layers are already recorded)')
    # ... and it IS developed whenever the variable impacts it (skipping an impacted node loses its decisions)
    ok = returns_value_only_if(c, False, lambda atoms: any(a_[0] == 'F' and a_[1] == imt for a_ in atoms))
    ctx.check(ok, 'R15.1', 'impacted-is-expanded', c, c.loc(bb), 'a pool node skips the layer only when is_impacted_by answered false', 'a node the variable impacts can be left in the pool (skipped)')
    # the removal list is filled on the impacted branch only, and the pool loses exactly the members of that list
    rp = [(b2, t2) for (b2, t2) in c.calls_to('push')]
    good = bool(rp)
    lst = None
    if good:
        pa = [c.origin.operand(x, c.term_point(rp[0][0])) for x in rp[0][1]['args']]
        lst = pa[0]
        ok, cut, bad = M.guarded(c, [c.term_point(rp[0][0])], impacted)
        good = ok and node_field(pa[1], 'state') == idx
    ctx.check(good, 'R15.1', 'unimpacted-stays-in-pool', c, c.loc(rp[0][0]) if rp else c.loc(bb), 'only impacted nodes are scheduled for removal from the pool (un-impacted nodes are carried to later layers)',
              'a node the variable does not impact can be removed from the pool (it would be lost instead of skipping the layer)')
    rm = [(c2, b2, t2) for c2 in unit for (b2, t2) in c2.calls_to('remove') if self_field(c2.origin.operand(t2['args'][0], c2.term_point(b2)), 'pool')]
    good = len(rm) == 1
    if good and rm[0][0].kind == 'closure':
        site = None
        for (b2, t2) in mv.calls_to('for_each'):
            aa = [mv.origin.operand(x, mv.term_point(b2)) for x in t2['args']]
            if isinstance(aa[1], tuple) and aa[1][0] == 'closure' and aa[1][1] == rm[0][0].name:
                site = aa[0]
        good = site is not None and lst is not None and M.contains(site, lambda x: x == lst) and M.contains(site, lambda x: M.is_call(x, 'drain'))
    elif good:
        # `for state in to_remove { self.pool.remove(..) }`: the removed key comes from iterating that very list
        (c2_, b2_, t2_) = rm[0]
        key = c2_.origin.operand(t2_['args'][1], c2_.term_point(b2_))
        good = lst is not None and M.contains(key, lambda x: M.is_call(x, 'Iterator::next')) and M.contains(key, lambda x: x == lst)
    ctx.check(good, 'R15.1', 'pool-removal-list', mv, mv.loc(0), 'the pool loses exactly the states recorded on the impacted branch', 'pool.remove is not driven by the list filled on the impacted branch')
    # the negative branch has no effect
    falses = [(b2, i) for (b2, i, s) in c.assigns(lambda s: s['place']['l'] == 0 and not s['place']['p'] and s['rv']['k'] == 'use' and s['rv']['op'].get('const', {}).get('bool') is False)]
    eff = [pt for (pt, d, v, s) in writes(c)] + [c.term_point(b2) for (b2, t2) in c.calls() if (t2.get('callee') or '').split('::')[-1] in MUTATORS]
    nocut = _cut_edges(c, impacted)
    r = c.reach([(0, 0)], cut_edges=nocut)
    ctx.check(not any(p in r for p in eff), 'R15.1', 'unimpacted-untouched', c, c.loc(bb), 'nothing is written for a node the variable does not impact', 'an un-impacted node is modified')
    # candidates = every pool node
    rt = [(b2, t2) for (b2, t2) in mv.calls_to('retain')]
    good = bool(rt)
    if good:
        v = mv.origin.operand(rt[0][1]['args'][0], mv.term_point(rt[0][0]))
        good = M.contains(v, lambda x: M.is_call(x, 'values') and self_field(x[2][0], 'pool'))
    ctx.check(good, 'R15.1', 'candidates-are-the-pool', mv, mv.loc(0), 'the candidates for a layer are all nodes of the pool', 'the layer candidates are not pool.values()')
    # R15.2 depth bookkeeping
    dw = [(pt, d, v) for (pt, d, v, s) in writes(c) if node_field(d, 'depth') is not None]
    good = bool(dw) and all(node_field(d, 'depth') == idx and depth_counter(tag, v) for (pt, d, v) in dw)
    if good:
        # every path that may answer true (node expanded) has refreshed the depth
        for (atoms_, rt_, blocks_, end_) in bool_fn_paths(c):
            if M.is_const(rt_, False):
                continue
            may_true = M.is_const(rt_, True) or any(a_[0] == 'T' and a_[1] == imt for a_ in atoms_)
            if may_true and not any(pt_[0] in blocks_ for (pt_, d_, v_) in dw):
                good = False
    ctx.check(good, 'R15.2', 'depth-when-expanded', c, c.loc(*dw[0][0]) if dw else c.loc(bb), 'a node leaving the pool gets depth := layer counter (it may have been created many layers earlier)',
              'a node expanded from the pool keeps the depth it was created with (stale after a long arc): sub-problems handed out carry a wrong depth')
    fl = ctx.body(adt, '_finalize_layers')
    ctx.unit(fl)
    its_ = iterations(ctx, fl)
    pool_vals = lambda t: M.is_call(t, 'values') and self_field(t[2][0], 'pool')
    ins = [(b2, t2) for (b2, t2) in fl.calls_to('insert') if self_field(fl.origin.operand(t2['args'][0], fl.term_point(b2)), 'layers')]
    good = False
    if ins:
        ia = [fl.origin.operand(x, fl.term_point(ins[0][0])) for x in ins[0][1]['args']]
        lastv = M.simplify_field(ia[2], 'nodes', None)
        r3 = fl.reach([(0, 0)], avoid=[fl.term_point(ins[0][0])])
        # (1) the layer recorded (unconditionally, under the layer counter) holds every node of the pool
        recorded = depth_counter(tag, ia[1]) and not any(p in r3 for p in ret_points(fl)) and collects_all(ctx, fl, lastv, pool_vals, its_)
        # (2) every one of them gets depth := layer counter (loop over the pool or over the recorded vector, any spelling)
        deep = False
        for it in its_:
            if not (pool_vals(it['src']) or it['src'] == strip_iter(lastv)):
                continue
            w = it['where']
            dps = [pt for (pt, d, v, s) in writes(w) if node_field(d, 'depth') is not None and (lambda ix: M.is_field(ix, '0') and it['is_item'](ix[1]))(node_field(d, 'depth')) and depth_counter(tag, v)]
            if every_iteration_does(it, dps):
                deep = True
        good = recorded and deep
    ctx.check(good, 'R15.2', 'terminal-layer', fl, fl.loc(0), 'every node left in the pool gets depth := layer counter and is recorded, unconditionally, as the last layer',
              '_finalize_layers does not record every remaining pool node (with depth := layer counter) as the last layer on every path')
    # R15.3 a layer is recorded only when it has nodes (the squash guard counts layers)
    ins = [(b2, t2) for (b2, t2) in mv.calls_to('insert') if self_field(mv.origin.operand(t2['args'][0], mv.term_point(b2)), 'layers')]
    if ctx.floor('R15.3', 'layer-insert', mv, len(ins), 1, 'layers.insert in _move_to_next_layer'):
        ia = [mv.origin.operand(x, mv.term_point(ins[0][0])) for x in ins[0][1]['args']]
        vec = M.simplify_field(ia[2], 'nodes', None)
        ok, cut, bad = M.guarded(mv, [mv.term_point(ins[0][0])], lambda atoms, lit: any(a_[0] == 'F' and M.is_call(a_[1], 'is_empty') and a_[1][2][0] == vec for a_ in atoms))
        ctx.check(ok and depth_counter(tag, ia[1]), 'R15.3', 'no-empty-layer-recorded', mv, mv.loc(ins[0][0]),
                  'a layer is recorded (under the layer counter) only when it has nodes: layers.len() counts real layers, which the first-layer squash guard relies on',
                  'an empty layer can be recorded: the squash guard `layers.len() >= 2` then counts it and the children of the root can be merged (the root enters the cut-set)')
    # the recorded layer is the unfiltered candidate list; filters and squash work on a separate copy that is returned for expansion
    if ins:
        rec = M.simplify_field(ia[2], 'nodes', None)
        rec_locals = set(x[2] for x in M.walk(rec) if isinstance(x, tuple) and x and x[0] == 'var')
        bad_ = []
        for nm in ('_filter_with_cache', '_filter_with_dominance', '_squash_if_needed'):
            for (b2, t2) in mv.calls_to(nm):
                v_ = mv.origin.operand(t2['args'][2], mv.term_point(b2))
                for leaf in M.leaves(v_):
                    if leaf == rec or (isinstance(leaf, tuple) and leaf and leaf[0] == 'var' and leaf[2] in rec_locals):
                        bad_.append(nm)
                    if not (M.is_call(leaf, *COPY_CALLS) or (isinstance(leaf, tuple) and leaf and leaf[0] == 'var')):
                        bad_.append(nm + '?')
        cl_ = [(b2, t2) for (b2, t2) in mv.calls_to(*COPY_CALLS) if mv.origin.operand(t2['args'][0], mv.term_point(b2)) == rec or
               any(isinstance(x, tuple) and x and x[0] == 'var' and x[2] in rec_locals for x in M.walk(mv.origin.operand(t2['args'][0], mv.term_point(b2))))]
        ctx.check(not bad_ and bool(cl_), 'R15.5', 'layer-record-unfiltered', mv, mv.loc(ins[0][0]),
                  'the layer recorded for the bottom-up passes keeps every candidate node; the cache / dominance filters and the squash work on a clone that is handed to the expansion',
                  'the filters / squash operate on the recorded layer itself (%s): pruned or dominated nodes vanish from the layer record and their thresholds are never propagated' % sorted(set(bad_)))
    # the merged node created by the squash joins the recorded layer
    cp = ctx.body(adt, '_compile')
    mvc = cp.calls_to('_move_to_next_layer')
    nv = cp.calls_to('Problem::next_variable')
    if mvc and nv:
        va = cp.origin.operand(mvc[0][1]['args'][2], cp.term_point(mvc[0][0]))
        nvt = cp.origin.call(nv[0][1], cp.term_point(nv[0][0]))
        ctx.check(va == M.simplify_field(M.simplify_variant(nvt, 'Some'), '0', None), 'R15.1', 'layer-variable', cp, cp.loc(mvc[0][0]), '_move_to_next_layer receives the variable chosen by next_variable for this layer',
                  '_move_to_next_layer receives variable %s' % M.show(va)[:160])


# ------------------------------------------------------------------------------------------------
# R06.5 — Mdd layer bookkeeping: the next layer is moved completely into the expanded vector; recorded layers are contiguous ranges
# ------------------------------------------------------------------------------------------------
def r_layers(ctx):
    tag, adt = 'Mdd', MDD
    mv = ctx.body(adt, '_move_to_next_layer')
    # (1) every node of next_l reaches the vector handed to the expansion
    drained = lambda x: M.is_call(x, 'drain') and self_field(x[2][0], 'next_l')
    layer = lambda t: M.is_param(t, index=2)
    bulk = [(bb, t) for (bb, t) in mv.calls_to('extend', 'append', 'extend_from_slice') if layer(mv.origin.operand(t['args'][0], mv.term_point(bb))) and
            M.contains(mv.origin.operand(t['args'][1], mv.term_point(bb)), drained)]
    good = False
    if bulk:
        r = mv.reach([(0, 0)], avoid=[mv.term_point(bb) for (bb, t) in bulk])
        good = not any(p in r for p in ret_points(mv))
    fe_ = [(bb, t) for (bb, t) in mv.calls_to('for_each') if M.contains(mv.origin.operand(t['args'][0], mv.term_point(bb)), drained)]
    if not bulk and fe_:
        # drain().for_each(|(_, id)| layer.push(id))
        (fbb, ft) = fe_[0]
        cl = mv.origin.operand(ft['args'][1], mv.term_point(fbb))
        cb = ctx.F.bodies.get(cl[1]) if isinstance(cl, tuple) and cl and cl[0] == 'closure' else None
        if cb is not None:
            ps_ = [cb.term_point(bb) for (bb, t) in cb.calls_to('push') if (lambda d_: layer(d_) or (isinstance(d_, tuple) and d_ and d_[0] == 'var' and d_[1] == mv.name))(cb.origin.operand(t['args'][0], cb.term_point(bb))) and
                   M.contains(cb.origin.operand(t['args'][1], cb.term_point(bb)), lambda x: M.is_param(x, index=1) and x[1] == cb.name)]
            rc_ = cb.reach([(0, 0)], avoid=ps_)
            r = mv.reach([(0, 0)], avoid=[mv.term_point(fbb)])
            good = bool(ps_) and not any(p in rc_ for p in ret_points(cb)) and not any(p in r for p in ret_points(mv))
    elif not bulk:
        nx = [(bb, t) for (bb, t) in mv.calls_to('Iterator::next') if M.contains(mv.origin.operand(t['args'][0], mv.term_point(bb)), drained)]
        if nx:
            (nbb, nt) = nx[0]
            nxp = mv.term_point(nbb)
            nxt = mv.origin.call(nt, nxp)
            pushes = [mv.term_point(bb) for (bb, t) in mv.calls_to('push') if layer(mv.origin.operand(t['args'][0], mv.term_point(bb))) and
                      M.contains(mv.origin.operand(t['args'][1], mv.term_point(bb)), lambda x: x == nxt)]
            some_edges = [(tb, 0) for bbk in mv.live_blocks() if mv.term(bbk)['k'] == 'switch' for (tb, lab) in mv.succ(bbk)
                          if (lambda lit: lit and lit[0] == 'in' and lit[1] == nxt and lit[2] == frozenset(['Some']))(M.edge_literal(mv, bbk, lab))]
            r = mv.reach(some_edges, avoid=pushes)
            r0 = mv.reach([(0, 0)], avoid=[nxp])
            good = bool(pushes) and bool(some_edges) and nxp not in r and not any(p in r for p in ret_points(mv)) and not any(p in r0 for p in ret_points(mv))
    ctx.check(good, 'R06.5', tag + '/next-layer-moved-completely', mv, mv.loc(0), 'every node of next_l is moved into the vector that is filtered, squashed and expanded (on every path)',
              'a node of the next layer can be left out of the vector handed to the expansion (next_l.drain() is not pushed / extended into the layer vector on every path)')
    # (2) recorded layers: {0, 0} marker | {from: 0 when no layer yet | previous layer's `to`, to: nodes.len()}
    for b in (mv, ctx.body(adt, '_finalize_layers')):
        n = 0
        bad = []
        for (bb, t) in b.calls_to('push'):
            a = [b.origin.operand(x, b.term_point(bb)) for x in t['args']]
            if not self_field(a[0], 'layers'):
                continue
            okg_e, _, _ = M.guarded(b, [b.term_point(bb)], lambda atoms, lit: any(empty_lit(a_, lambda x: self_field(x, 'layers'), empty=True) for a_ in atoms))
            okg_n, _, _ = M.guarded(b, [b.term_point(bb)], lambda atoms, lit: any(empty_lit(a_, lambda x: self_field(x, 'layers'), empty=False) for a_ in atoms))
            for (conds, leaf) in M.cases(M.lift_ite(a[1])):
                n += 1
                f = dict(leaf[3]) if isinstance(leaf, tuple) and leaf[0] == 'aggr' and leaf[1].endswith('::Layer') else None
                if f is None:
                    bad.append(M.show(leaf)[:80]); continue
                at = [a_ for c_ in conds for a_ in M.lit_atoms(c_)]
                frm, to = f.get('from'), f.get('to')
                if M.is_const(frm, 0) and M.is_const(to, 0):
                    continue
                to_ok = M.is_call(to, 'len') and self_field(to[2][0], 'nodes')
                prev = None
                if M.is_field(frm, 'to', 'Layer'):
                    src = frm[1]
                    if isinstance(src, tuple) and src[0] == 'index' and self_field(src[1], 'layers'):
                        ix = src[2][1] if M.is_field(src[2], '0') else src[2]
                        ix = M.simplify_field(ix, '0', None) if isinstance(ix, tuple) and ix and ix[0] == 'aggr' else ix
                        prev = isinstance(ix, tuple) and ix[0] == 'sub' and M.is_call(ix[1], 'len') and self_field(ix[1][2][0], 'layers') and M.is_const(ix[2], 1)
                        prev = prev and (okg_n or any(empty_lit(a_, lambda x: self_field(x, 'layers'), empty=False) for a_ in at))
                    elif src == opt_payload(src[1][1]) if (M.is_field(src, '0') and isinstance(src[1], tuple) and src[1][0] == 'variant') else False:
                        o = src[1][1]
                        prev = M.is_call(o, 'last') and self_field(o[2][0], 'layers')
                first = M.is_const(frm, 0) and (okg_e or any(empty_lit(a_, lambda x: self_field(x, 'layers'), empty=True) for a_ in at) or
                                                any(opt_is(a_, lambda x: M.is_call(x, 'last') and self_field(x[2][0], 'layers'), 'None') for a_ in at))
                if not (to_ok and (prev or first)):
                    bad.append('Layer{from: %s, to: %s}' % (M.show(frm)[:60], M.show(to)[:40]))
        ctx.check(n > 0 and not bad, 'R06.5', '%s/layer-ranges/%s' % (tag, b.fn_name), b, b.loc(0),
                  'every recorded layer is {0, 0} (empty marker) or starts where the previous layer ends (0 when there is none) and ends at nodes.len() (%d cases)' % n,
                  'a recorded layer is not contiguous with the previous one: %s' % bad[:2])
