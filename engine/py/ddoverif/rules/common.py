"""Slot predicates shared by the rule modules (filled from the repository: resolved def paths and field names)."""
from .. import mirlib as M
from ..core import MissingAnchor

SEQ = 'sequential::SequentialSolver'
PAR = 'parallel::ParallelSolver'
CRIT = 'parallel::Critical'
MDD = 'clean::Mdd'
POOLED = 'pooled::Pooled'
SOLVERS = (('seq', SEQ), ('par', PAR))
DIAGRAMS = (('Mdd', MDD), ('Pooled', POOLED))
SOLVER_STATE = ('SequentialSolver', 'Critical')  # ADTs holding incumbent / bounds / fringe


def solver_field(t, name):
    """`name` field of the solver state (SequentialSolver.<f> or Critical.<f>)"""
    return M.is_field(t, name) and any((t[3] or '').endswith(s) for s in SOLVER_STATE)


def inline_helpers(F, t, depth=3):
    """replace calls to small crate-local functions by their return term (so that hoisting a read or a test into a
    helper is tolerated)"""
    if depth == 0 or not isinstance(t, tuple):
        return t
    cb = None
    if t and t[0] == 'call' and isinstance(t[1], str) and t[1] in F.bodies:
        cb = F.bodies[t[1]]
    elif t and t[0] == 'call' and isinstance(t[1], str) and t[2]:
        # a trait method called on `self` from a method of the same type (self.best_value() inside maximize): the impl of that type
        r0 = t[2][0]
        while isinstance(r0, tuple) and r0 and r0[0] in ('ref', 'deref') and len(r0) > 1 and isinstance(r0[1], tuple):
            r0 = r0[1]
        if M.is_param(r0, index=0) and r0[1] in F.bodies and F.bodies[r0[1]].impl_self_adt:
            cands = [b_ for b_ in F.find(adt=F.bodies[r0[1]].impl_self_adt, name=t[1].split('::')[-1]) if b_.kind != 'closure']
            if len(cands) == 1:
                cb = cands[0]
    if cb is not None:
        if cb.nb <= 12 and not cb.back_edges():
            rets = cb.return_blocks()
            if len(rets) == 1:
                rt = cb.origin.place({'l': 0, 'p': []}, cb.term_point(rets[0]))
                args = t[2]

                def sub(x):
                    if isinstance(x, tuple):
                        if x and x[0] == 'param' and x[1] == cb.name and x[2] < len(args):
                            return args[x[2]]
                        return tuple(sub(y) for y in x)
                    return x
                return inline_helpers(F, sub(rt), depth - 1)
    return t


def is_lb(F):
    """incumbent lower bound: solver-state field best_lb, possibly read through a helper, or the compilation
    input's best_lb inside a diagram"""
    def p(t):
        t = inline_helpers(F, M.strip_casts(t))
        return solver_field(t, 'best_lb')
    return p


def is_input_lb(t):
    return M.is_field(t, 'best_lb', 'CompilationInput')


def is_subproblem_field(t, name):
    return M.is_field(t, name, 'SubProblem')


def mentions(t, pred):
    return M.contains(t, pred)


def compile_calls(body):
    """calls of DecisionDiagram::compile in program order (a precedes b if b is reachable from a)"""
    cs = body.calls_to('DecisionDiagram::compile')
    def key(c):
        r = body.reach([body.term_point(c[0])])
        return -len([d for d in cs if body.term_point(d[0]) in r])
    return sorted(cs, key=key)


def call_points(body, *names):
    return [body.term_point(bb) for (bb, t) in body.calls_to(*names)]


def ret_points(body):
    return [body.term_point(b) for b in body.return_blocks()]


def err_edge(atoms):
    """edge taken when a `?` / match sees the Err variant of a Result"""
    return any(a[0] == 'in' and a[2] == frozenset(['Err']) for a in atoms)


def first(xs, what):
    if not xs:
        raise MissingAnchor(what)
    return xs[0]


def writes(body):
    """[(point, dest_term, value_term, stmt)] for every live assignment through a projection (field / deref / index)"""
    out = []
    for (bb, i, s) in body.assigns(lambda s: bool(s['place']['p'])):
        pl = s['place']
        p0 = pl['p'][0]
        if isinstance(p0, dict) and 'f' in p0 and not (body.local_ty(pl['l']) or '').lstrip().startswith(('&', '*')) and 'deref' not in pl['p']:
            # a field of a struct held BY VALUE in a local (`compilation.best_lb = ..`): the destination is that local's own field, not
            # the place its current value was read from
            dest = ('var', body.name, pl['l'], body.local_name(pl['l']))
            for e in pl['p']:
                dest = body.origin.project(dest, e, (bb, i))
        else:
            dest = body.origin.place(pl, (bb, i))
        val = body.origin.rvalue(s['rv'], (bb, i))
        out.append(((bb, i), dest, val, s))
    return out


def var_def_terms(body, t):
    """terms of all definitions of a ('var', body, local, name) term"""
    if not (isinstance(t, tuple) and t and t[0] == 'var'):
        return [t]
    out = []
    for d in body.defs().get(t[2], []):
        if d[2] in ('whole', 'call'):
            out.append(body.origin._def_term(t[2], d, 0))
    return out


def aggr_assigns(body, adt_suffix, variant=None):
    """assign statements building an aggregate of the given ADT (and variant)"""
    def p(s):
        rv = s['rv']
        return rv['k'] == 'aggr' and (rv.get('adt') or '').endswith(adt_suffix) and (variant is None or rv['variant'] == variant)
    return body.assigns(p)


# ---------------------------------------------------------------------------------------------------------------
# idiom-level helpers (each accepts the equivalent spellings a maintainer may choose)
# ---------------------------------------------------------------------------------------------------------------
def opt_is(atom, pred, variant):
    """atom asserts that the Option term selected by pred is `variant` ('Some' | 'None'): is_some() / is_none() / matches! tests and
    `if let` / `match` discriminant tests all arrive as ('in', o, {variant}) atoms (mirlib: isvar normal form)"""
    return atom[0] == 'in' and pred(atom[1]) and atom[2] == frozenset([variant])


def is_variant_test(t, pred, variant):
    """boolean TERM `o is <variant>` (o.is_none(), matches!(o, None), match o {None => true, _ => false}) with pred(o)"""
    return isinstance(t, tuple) and t and t[0] == 'isvar' and pred(t[1]) and t[2] == frozenset([variant])


def ord_names(atoms, pred):
    """Ordering outcomes (subset of Less/Equal/Greater) that the Ordering-valued term selected by pred may have on a path:
    from match arms, from `== Ordering::X` / `!= Ordering::X` tests, or None if it is never tested"""
    cur = None
    ALL = {'Less', 'Equal', 'Greater'}
    def name(t):
        return t[2] if isinstance(t, tuple) and t and t[0] == 'aggr' and t[1].endswith('cmp::Ordering') else None
    for a in atoms:
        st = None
        if a[0] == 'in' and pred(a[1]):
            st = set(a[2]) & ALL
        elif a[0] == 'cmp' and a[3] in (frozenset('='), frozenset('<>')):
            for (x, y) in ((a[1], a[2]), (a[2], a[1])):
                if pred(x) and name(y):
                    st = {name(y)} if a[3] == frozenset('=') else ALL - {name(y)}
        if st is not None:
            cur = st if cur is None else cur & st
    return cur


def bool_fn_paths(body):
    """[(atoms, returned term, blocks, end)] for the consistent loop-free paths of a value-returning body; a returned if-then-else term
    (a value computed by an Option combinator, a `match` used as an expression, an inlined closure) is split into its cases, each
    with the literals of its branch added to the path condition"""
    from .dd_rules import _path_ret
    out = []
    for (edges, blocks, end) in M.enumerate_paths(body, (0, 0)):
        atoms = M.path_atoms(body, edges)
        if not M.consistent(atoms):
            continue
        rt = _path_ret(body, blocks, end)
        if rt is None:
            rets = body.return_blocks()
            rt = body.origin.place({'l': 0, 'p': []}, body.term_point(rets[0])) if rets else None
        for (conds, leaf) in M.cases(rt):
            extra = [a for c in conds for a in M.lit_atoms(c)]
            if conds and not M.consistent(list(atoms) + extra):
                continue
            out.append((list(atoms) + extra, leaf, blocks, end))
    return out


def returns_value_only_if(body, value, holds):
    """every path on which the bool-returning `body` may return `value` (True/False) satisfies holds(atoms, returned term):
    a constant return is judged on the path condition; a returned boolean TERM t stands for itself (returning t means
    'true iff t'): it is handed to `holds` as an extra atom."""
    paths = bool_fn_paths(body)
    if not paths:
        return False
    for (atoms, rt, blocks, end) in paths:
        if M.is_const(rt, not value):
            continue
        if M.is_const(rt, value):
            if not holds(atoms):
                return False
            continue
        if rt is None:
            return False
        extra = M.lit_atoms(('T' if value else 'F', rt))
        if not holds(list(atoms) + extra):
            return False
    return True


def guarded_update(body, pt, dest, val, kind):
    """candidates E such that the write `dest := val` at pt implements dest := max(dest, E) (kind='max') or min (kind='min'):
    either val = max(dest, E) itself, or val = E written only on an edge asserting E > dest / E >= dest (resp. <, <=)"""
    out = []
    if isinstance(val, tuple) and val[0] == kind and dest in val[1]:
        out.extend(x for x in val[1] if x != dest)
        return out
    rel = '>=' if kind == 'max' else '<='
    strict = '>' if kind == 'max' else '<'
    def acc(atoms, lit):
        for a in atoms:
            if a[0] == 'cmp':
                for (x, y, s_) in ((a[1], a[2], a[3]), (a[2], a[1], frozenset({'<': '>', '>': '<', '=': '='}[c] for c in a[3]))):
                    if x == val and y == dest and s_ and s_ <= frozenset(rel) and strict in s_:
                        return True
        return False
    ok, cut, bad = M.guarded(body, [pt], acc)
    if ok:
        out.append(val)
    return out


def zeroes_all(body, field_pred):
    """points where every element of the Vec field selected by field_pred is set to 0: for_each(|o| *o = 0), fill(0), or a
    `for o in v.iter_mut() { *o = 0 }` loop"""
    pts = []
    for (bb, t) in body.calls_to('for_each', 'fill'):
        if M.contains(body.origin.operand(t['args'][0], body.term_point(bb)), field_pred):
            pts.append(body.term_point(bb))
    for (pt, d, v, s) in writes(body):
        if M.is_const(v, 0) and M.contains(d, lambda x: M.is_call(x, 'Iterator::next')) and M.contains(d, lambda x: M.is_call(x, 'iter_mut')) and M.contains(d, field_pred):
            pts.append(pt)
    return pts


def enum_is(atom, pred, variant):
    """atom asserts that the enum-valued term selected by pred is the unit variant `variant`: a match arm / matches! test, or an
    `== Enum::Variant` comparison (derived PartialEq)"""
    if atom[0] == 'in' and pred(atom[1]) and atom[2] == frozenset([variant]):
        return True
    if atom[0] == 'cmp' and atom[3] == frozenset('='):
        for (x, y) in ((atom[1], atom[2]), (atom[2], atom[1])):
            if pred(x) and isinstance(y, tuple) and y and y[0] == 'aggr' and y[2] == variant:
                return True
    return False


def empty_lit(atom, pred, empty=True):
    """atom asserts that the container selected by pred is empty (or non-empty): is_empty() tests, len() == 0 / != 0 / > 0"""
    if atom[0] in ('T', 'F') and M.is_call(atom[1], 'is_empty') and pred(atom[1][2][0]):
        return (atom[0] == 'T') == empty
    if atom[0] == 'cmp':
        for (x, y, rel) in ((atom[1], atom[2], atom[3]), (atom[2], atom[1], frozenset({'<': '>', '>': '<', '=': '='}[c] for c in atom[3]))):
            if M.is_call(x, 'len') and pred(x[2][0]) and M.is_const(y, 0):
                if empty and rel == frozenset('='):
                    return True
                if (not empty) and rel and rel <= frozenset('<>') and '=' not in rel:
                    return True
            if M.is_call(x, 'len') and pred(x[2][0]) and M.is_const(y, 1):
                if empty and rel == frozenset('<'):
                    return True
                if (not empty) and rel and rel <= frozenset('>='):
                    return True
    return False


# Option-valued terms in normal form (Origin.call rewrites unwrap_or / unwrap_or_else / map_or / map to the ite the equivalent
# `match` produces, so one matcher covers every spelling)
def opt_fold(t):
    """(o, value when o is Some, value when o is None) if t = ite(o is Some ? a : b), else None"""
    if isinstance(t, tuple) and t and t[0] == 'ite' and t[1] and t[1][0] == 'in' and t[1][2] == M.SOME:
        return (t[1][1], t[2], t[3])
    return None


def opt_payload(o):
    return M.simplify_field(M.simplify_variant(o, 'Some'), '0', None)


def opt_or(t, opt_pred, default_pred):
    """t = o.unwrap_or(d) (any spelling) with opt_pred(o) and default_pred(d)"""
    f = opt_fold(t)
    return f is not None and f[1] == opt_payload(f[0]) and opt_pred(f[0]) and default_pred(f[2])


def opt_map(t):
    """(o, mapped payload term) if t = o.map(f) (any spelling): ite(o is Some ? Some(r) : None)"""
    f = opt_fold(t)
    if f is not None and isinstance(f[1], tuple) and f[1][:3] == ('aggr', M.OPTION, 'Some') and f[2] == M.MK_NONE:
        return (f[0], f[1][3][0][1])
    return None


def is_max_const(t):
    # by VALUE: `isize::MAX`, a named constant initialised with it and the literal are the same thing
    return M.is_const(t) and (t[1] == 9223372036854775807 or (not isinstance(t[1], int) and (t[2] or '').endswith('MAX')))


def is_min_const(t):
    return M.is_const(t) and (t[1] == -9223372036854775808 or (not isinstance(t[1], int) and (t[2] or '').endswith('MIN')))


# ---------------------------------------------------------------------------------------------------------------
# decision tables by case analysis: a finite set of case variables (terms selected by predicates) gets concrete values; literals
# and result terms are evaluated under the case (used where a rule must hold "exactly when", not only "only when")
# ---------------------------------------------------------------------------------------------------------------
def case_eval(t, env):
    """value (bool / int / variant name) of term t under env = [(predicate, value)]; None when unknown"""
    for (pred, v) in env:
        if pred(t):
            return v
    if not isinstance(t, tuple) or not t:
        return None
    k = t[0]
    if k == 'const':
        return t[1] if isinstance(t[1], (bool, int)) else None
    if k == 'aggr' and t[2] is not None and not str(t[2]).isdigit() and not t[3]:
        return t[2]
    if k == 'not':
        a = case_eval(t[1], env)
        return None if a is None else (not a)
    if k == 'cmp':
        a, b = case_eval(t[2], env), case_eval(t[3], env)
        if a is None or b is None:
            return None
        try:
            return {'Eq': a == b, 'Ne': a != b, 'Lt': a < b, 'Le': a <= b, 'Gt': a > b, 'Ge': a >= b}[t[1]]
        except TypeError:
            return None
    if k == 'bin' and t[1] in ('BitAnd', 'BitOr'):
        a, b = case_eval(t[2], env), case_eval(t[3], env)
        if t[1] == 'BitAnd':
            return False if (a is False or b is False) else (True if (a is True and b is True) else None)
        return True if (a is True or b is True) else (False if (a is False and b is False) else None)
    if k == 'ite':
        c = case_feasible(M.lit_atoms(t[1]), env, strict=True)
        return None if c is None else case_eval(t[2] if c else t[3], env)
    return None


def case_feasible(atoms, env, strict=False):
    """False if some atom is false under the case; atoms that do not depend on the case variables are ignored (strict: they make the
    answer None)"""
    unknown = False
    for a in atoms:
        v = None
        if a[0] in ('T', 'F'):
            x = case_eval(a[1], env)
            v = None if not isinstance(x, bool) else (x == (a[0] == 'T'))
        elif a[0] == 'in':
            x = case_eval(a[1], env)
            v = None if x is None else (x in a[2])
        elif a[0] == 'cmp':
            x, y = case_eval(a[1], env), case_eval(a[2], env)
            if x is not None and y is not None:
                try:
                    rel = '<' if x < y else ('=' if x == y else '>')
                    v = rel in a[3]
                except TypeError:
                    v = (x == y) if a[3] == frozenset('=') else ((x != y) if a[3] == frozenset('<>') else None)
        elif a[0] == 'eqc':
            x = case_eval(a[1], env)
            v = None if x is None else (x == a[2])
        elif a[0] == 'nec':
            x = case_eval(a[1], env)
            v = None if x is None else (x not in a[2])
        elif a[0] == 'const':
            v = bool(a[1])
        if v is False:
            return False
        if v is None:
            unknown = True
    return None if (strict and unknown) else True


# ---------------------------------------------------------------------------------------------------------------
# element-wise iteration, whatever its spelling: `for x in it`, `it.for_each(|x| ..)`; `collect` / push loops
# ---------------------------------------------------------------------------------------------------------------
ELEM_ADAPTORS = ('copied', 'cloned', 'iter', 'into_iter', 'iter_mut', 'deref', 'deref_mut', 'as_slice', 'as_mut_slice', 'by_ref', 'as_ref',
                 'borrow', 'to_vec', 'clone', 'into_values')


def strip_iter(t):
    """the collection (or base iterator, e.g. map.values()) an element-preserving adaptor chain runs over"""
    while isinstance(t, tuple) and t and t[0] == 'call' and t[1].split('::')[-1] in ELEM_ADAPTORS and t[2]:
        t = t[2][0]
    return t


def iterations(ctx, body):
    """every element-wise iteration written in `body`: dicts with
       src   — the stripped collection / base iterator term (in `body`)
       where — the body holding the per-element code (`body` itself for a `for` loop, the closure for `for_each`)
       is_item(term) — is `term` (seen in `where`) the current element
       starts / ends — points of `where`: first points of one iteration / points where the iteration is over (next element, return)"""
    out = []
    for (bb, t) in body.calls_to('Iterator::next'):
        p = body.term_point(bb)
        call = body.origin.call(t, p)
        item = M.simplify_field(M.simplify_variant(call, 'Some'), '0', None)
        starts = [(tb, 0) for bbk in body.live_blocks() if body.term(bbk)['k'] == 'switch' for (tb, lab) in body.succ(bbk)
                  if (lambda lit: lit and lit[0] == 'in' and lit[1] == call and lit[2] == frozenset(['Some']))(M.edge_literal(body, bbk, lab))]
        out.append({'kind': 'for', 'src': strip_iter(body.origin.operand(t['args'][0], p)), 'where': body, 'item': item,
                    'is_item': (lambda x, item=item: x == item), 'starts': starts, 'ends': [p] + ret_points(body), 'at': p})
    for (bb, t) in body.calls_to('for_each'):
        p = body.term_point(bb)
        a = [body.origin.operand(x, p) for x in t['args']]
        if len(a) == 2 and isinstance(a[1], tuple) and a[1] and a[1][0] == 'closure' and a[1][1] in ctx.F.bodies:
            c = ctx.F.bodies[a[1][1]]
            out.append({'kind': 'for_each', 'src': strip_iter(a[0]), 'where': c, 'item': ('param', c.name, 1, None),
                        'is_item': (lambda x, c=c: M.is_param(x, index=1) and x[1] == c.name), 'starts': [(0, 0)], 'ends': ret_points(c), 'at': p})
        elif len(a) == 2 and isinstance(a[1], tuple) and a[1] and a[1][0] == 'fn':
            # `.for_each(DashMap::clear)`: a function item applied to every element — `fn` names it, there is no per-element body
            out.append({'kind': 'for_each_fn', 'src': strip_iter(a[0]), 'where': body, 'item': None, 'fn': a[1][1],
                        'is_item': (lambda x: False), 'starts': [], 'ends': [], 'at': p})
    return out


def every_iteration_does(it, points):
    """no iteration of `it` gets from its first point to its end without passing one of `points` (points of it['where'])"""
    w = it['where']
    if not it['starts'] or not points:
        return False
    r = w.reach(it['starts'], avoid=list(points))
    return not any(e in r for e in it['ends'])


def collects_all(ctx, body, vec, src_pred, its=None):
    """`vec` (a term of `body`) holds exactly the elements of a collection selected by src_pred: `src.collect()` / `.to_vec()` (element-
    preserving adaptors only), or a vector that receives `push(item)` in every iteration of a loop over it"""
    v = vec
    if isinstance(v, tuple) and v and v[0] == 'call' and v[1].split('::')[-1] in ('collect', 'from_iter', 'to_vec') and v[2] and src_pred(strip_iter(v[2][0])):
        return True
    for it in (its if its is not None else iterations(ctx, body)):
        if not src_pred(it['src']):
            continue
        w = it['where']
        ps = [w.term_point(bb) for (bb, t) in w.calls_to('push')
              if w.origin.operand(t['args'][0], w.term_point(bb)) == vec and it['is_item'](w.origin.operand(t['args'][1], w.term_point(bb)))]
        if every_iteration_does(it, ps):
            return True
    return False


# ---------------------------------------------------------------------------------------------------------------
# parameters by role rather than by position; a parameter seen from the call sites
# ---------------------------------------------------------------------------------------------------------------
def param_index_by_type(body, substr):
    """index (0-based) of the only parameter of `body` whose type mentions `substr`, else None"""
    hits = [i for i in range(body.arg_count) if substr in (body.raw['locals'][i + 1].get('ty') or '')]
    return hits[0] if len(hits) == 1 else None


def param_at_call_sites(ctx, body, term):
    """terms the parameter `term` of the private function `body` receives at ALL its call sites in the crate ([] if none or not a param)"""
    if not (M.is_param(term) and term[1] == body.name):
        return []
    out = []
    for cb in ctx.F.bodies.values():
        for (bb, t) in cb.calls():
            if (t.get('callee') == body.name or t.get('resolved') == body.name) and term[2] < len(t['args']):
                out.append(cb.origin.operand(t['args'][term[2]], cb.term_point(bb)))
    return out


# ---------------------------------------------------------------------------------------------------------------
# guards of a call site (used to judge guards that the normalisation hoisted out of a callee)
# ---------------------------------------------------------------------------------------------------------------
import re as _re


def atom_text(a):
    def sh(x):
        return _re.sub(r'@bb\d+', '', M.show(x)) if isinstance(x, tuple) else (''.join(sorted(x)) if isinstance(x, (set, frozenset)) else str(x))
    return ' '.join(sh(x) for x in a)


def necessary_guards(body, point):
    """texts of the atoms of every switch edge that all paths from the entry to `point` must cross"""
    out = set()
    for bbk in body.live_blocks():
        if body.term(bbk)['k'] != 'switch':
            continue
        for (tb, lab) in body.succ(bbk):
            others = [(bbk, l2) for (t2, l2) in body.succ(bbk) if l2 != lab]
            if point not in body.reach([(0, 0)], cut_edges=[(bbk, lab)]):
                for a in M.lit_atoms(M.edge_literal(body, bbk, lab)):
                    out.add(atom_text(a))
    return out


def call_guard_table(F):
    """{caller body name: {callee path: sorted atom texts}} for the direct calls of private crate-local functions"""
    tab = {}
    for cb in F.bodies.values():
        for (bb, t) in cb.calls():
            c = t.get('callee')
            if c in F.bodies or c in getattr(F, 'absorbed_bodies', {}):
                g = necessary_guards(cb, cb.term_point(bb))
                cur = tab.setdefault(cb.name, {}).get(c)
                tab[cb.name][c] = sorted(g if cur is None else (set(cur) & g))
    return tab


def r_hoisted_guards(ctx):
    """R00.1 — a private function that always acted when called (reference tree) and now starts with an early return had that test hoisted to
    its call sites by the guard normalisation; the hoisted test is legitimate only if it was ALREADY the condition of the call on the
    reference tree (a guard moved from the caller into the callee). A new condition is a new reason not to do what the step does: the
    rules of the callee no longer see it (for them the callee runs exactly when the hoisted test lets it), so it is judged here."""
    import json, os
    from .. import canon
    notes = [n for n in (ctx.F.doc.get('canon_notes') or []) if n.get('kind') == 'entry guard']
    if not notes or not os.path.isfile(canon.REF):
        ctx.ok('R00.1', 'no-hoisted-guard', None, '-', 'no private function gained an early return that had to be hoisted to its call sites')
        return
    with open(canon.REF) as f:
        ref = json.load(f).get('call_guards', {})
    for n in notes:
        callee = n['owner'] + '::' + n['reference'].split(' ')[0]
        for cb in ctx.F.bodies.values():
            for (bb, t) in cb.calls():
                if t.get('callee') != callee:
                    continue
                now = necessary_guards(cb, cb.term_point(bb))
                was = set(ref.get(cb.name, {}).get(callee, []))
                new = sorted(now - was)
                ctx.check(not new, 'R00.1', 'hoisted-guard/%s<-%s' % (callee.split('::')[-1], (cb.fn_name or 'closure')), cb, cb.loc(bb),
                          'the early return that %s gained is the guard its call site already had' % callee.split('::')[-1],
                          '%s now returns early under a condition that did not guard its call before (%s): a step that always acted when called can be skipped for a new reason' % (callee.split('::')[-1], '; '.join(new)[:200]))


def loops_exhaust(ctx, rule, inst, body, what):
    """every `for` loop of `body` (an Iterator::next call) is left only when its iterator is exhausted: from the Some edge of the loop, no
    return is reachable without asking the iterator again (a `break` / early `return` inside the loop body stops a traversal that the
    bottom-up passes need complete). Loops whose Some edge cannot reach the next() call again (a `find`-like single step) are skipped."""
    n = 0
    for (bb, t) in body.calls_to('Iterator::next'):
        p = body.term_point(bb)
        call = body.origin.call(t, p)
        some_ = [(tb, 0) for bbk in body.live_blocks() if body.term(bbk)['k'] == 'switch' for (tb, lab) in body.succ(bbk)
                 if (lambda lit: lit and lit[0] == 'in' and lit[1] == call and lit[2] == frozenset(['Some']))(M.edge_literal(body, bbk, lab))]
        if not some_ or p not in body.reach(some_):
            continue
        n += 1
        r = body.reach(some_, avoid=[p])
        ctx.check(not any(q in r for q in ret_points(body)), rule, '%s/loop-runs-to-exhaustion#%d' % (inst, n), body, body.loc(bb),
                  'the loop of %s is left only when its iterator is exhausted' % what,
                  'a loop of %s can be left before its iterator is exhausted (break / early return in the loop body): the traversal is incomplete' % what)
    return n


# ---------------------------------------------------------------------------------------------------------------
# keys of the keyed stores: equality must be structural
MAP_TYPES = ('HashMap<', 'DashMap<', 'HashSet<', 'BTreeMap<', 'BTreeSet<', 'IndexMap<')


def first_generic_arg(ty, opener):
    """the first generic argument of the first occurrence of `opener` (e.g. 'HashMap<') in the type string `ty`"""
    i = ty.find(opener)
    if i < 0:
        return None
    i += len(opener)
    depth, j = 0, i
    while j < len(ty):
        ch = ty[j]
        if ch in '<([':
            depth += 1
        elif ch in '>)]':
            if depth == 0:
                break
            depth -= 1
        elif ch == ',' and depth == 0:
            break
        j += 1
    return ty[i:j].strip()


def _adts_in(F, ty):
    import re
    return [n for n in F.adts if re.search(r'(?<![\w:])' + re.escape(n) + r'(?![\w])', ty)]


def r_key_equality(ctx):
    """R*.key — every keyed store of the library (a field whose type is a hash / ordered map or set, possibly inside a Vec) identifies
    its entries by the WHOLE key: a crate-local type that occurs in the key type derives PartialEq (field-wise conjunction), or its
    hand-written `eq` asserts the equality of every field on every path that answers true (an `Arc::ptr_eq` counts for the field it
    compares). A short-cut that answers true on the state alone makes the dedup index of the fringe (C11), the cache (C18) or the
    layer maps of the diagrams identify two different sub-problems with each other."""
    F = ctx.F
    RULE = (('fringe::', 'R11.d'), ('cache::', 'R18.e'), ('dominance::', 'R10.5'), ('mdd::', 'R06.5'))
    n_fields = 0
    for (an, info) in sorted(F.adts.items()):
        rule = next((r for (m, r) in RULE if m in an), None)
        if rule is None:
            continue
        for v in info.get('variants', []):
            for fl in v['fields']:
                op = next((o for o in MAP_TYPES if o in fl[1]), None)
                if op is None:
                    continue
                n_fields += 1
                kty = first_generic_arg(fl[1], op) or ''
                inst0 = 'key-equality/%s.%s' % (an.split('::')[-1], fl[0])
                locals_ = _adts_in(F, kty)
                if not locals_:
                    ctx.ok(rule, inst0, None, '-', 'the key type `%s` is made of std types and the user\'s own state / key type (compared with their Eq)' % kty[:100])
                    continue
                for kn in locals_:
                    kinfo = F.adts[kn]
                    imp = [im for im in F.impls if (im.get('trait') or '').endswith('cmp::PartialEq') and im.get('self_adt') == kn]
                    if not imp:
                        continue            # cannot be a key at all (rustc rejects it)
                    if all(im.get('auto_derived') for im in imp):
                        ctx.ok(rule, inst0 + '/' + kn.split('::')[-1], None, '-', '`%s` derives PartialEq: two keys are equal iff all their fields are' % kn.split('::')[-1])
                        continue
                    eqb = [b for b in F.bodies.values() if b.fn_name == 'eq' and b.kind != 'closure' and b.impl_self_adt == kn and (b.impl_trait or '').endswith('PartialEq')]
                    if len(eqb) != 1:
                        ctx.bad(rule, inst0 + '/' + kn.split('::')[-1], None, '-', 'hand-written PartialEq of the key type `%s` not found as one body' % kn)
                        continue
                    eb = eqb[0]
                    ctx.analysed_bodies.add(eb.name)
                    fields = [f_[0] for f_ in kinfo['variants'][0]['fields']] if kinfo.get('variants') else []
                    def side(t, which):
                        # field `f` of parameter #which (self = 0, other = 1), through reference plumbing
                        while isinstance(t, tuple) and t and t[0] in ('ref', 'deref') and len(t) > 1 and isinstance(t[1], tuple):
                            t = t[1]
                        if isinstance(t, tuple) and t and t[0] == 'field' and M.is_param(t[1], index=which):
                            return t[2]
                        if isinstance(t, tuple) and t and t[0] == 'call' and t[1].split('::')[-1] in ('deref', 'as_ref', 'borrow', 'clone') and t[2]:
                            return side(t[2][0], which)
                        return None
                    def covered(atoms):
                        got = set()
                        for a in atoms:
                            if a[0] == 'cmp' and a[3] == frozenset('='):
                                for (x, y) in ((a[1], a[2]), (a[2], a[1])):
                                    if side(x, 0) is not None and side(x, 0) == side(y, 1):
                                        got.add(side(x, 0))
                            if a[0] == 'T' and isinstance(a[1], tuple) and a[1] and a[1][0] == 'call' and a[1][1].split('::')[-1] in ('eq', 'ptr_eq') and len(a[1][2]) == 2:
                                (x, y) = a[1][2]
                                for (x, y) in ((x, y), (y, x)):
                                    if side(x, 0) is not None and side(x, 0) == side(y, 1):
                                        got.add(side(x, 0))
                            if a[0] == 'F' and isinstance(a[1], tuple) and a[1] and a[1][0] == 'call' and a[1][1].split('::')[-1] == 'ne' and len(a[1][2]) == 2:
                                (x, y) = a[1][2]
                                for (x, y) in ((x, y), (y, x)):
                                    if side(x, 0) is not None and side(x, 0) == side(y, 1):
                                        got.add(side(x, 0))
                        return got
                    missing = set()
                    def holds(atoms):
                        g = covered(atoms)
                        miss = [f_ for f_ in fields if f_ not in g]
                        missing.update(miss)
                        return not miss
                    good = returns_value_only_if(eb, True, holds)
                    ctx.check(good, rule, inst0 + '/' + kn.split('::')[-1] + '/eq-compares-every-field', eb, eb.loc(0),
                              'the hand-written `eq` of the key type `%s` answers true only when every field (%s) is equal' % (kn.split('::')[-1], ', '.join(fields)),
                              'the hand-written `eq` of the key type `%s` of %s.%s can answer true without comparing field(s) %s: two different entries (e.g. the same state at two depths) are identified with each other' % (
                                  kn.split('::')[-1], an.split('::')[-1], fl[0], ', '.join(sorted(missing)) or '?'))
    ctx.check(n_fields >= 5, 'R11.d', 'key-equality/keyed-stores-found', None, '-', '%d keyed stores (map / set fields) inspected' % n_fields,
              'anchor missing: expected at least 5 keyed stores (NoDupFringe.states, Mdd.next_l, Pooled.pool, SimpleCache.thresholds_by_layer, SimpleDominanceChecker.data), found %d' % n_fields)


def r_clone_fidelity(ctx):
    """R11.h / R02.7 — a copy is a copy: every hand-written `Clone` impl of a crate-local struct that the library itself clones (the
    sub-problems copied out of the duplicate-free fringe, thresholds, edges, nodes, flags ...) builds its result field by field from the SAME
    field of `self` (derived impls do so by construction). A `clone` that recomputes a field (`depth: self.path.len()`) hands out a
    different sub-problem than the one that was stored: the fringe then forgets the wrong key, the solver continues from the wrong depth."""
    F = ctx.F
    n = 0
    for im in F.impls:
        if not (im.get('trait') or '').endswith('clone::Clone') or not im.get('self_adt'):
            continue
        adt = im['self_adt']
        if '::mdd::clean::Mdd' in adt or '::mdd::pooled::Pooled' in adt:
            continue                    # the diagrams: R20.d
        info = F.adts.get(adt)
        if not info or info.get('kind') != 'struct':
            continue
        n += 1
        short_ = adt.split('::')[-1]
        if im.get('auto_derived'):
            continue
        cb_ = [b_ for b_ in F.bodies.values() if b_.fn_name == 'clone' and b_.impl_self_adt == adt and (b_.impl_trait or '').endswith('Clone') and b_.kind != 'closure']
        good, missing_ = False, []
        if cb_:
            ctx.analysed_bodies.add(cb_[0].name)
            ag_ = aggr_assigns(cb_[0], adt)
            rt_ = None
            if ag_:
                rt_ = cb_[0].origin.rvalue(ag_[0][2]['rv'], (ag_[0][0], ag_[0][1]))
            if isinstance(rt_, tuple) and rt_ and rt_[0] == 'aggr':
                own = lambda x, f_: M.is_field(x, f_) and M.is_param(M.field_base(x), index=0)
                missing_ = [f_ for (f_, t_) in rt_[3] if not (own(t_, f_) or (isinstance(t_, tuple) and t_ and t_[0] == 'call' and t_[1].split('::')[-1] in ('clone', 'to_vec', 'to_owned', 'into') and t_[2] and own(t_[2][0], f_)))]
                good = not missing_
            elif len(ag_) == 0:
                # `*self` for a Copy type
                rets = cb_[0].return_blocks()
                rt_ = cb_[0].origin.place({'l': 0, 'p': []}, cb_[0].term_point(rets[0])) if rets else None
                good = M.is_param(rt_, index=0)
        rule = 'R11.h' if short_ in ('SubProblem', 'Decision', 'Variable') else 'R18.e' if short_ in ('Threshold',) else 'R02.7'
        ctx.check(good, rule, 'clone-preserves-every-field/' + short_, cb_[0] if cb_ else None, cb_[0].loc(0) if cb_ else '-',
                  'the hand-written Clone of %s copies every field from the same field of self' % short_,
                  'the hand-written Clone of %s does not copy field(s) %s from the same field of self: a cloned %s is not the value that was stored' % (short_, ', '.join(missing_) or '?', short_))
    ctx.check(n >= 10, 'R11.h', 'clone-preserves-every-field/types-found', None, '-', '%d Clone impls of crate-local structs inspected (derived ones copy field by field by construction)' % n,
              'anchor missing: expected at least 10 Clone impls of crate-local structs, found %d' % n)
