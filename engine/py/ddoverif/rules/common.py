"""Slot predicates shared by the rule modules (filled from the repository: resolved def paths and field names)."""
from .. import mirlib as M
from ..core import MissingAnchor

SEQ = 'sequential::SequentialSolver'
PAR = 'parallel::ParallelSolver'
CRIT = 'parallel::Critical'
MDD = 'clean::Mdd'
POOLED = 'pooled::Pooled'
SOLVERS = (('seq', SEQ), ('par', PAR))
DIAGRAMS = (('Mdd', MDD), ('Pooled', POOLED))
SOLVER_STATE = ('SequentialSolver', 'Critical')  # ADTs holding incumbent / bounds / fringe


def solver_field(t, name):
    """`name` field of the solver state (SequentialSolver.<f> or Critical.<f>)"""
    return M.is_field(t, name) and any((t[3] or '').endswith(s) for s in SOLVER_STATE)


def inline_helpers(F, t, depth=3):
    """replace calls to small crate-local functions by their return term (so that hoisting a read or a test into a
    helper is tolerated)"""
    if depth == 0 or not isinstance(t, tuple):
        return t
    if t and t[0] == 'call' and isinstance(t[1], str) and t[1] in F.bodies:
        cb = F.bodies[t[1]]
        if cb.nb <= 12 and not cb.back_edges():
            rets = cb.return_blocks()
            if len(rets) == 1:
                rt = cb.origin.place({'l': 0, 'p': []}, cb.term_point(rets[0]))
                args = t[2]

                def sub(x):
                    if isinstance(x, tuple):
                        if x and x[0] == 'param' and x[1] == cb.name and x[2] < len(args):
                            return args[x[2]]
                        return tuple(sub(y) for y in x)
                    return x
                return inline_helpers(F, sub(rt), depth - 1)
    return t


def is_lb(F):
    """incumbent lower bound: solver-state field best_lb, possibly read through a helper, or the compilation
    input's best_lb inside a diagram"""
    def p(t):
        t = inline_helpers(F, M.strip_casts(t))
        return solver_field(t, 'best_lb')
    return p


def is_input_lb(t):
    return M.is_field(t, 'best_lb', 'CompilationInput')


def is_subproblem_field(t, name):
    return M.is_field(t, name, 'SubProblem')


def mentions(t, pred):
    return M.contains(t, pred)


def compile_calls(body):
    """calls of DecisionDiagram::compile in program order (a precedes b if b is reachable from a)"""
    cs = body.calls_to('DecisionDiagram::compile')
    def key(c):
        r = body.reach([body.term_point(c[0])])
        return -len([d for d in cs if body.term_point(d[0]) in r])
    return sorted(cs, key=key)


def call_points(body, *names):
    return [body.term_point(bb) for (bb, t) in body.calls_to(*names)]


def ret_points(body):
    return [body.term_point(b) for b in body.return_blocks()]


def err_edge(atoms):
    """edge taken when a `?` / match sees the Err variant of a Result"""
    return any(a[0] == 'in' and a[2] == frozenset(['Err']) for a in atoms)


def first(xs, what):
    if not xs:
        raise MissingAnchor(what)
    return xs[0]


def writes(body):
    """[(point, dest_term, value_term, stmt)] for every live assignment through a projection (field / deref / index)"""
    out = []
    for (bb, i, s) in body.assigns(lambda s: bool(s['place']['p'])):
        dest = body.origin.place(s['place'], (bb, i))
        val = body.origin.rvalue(s['rv'], (bb, i))
        out.append(((bb, i), dest, val, s))
    return out


def var_def_terms(body, t):
    """terms of all definitions of a ('var', body, local, name) term"""
    if not (isinstance(t, tuple) and t and t[0] == 'var'):
        return [t]
    out = []
    for d in body.defs().get(t[2], []):
        if d[2] in ('whole', 'call'):
            out.append(body.origin._def_term(t[2], d, 0))
    return out


def aggr_assigns(body, adt_suffix, variant=None):
    """assign statements building an aggregate of the given ADT (and variant)"""
    def p(s):
        rv = s['rv']
        return rv['k'] == 'aggr' and (rv.get('adt') or '').endswith(adt_suffix) and (variant is None or rv['variant'] == variant)
    return body.assigns(p)
