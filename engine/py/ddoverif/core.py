"""Rule context, result records, evidence writer, known findings, check driver."""
import json, os, sys, time, traceback

from . import extract, mirlib as M

VERIF = extract.VERIF
EVID = os.environ.get('VERIF_EVIDENCE_DIR') or os.path.join(VERIF, 'evidence')
KNOWN = os.path.join(VERIF, 'known_findings.json')


class MissingAnchor(Exception):
    """a slot (function, field, call site) the rule needs no longer resolves: fail closed"""


class Ctx:
    def __init__(self, facts, config, prop, tier):
        self.F = facts
        self.config = config
        self.prop = prop
        self.tier = tier
        self.results = []   # dicts
        self.analysed_bodies = set()
        self.stats = {'call_sites': 0, 'guards': 0, 'paths': 0}

    # -- lookups that fail closed -----------------------------------------------------------
    def body(self, adt, name, trait=None):
        bs = self.F.find(adt=adt, name=name, trait=trait)
        if len(bs) != 1:
            raise MissingAnchor('slot %s::%s does not resolve to exactly one body (%d found)' % (adt, name, len(bs)))
        self.analysed_bodies.add(bs[0].name)
        return bs[0]

    def unit(self, body):
        u = self.F.unit(body)
        for b in u:
            self.analysed_bodies.add(b.name)
        return u

    # -- reporting --------------------------------------------------------------------------
    def ok(self, rule, inst, body, where, what):
        self.results.append({'rule': rule, 'instance': inst, 'fn': body.name if body else None, 'where': where,
                             'verdict': 'holds', 'what': what, 'config': self.config})

    def bad(self, rule, inst, body, where, what):
        self.results.append({'rule': rule, 'instance': inst, 'fn': body.name if body else None, 'where': where,
                             'verdict': 'VIOLATION', 'what': what, 'config': self.config})

    def check(self, cond, rule, inst, body, where, ok_what, bad_what=None):
        if cond:
            self.ok(rule, inst, body, where, ok_what)
        else:
            self.bad(rule, inst, body, where, bad_what or ('NOT: ' + ok_what))
        return cond

    def floor(self, rule, inst, body, found, minimum, what):
        """obligation-type rules: fewer instances than confirmed by hand fails closed"""
        if found < minimum:
            self.bad(rule, inst + '/floor', body, body.loc(0) if body else '-',
                     'anchor missing: expected at least %d %s, found %d' % (minimum, what, found))
            return False
        return True


def short_fn(name):
    """stable, line-free function descriptor for keys"""
    if not name:
        return '-'
    s = name.replace("<'a, State, D, C>", '').replace('<T, CUTSET_TYPE>', '').replace('<T>', '')
    s = s.replace('implementation::', '').replace('abstraction::', '')
    while '::::' in s:
        s = s.replace('::::', '::')
    return s


def violation_key(prop, r):
    return '%s/%s/%s/%s' % (prop, r['rule'], short_fn(r['fn']), r['instance'])


def load_known():
    if not os.path.isfile(KNOWN):
        return []
    with open(KNOWN) as f:
        return json.load(f)


def run_property(prop, tier, rule_fn, meta):
    """meta: dict(level, explanation, assumptions, rule_text, proof=False, checker_cmd=...)"""
    t0 = time.time()
    seed = int(os.environ.get('VERIF_SEED', '0') or 0)
    configs = ['dev'] if tier == 'quick' else ['dev', 'rel']
    all_results = []
    infos = []
    analysed = set()
    stats = {}
    crashed = None
    for cfg in configs:
        doc, info = extract.extract(cfg)
        info['renamed_slots'] = doc.get('canon_notes') or []
        for n in info['renamed_slots']:
            if cfg == 'dev':
                print('note: %s %s::%s is resolved to the renamed %s `%s` (role similarity %.2f)'
                      % (n['kind'], n['owner'], n['reference'].rsplit('::', 1)[-1], n['kind'], n['current'].rsplit('::', 1)[-1], n['similarity']))
        infos.append(info)
        F = M.Facts(doc)
        ctx = Ctx(F, cfg, prop, tier)
        try:
            rule_fn(ctx)
            if tier == 'thorough' and cfg == 'dev' and meta.get('witnesses'):
                from . import witness
                witness.run(ctx, meta['witnesses'])
        except MissingAnchor as e:
            ctx.bad('ANCHOR', 'missing', None, '-', str(e))
        except Exception as e:  # an analysis crash is a broken check, never a silent pass
            crashed = traceback.format_exc()
            ctx.bad('ENGINE', 'crash', None, '-', 'analysis crashed: %r' % (e,))
        all_results.extend(ctx.results)
        analysed |= ctx.analysed_bodies
        for k, v in ctx.stats.items():
            stats[k] = stats.get(k, 0) + v
    extra = {}
    if tier == 'thorough' and not meta.get('no_perturb'):
        # B10: fact-level perturbations — the matchers are exercised on broken copies of the fact base
        from . import perturb
        doc, _ = extract.extract('dev')
        canaries, scope = [], None
        cf = os.path.join(VERIF, 'selftest', 'canaries.json')
        if os.path.isfile(cf):
            with open(cf) as f:
                rec = json.load(f).get(prop) or {}
                canaries, scope = rec.get('canaries', []), rec.get('scope')
        extra['perturbations'] = perturb.run(doc, rule_fn, prop, canaries, scope=scope)
        extra['perturbations'].pop('detected_all', None)
    return finish(prop, tier, seed, all_results, infos, analysed, stats, meta, t0, crashed, extra)


def finish(prop, tier, seed, results, infos, analysed, stats, meta, t0, crashed, extra):
    known = [k for k in load_known() if k.get('property') == prop]
    open_keys = {k['key']: k for k in known if k.get('status') == 'open'}
    viol = [r for r in results if r['verdict'] == 'VIOLATION']
    new_viol = []
    known_hit = {}
    for r in viol:
        key = violation_key(prop, r)
        r['key'] = key
        if key in open_keys:
            known_hit[key] = r
        else:
            new_viol.append(r)
    pert = extra.get('perturbations')
    if pert:
        for p in pert['missed']:
            new_viol.append({'rule': 'SELFTEST', 'instance': p, 'fn': None, 'where': '-', 'verdict': 'VIOLATION',
                             'what': 'perturbation %s was not detected by the rules (matcher is blind)' % p,
                             'config': 'dev', 'key': '%s/SELFTEST/-/%s' % (prop, p)})
    # ---- output ----
    for key, r in sorted(known_hit.items()):
        print('KNOWN-FINDING: property=%s %s [%s] %s' % (prop, open_keys[key].get('what', r['what']), key, r['where']))
    os.makedirs(os.path.join(EVID, 'replay'), exist_ok=True)
    seen_keys = set()
    for r in new_viol:
        if r['key'] in seen_keys:
            continue
        seen_keys.add(r['key'])
        rp = os.path.join(EVID, 'replay', '%s-%s.json' % (prop, abs(hash(r['key'])) % (10 ** 10)))
        # stable file name from the key
        import hashlib
        rp = os.path.join(EVID, 'replay', '%s-%s.json' % (prop, hashlib.sha1(r['key'].encode()).hexdigest()[:12]))
        with open(rp, 'w') as f:
            json.dump({'property': prop, 'key': r['key'], 'rule': r['rule'], 'function': r['fn'], 'instance': r['instance'],
                       'where': r['where'], 'what': r['what'], 'config': r['config']}, f, indent=1)
        print('%s %s rule %s instance %s: %s' % (r['where'], short_fn(r['fn']), r['rule'], r['instance'], r['what']))
        print('VIOLATION property=%s replay=%s' % (prop, rp))
    if crashed:
        sys.stderr.write(crashed)
    # ---- evidence ----
    distinct = {}
    for r in results:
        k = (r['rule'], r['instance'], r['fn'])
        distinct.setdefault(k, r)
    holds = [r for r in distinct.values() if r['verdict'] == 'holds']
    samples = []
    for r in list(distinct.values()):
        samples.append({'rule': r['rule'], 'instance': r['instance'], 'fn': short_fn(r['fn']), 'where': r['where'],
                        'verdict': r['verdict'], 'what': r['what']})
    cov = {
        'explanation': meta['explanation'],
        'evaluations': len(results),
        'distinct_nontrivial': len(distinct),
        'rule': 'one evaluation = one rule instance (rule id x function x construct) evaluated on the MIR of the current '
                'tree in one build configuration; distinct = distinct (rule, function, construct) triples whose anchor was '
                'found and whose obligation was evaluated (non-vacuous); instances are enumerated from the code, not sampled',
        'samples': samples[:400],
        'exhaustive': True,
        'analysed': {
            'configurations': [i['config'] for i in infos],
            'tree_hash': infos[0]['hash'] if infos else None,
            'bodies_in_crate': None,
            'bodies_analysed': sorted(short_fn(b) for b in analysed),
            'stats': stats,
            'extraction': [{'config': i['config'], 'cached': i['cached'], 'extract_s': i['extract_s']} for i in infos],
            'renamed_slots_resolved': infos[0].get('renamed_slots', []) if infos else [],
        },
        'instances_holding': len(holds),
        'instances_violating': len([r for r in distinct.values() if r['verdict'] == 'VIOLATION']),
        'known_findings_matched': sorted(known_hit.keys()),
        'not_decided': meta.get('not_decided', ''),
    }
    if pert:
        cov['perturbations'] = pert
    level = meta.get('level', 'other')
    if level == 'proof':
        cov['obligations'] = meta['obligations'](results)
        cov['discharged'] = len([r for r in results if r['verdict'] == 'holds' and r['rule'] in meta.get('proof_rules', ())]) \
            if meta.get('proof_rules') else len([r for r in results if r['verdict'] == 'holds'])
        cov['checker_cmd'] = meta.get('checker_cmd', './check %s %s' % (prop, tier))
        cov['trusted_base'] = meta.get('trusted_base', [])
    ev = {
        'property_id': prop, 'tier': tier, 'seed': seed, 'level': level, 'coverage': cov,
        'assumptions': meta.get('assumptions', []),
        'wall_s': round(time.time() - t0, 3),
        'violations': len(seen_keys),
    }
    with open(os.path.join(EVID, prop + '.json'), 'w') as f:
        json.dump(ev, f, indent=1)
    n_ok = len(holds)
    print('[%s %s] %d rule instances evaluated over %d bodies (%s), %d hold, %d violation(s), %d known finding(s); %.1fs'
          % (prop, tier, len(distinct), len(analysed), '+'.join(i['config'] for i in infos), n_ok, len(seen_keys), len(known_hit),
             time.time() - t0))
    return 1 if seen_keys else 0
