"""Slot resolution by role (name canonicalisation).

The rules look their anchors up by resolved names (inherent methods of the solver / diagram / store / fringe types, and fields of
their structs). A behaviour-preserving *rename* of a private method or field must not raise an alarm, so before the rules run the
fact document of the current tree is compared with a reference profile of the anchors (`canon_ref.json`, written by
`tools/mkcanonref.py` from the tree the rule instances were confirmed on): when an owner (an ADT for fields, an inherent impl for
methods) has lost a reference name and gained a new one, the two are matched by *what they are* — signature, resolved callees,
fields touched, aggregates built, named constants, callers for a method; type, position and the methods reading / writing it for a
field; module, kind, field types and implemented traits for an ADT — and the new name is rewritten to the reference name throughout
the fact document. Nothing else changes: the rules then judge the renamed body exactly as they would have judged it under its old
name, so a rename combined with a breaking edit is still reported; a name that disappears without an acceptable candidate stays
missing and is reported as a missing anchor (fail closed), as before. The profile is used ONLY to resolve names, never to raise an
alarm.
"""
import json, os, re
from collections import Counter

HERE = os.path.dirname(os.path.abspath(__file__))
REF = os.path.join(HERE, 'canon_ref.json')
MIN_SIM = 0.55          # a candidate below this similarity is not accepted
MIN_MARGIN = 0.08       # ... nor one that is not clearly better than the runner-up


def _walk(x, fn):
    if isinstance(x, dict):
        fn(x)
        for v in x.values():
            _walk(v, fn)
    elif isinstance(x, list):
        for v in x:
            _walk(v, fn)


def _body_tokens(b):
    """name-bearing features of ONE body (closure bodies are added to their root by the caller)"""
    t = Counter()
    for bb in b['blocks']:
        if bb.get('cleanup'):
            continue
        for s in bb['stmts']:
            if s.get('k') != 'assign':
                continue
            pl = s['place']
            lastf = None
            for e in pl['p']:
                if isinstance(e, dict) and 'f' in e and e.get('adt'):
                    lastf = e
            if lastf is not None:
                t['fw:%s.%s' % (lastf['adt'], lastf['name'])] += 1
            rv = s['rv']
            if rv.get('k') == 'aggr' and rv.get('adt'):
                t['aggr:%s:%s' % (rv['adt'], rv.get('variant'))] += 1
                for f in rv.get('fields') or []:
                    t['fi:%s.%s' % (rv['adt'], f)] += 1

            def rd(d, skip=pl):
                if d is skip:
                    return
                if 'f' in d and 'name' in d and d.get('adt'):
                    t['fr:%s.%s' % (d['adt'], d['name'])] += 1
                if 'named' in d and d.get('named'):
                    t['const:%s' % d['named']] += 1
            _walk(rv, rd)
        tm = bb['term']
        if tm.get('k') == 'call':
            c = tm.get('callee')
            t['call:%s' % (c or 'indirect')] += 1
            for a in tm.get('args', []):
                def rd2(d):
                    if 'f' in d and 'name' in d and d.get('adt'):
                        t['fr:%s.%s' % (d['adt'], d['name'])] += 1
                    if 'named' in d and d.get('named'):
                        t['const:%s' % d['named']] += 1
                _walk(a, rd2)
            for e in tm.get('dest', {}).get('p', []):
                if isinstance(e, dict) and 'f' in e and e.get('adt'):
                    t['fw:%s.%s' % (e['adt'], e['name'])] += 1
        elif tm.get('k') == 'switch':
            t['switch'] += 1
    return t


def profile(doc):
    """{'methods': {owner: {name: {'path','tokens'}}}, 'fields': {adt: {name: {'ty','idx','tokens'}}}, 'adts': {path: {...}}}"""
    bodies = doc['bodies']
    unit = {}
    for k, b in bodies.items():
        root = b.get('root') or k
        unit.setdefault(root, Counter()).update(_body_tokens(b))
    methods = {}
    callers = {}
    for root, toks in unit.items():
        for tk, n in toks.items():
            if tk.startswith('call:') and tk[5:] in bodies:
                callers.setdefault(tk[5:], Counter())[root] += 1
    for k, b in bodies.items():
        if b['kind'] == 'closure' or b.get('impl_trait') or b.get('trait_default'):
            continue
        owner = b.get('impl_self_adt') or k.rsplit('::', 1)[0]
        toks = Counter()
        for tk, m in unit.get(k, {}).items():
            toks[tk.replace(k, '$SELF')] += m      # closure environments / recursion mention the method's own path
        n = b.get('arg_count', 0)
        sig = ','.join(l['ty'] for l in b['locals'][1:1 + n]) + '->' + b['locals'][0]['ty']
        toks['sig:' + sig] += 4
        toks['vis:' + str(b.get('vis'))] += 1
        for c, m in callers.get(k, {}).items():
            toks['by:' + c] += 2
        names = {d['v']['l']: d['name'] for d in b.get('debug', []) if isinstance(d.get('v'), dict) and not d['v'].get('p')}
        params = [[names.get(i), b['locals'][i]['ty']] for i in range(1, 1 + n)]
        from . import hoist
        methods.setdefault(owner, {})[b['name']] = {'path': k, 'tokens': dict(toks), 'params': params, 'entry_skip': hoist.entry_skip(b)}
    fields = {}
    for adt, a in doc['adts'].items():
        if a.get('kind') != 'struct':
            continue
        fs = {}
        for v in a['variants']:
            for i, f in enumerate(v['fields']):
                fs[f[0]] = {'ty': f[1], 'idx': i, 'tokens': {'ty:' + f[1]: 4, 'idx:%d' % i: 1}}
        fields[adt] = fs
    for root, toks in unit.items():
        for tk, n in toks.items():
            if tk[:3] in ('fr:', 'fw:', 'fi:'):
                adt, name = tk[3:].rsplit('.', 1)
                f = fields.get(adt, {}).get(name)
                if f is not None:
                    f['tokens']['%s%s' % (tk[:3], root)] = f['tokens'].get('%s%s' % (tk[:3], root), 0) + min(n, 3)
    adts = {}
    for adt, a in doc['adts'].items():
        toks = Counter()
        toks['kind:' + a.get('kind', '?')] += 2
        for v in a['variants']:
            toks['variant:' + v['name']] += 1
            for f in v['fields']:
                toks['field:%s:%s' % (f[0], f[1])] += 2
        adts[adt] = {'tokens': dict(toks)}
    for im in doc['impls']:
        a = im.get('self_adt')
        if a in adts and im.get('trait'):
            adts[a]['tokens']['impl:' + im['trait']] = adts[a]['tokens'].get('impl:' + im['trait'], 0) + 1
    for owner, ms in methods.items():
        if owner in adts:
            for name in ms:
                adts[owner]['tokens']['method:' + name] = 1
    return {'methods': methods, 'fields': fields, 'adts': adts}


def _sim(a, b):
    inter = sum(min(n, b.get(k, 0)) for k, n in a.items())
    union = sum(max(n, b.get(k, 0)) for k, n in a.items()) + sum(n for k, n in b.items() if k not in a)
    return inter / union if union else 0.0


def _subst_tokens(toks, smap):
    """apply the renames found so far to the tokens of the current tree (so that a renamed field does not make the
    methods that use it look different, and vice versa)"""
    if not smap:
        return toks
    out = {}
    for k, n in toks.items():
        for old, new in smap:
            if old in k:
                k = k.replace(old, new)
        out[k] = out.get(k, 0) + n
    return out


def _assign(missing, extra, ref_t, cur_t):
    """greedy one-to-one assignment missing(ref name) <- extra(current name) by descending similarity"""
    pairs = []
    for m in missing:
        for e in extra:
            pairs.append((_sim(ref_t[m], cur_t[e]), m, e))
    pairs.sort(reverse=True)
    out = {}
    used_m, used_e = set(), set()
    for (s, m, e) in pairs:
        if m in used_m or e in used_e or s < MIN_SIM:
            continue
        rivals = [s2 for (s2, m2, e2) in pairs if (m2 == m) != (e2 == e) and m2 not in used_m and e2 not in used_e]
        if rivals and max(rivals) > s - MIN_MARGIN:
            continue
        out[m] = (e, round(s, 3))
        used_m.add(m)
        used_e.add(e)
    return out


def resolve(doc, ref=None):
    """-> (new doc, notes). notes: [{'kind','owner','reference','current','similarity'}]"""
    if ref is None:
        if not os.path.isfile(REF):
            return doc, []
        with open(REF) as f:
            ref = json.load(f)
    notes = []
    _flatten_field_groups(doc, ref, notes)
    adt_map, meth_map, field_map = {}, {}, {}      # current -> reference
    for _round in range(3):
        cur = profile(doc)
        smap = []
        for (o, n) in adt_map.items():
            smap.append((o, n))
        for (owner, old), new in field_map.items():
            smap.append(('%s.%s' % (owner, old), '%s.%s' % (owner, new)))
        for oldp, newp in meth_map.items():
            smap.append((oldp, newp))
        changed = False
        # --- ADTs (same module only) ---
        miss = [a for a in ref['adts'] if a not in cur['adts'] and a not in adt_map.values()]
        extra = [a for a in cur['adts'] if a not in ref['adts'] and a not in adt_map]
        by_mod = {}
        for a in miss:
            by_mod.setdefault(a.rsplit('::', 1)[0], ([], []))[0].append(a)
        for a in extra:
            by_mod.setdefault(a.rsplit('::', 1)[0], ([], []))[1].append(a)
        for mod, (ms, es) in by_mod.items():
            if ms and es:
                got = _assign(ms, es, {m: ref['adts'][m]['tokens'] for m in ms},
                              {e: _subst_tokens(cur['adts'][e]['tokens'], smap) for e in es})
                for m, (e, s) in got.items():
                    adt_map[e] = m
                    notes.append({'kind': 'type', 'owner': mod, 'reference': m, 'current': e, 'similarity': s})
                    changed = True
        if changed:
            doc = _rewrite(doc, adt_map, {}, {})
            continue
        # --- fields ---
        for adt, rfs in ref['fields'].items():
            cfs = cur['fields'].get(adt)
            if cfs is None:
                continue
            ms = [f for f in rfs if f not in cfs]
            es = [f for f in cfs if f not in rfs]
            if ms and es:
                got = _assign(ms, es, {m: rfs[m]['tokens'] for m in ms}, {e: _subst_tokens(cfs[e]['tokens'], smap) for e in es})
                for m, (e, s) in got.items():
                    field_map[(adt, e)] = m
                    notes.append({'kind': 'field', 'owner': adt, 'reference': m, 'current': e, 'similarity': s})
                    changed = True
        # --- inherent methods ---
        for owner, rms in ref['methods'].items():
            cms = cur['methods'].get(owner)
            if cms is None:
                continue
            ms = [f for f in rms if f not in cms]
            es = [f for f in cms if f not in rms]
            if ms and es:
                got = _assign(ms, es, {m: rms[m]['tokens'] for m in ms}, {e: _subst_tokens(cms[e]['tokens'], smap) for e in es})
                for m, (e, s) in got.items():
                    oldp = cms[e]['path']
                    newp = oldp[:len(oldp) - len(e)] + m
                    meth_map[oldp] = newp
                    notes.append({'kind': 'method', 'owner': owner, 'reference': m, 'current': e, 'similarity': s})
                    changed = True
        if not changed:
            break
        doc = _rewrite(doc, {}, meth_map, field_map)
        meth_map, field_map = {}, {}
    # --- parameter lists: a private method whose parameters were re-ordered, or whose unused `self` receiver was dropped, gets the
    # reference order back (locals of its body and arguments of every call site are permuted; a dropped receiver becomes a dummy) ---
    # --- re-homed methods: a private method that the reference has on owner O and that now lives, under the same name, in an impl of
    # ANOTHER type of the same module (an associated function `f(shared: &Shared, ..)` turned into a method `Shared::f(&self, ..)`), where
    # the reference knows no such method, is looked up under its reference owner again (its path, and so its call sites, do not change) ---
    cur = profile(doc)
    for owner, rms in ref['methods'].items():
        cms = cur['methods'].get(owner, {})
        mod = owner.rsplit('::', 1)[0]
        for name in rms:
            if name in cms:
                continue
            cands = [(o2, ms2[name]) for o2, ms2 in cur['methods'].items()
                     if o2 != owner and o2.rsplit('::', 1)[0] == mod and name in ms2 and name not in ref['methods'].get(o2, {})]
            renamed_to = None
            if not cands:
                # ... or under ANOTHER name as well (parent -> the free function parent_of, edge -> viz_edge, node_label -> Node::viz_label):
                # the best role match among the functions of the module's other owners (free functions included) that the reference does
                # not know, with a clear margin over the runner-up
                pool_ = [(o2, n2, m2) for o2, ms2 in cur['methods'].items() if o2 != owner and (o2 == mod or o2.rsplit('::', 1)[0] == mod)
                         for n2, m2 in ms2.items() if n2 not in ref['methods'].get(o2, {})]
                # (a name that contains the reference name — parent_of, viz_edge — counts for the match: tiny functions have few tokens)
                affinity = lambda n2: 0.35 if (len(name.strip('_')) >= 4 and (name.strip('_') in n2 or n2.strip('_') in name)) else 0.0
                scored = sorted(((_sim(rms[name]['tokens'], m2['tokens']) + affinity(n2), o2, n2, m2) for (o2, n2, m2) in pool_), key=lambda x: -x[0])
                if scored and scored[0][0] >= 0.6 and (len(scored) == 1 or scored[0][0] - scored[1][0] >= 0.1):
                    # the match must be mutual: no other missing reference method of this owner fits it better
                    rivals = [_sim(rms[n3]['tokens'], scored[0][3]['tokens']) + (0.35 if (len(n3.strip('_')) >= 4 and n3.strip('_') in scored[0][2]) else 0.0)
                              for n3 in rms if n3 != name and n3 not in cms]
                    if not rivals or max(rivals) + 0.05 < scored[0][0]:
                        cands = [(scored[0][1], scored[0][3])]
                        renamed_to = scored[0][2]
            if len(cands) != 1:
                continue
            (o2, cm) = cands[0]
            b = doc['bodies'][cm['path']]
            if b.get('vis') == 'pub' or b.get('impl_trait') or (_sim(rms[name]['tokens'], cm['tokens']) < 0.5 and renamed_to is None) or _sim(rms[name]['tokens'], cm['tokens']) < 0.25:
                continue
            if renamed_to is not None:
                oldp = cm['path']
                newp = oldp[:len(oldp) - len(renamed_to)] + name
                if newp in doc['bodies']:
                    continue
                doc = _rewrite(doc, {}, {oldp: newp}, {})
                cm = dict(cm, path=newp)
            for k2, b2 in doc['bodies'].items():
                if k2 == cm['path'] or b2.get('root') == cm['path'] or k2.startswith(cm['path'] + '::'):
                    b2['impl_self_adt'] = owner
            notes.append({'kind': 'method moved', 'owner': owner, 'reference': name, 'current': o2.split('::')[-1] + '::' + (renamed_to or name), 'similarity': round(_sim(rms[name]['tokens'], cm['tokens']), 2)})
    # --- parameter objects: a private method that now receives a small crate-local struct (unknown to the reference) where the reference
    # passes the values one by one gets the struct parameter replaced by the fields it reads (scalar replacement; every call site passes
    # the matching fields of the struct it handed over) ---
    cur = profile(doc)
    for owner, rms in ref['methods'].items():
        for name, r in rms.items():
            c = cur['methods'].get(owner, {}).get(name)
            if not c or not r.get('params') or c['params'] == r['params'] or doc['bodies'][c['path']].get('vis') == 'pub':
                continue
            ref_tys = set(t for (_, t) in r['params'])
            for i in range(len(c['params']) - 1, -1, -1):
                ct = c['params'][i][1]
                base = ct[1:].strip() if ct.startswith('&') else ct
                base = base.split('<')[0]
                if ct in ref_tys or base not in doc['adts'] or doc['adts'][base].get('kind') != 'struct' or len(c['params']) > len(r['params']):
                    continue
                if _explode_param(doc, c['path'], i, base, ct.startswith('&')):
                    notes.append({'kind': 'parameter object', 'owner': owner, 'reference': name + '(' + ', '.join(str(p_[0]) for p_ in r['params']) + ')',
                                  'current': name + '(.., ' + str(c['params'][i][0]) + ': ' + ct.split('::')[-1] + ', ..)', 'similarity': 1.0})
    cur = profile(doc)
    for owner, rms in ref['methods'].items():
        for name, r in rms.items():
            c = cur['methods'].get(owner, {}).get(name)
            if not c or not r.get('params') or c['params'] == r['params'] or doc['bodies'][c['path']].get('vis') == 'pub':
                continue
            plan = _param_plan(r['params'], c['params'])
            if plan is None or plan == list(range(len(r['params']))):
                continue
            _apply_param_plan(doc, c['path'], plan, r['params'])
            notes.append({'kind': 'parameters', 'owner': owner, 'reference': name + '(' + ', '.join(str(p[0]) for p in r['params']) + ')',
                          'current': name + '(' + ', '.join(str(p[0]) for p in c['params']) + ')', 'similarity': 1.0})
    return doc, notes


def _aggrs(x, out):
    if isinstance(x, dict):
        if x.get('k') == 'aggr' and x.get('adt'):
            out.append(x)
        for k, v in x.items():
            if k != 'promoted':
                _aggrs(v, out)
    elif isinstance(x, list):
        for v in x:
            _aggrs(v, out)


def _flatten_group(doc, S, g, G):
    """the field `g` of struct S is a small private struct G that the reference does not know (two or more former fields of S grouped):
    S gets G's fields back in place of g — S.g.x becomes S.x in every place, an aggregate of S takes the fields of the G value it was
    given. Nothing is touched unless every use has that shape (a use of S.g as a whole, e.g. a method call on it, keeps the grouping)."""
    adts = doc['adts']
    sf = adts[S]['variants'][0]['fields']
    gf = adts[G]['variants'][0]['fields']
    fi = [f[0] for f in sf].index(g)
    pls, ags = [], []
    for b in doc['bodies'].values():
        _places(b['blocks'], pls)
        _places(b.get('debug', []), pls)
        _aggrs(b['blocks'], ags)
    for pl in pls:
        p = pl['p']
        for j, e in enumerate(p):
            if isinstance(e, dict) and e.get('adt') == S and e.get('name') == g:
                if j + 1 >= len(p) or not (isinstance(p[j + 1], dict) and p[j + 1].get('adt') == G and 'f' in p[j + 1]):
                    return False
    owner_of = {}
    for b in doc['bodies'].values():
        for blk in b['blocks']:
            for st in blk['stmts']:
                if st.get('k') == 'assign' and st['rv'].get('k') == 'aggr' and st['rv'].get('adt') == S:
                    owner_of[id(st['rv'])] = b
    for a in ags:
        if a.get('adt') != S:
            continue
        if g not in (a.get('fields') or []) or id(a) not in owner_of:
            return False
        o = a['ops'][a['fields'].index(g)]
        if not (isinstance(o, dict) and 'place' in o and not o['place']['p']):
            return False
        if (owner_of[id(a)]['locals'][o['place']['l']].get('ty') or '').split('<')[0] != G:
            return False
    # ---- apply ----
    new_sf = sf[:fi] + [list(x) for x in gf] + sf[fi + 1:]
    idx = {f[0]: i for i, f in enumerate(new_sf)}
    for pl in pls:
        p, q, j = pl['p'], [], 0
        while j < len(p):
            e = p[j]
            if isinstance(e, dict) and e.get('adt') == S and e.get('name') == g:
                n = p[j + 1]
                q.append({'f': idx[n['name']], 'name': n['name'], 'adt': S, 'ty': n.get('ty')})
                j += 2
                continue
            if isinstance(e, dict) and e.get('adt') == S and e.get('name') in idx:
                e['f'] = idx[e['name']]
            q.append(e)
            j += 1
        pl['p'] = q
    for a in ags:
        if a.get('adt') != S:
            continue
        k = a['fields'].index(g)
        tmp = a['ops'][k]['place']['l']
        a['ops'] = a['ops'][:k] + [{'c': 'copy', 'place': {'l': tmp, 'p': [{'f': i, 'name': x[0], 'adt': G, 'ty': x[1]}]}} for i, x in enumerate(gf)] + a['ops'][k + 1:]
        a['fields'] = a['fields'][:k] + [x[0] for x in gf] + a['fields'][k + 1:]
    adts[S]['variants'][0]['fields'] = new_sf
    return True


def _flatten_field_groups(doc, ref, notes):
    adts = doc['adts']
    for S, rfs in ref['fields'].items():
        if S not in adts or adts[S].get('kind') != 'struct' or not adts[S].get('variants'):
            continue
        for _ in range(4):
            sf = adts[S]['variants'][0]['fields']
            names = [f[0] for f in sf]
            missing = [m for m in rfs if m not in names]
            if not missing:
                break
            done = False
            for f in sf:
                g, gty = f[0], f[1]
                G = gty.split('<')[0]
                if g in rfs or gty.startswith(('&', '*', '(', '[')) or G not in adts or G in ref.get('adts', {}) or adts[G].get('kind') != 'struct' or not adts[G].get('variants'):
                    continue
                gf = adts[G]['variants'][0]['fields']
                if not gf or len(gf) > 6 or any(x[0] in names for x in gf):
                    continue
                if _flatten_group(doc, S, g, G):
                    notes.append({'kind': 'field group', 'owner': S, 'reference': ', '.join(missing), 'current': '%s: %s { %s }' % (g, G.split('::')[-1], ', '.join(x[0] for x in gf)), 'similarity': 1.0})
                    done = True
                    break
            if not done:
                break


def _places(x, out):
    if isinstance(x, dict):
        if 'l' in x and 'p' in x and isinstance(x['p'], list):
            out.append(x)
            return
        for k, v in x.items():
            if k != 'promoted':
                _places(v, out)
    elif isinstance(x, list):
        for v in x:
            _places(v, out)


def _explode_param(doc, path, i, S, byref):
    """replace parameter #i (0-based) of the private function `path`, a struct S (by value or by shared reference) that the body only
    reads field by field, by one parameter per field read; at every call site the argument becomes the same fields of the struct that
    was passed. Two phases: nothing is touched unless every use and every call site has the expected shape. Returns True if applied."""
    b = doc['bodies'][path]
    L = i + 1
    n_old = b['arg_count']
    sfields = doc['adts'][S]['variants'][0]['fields'] if doc['adts'][S].get('variants') else None
    if sfields is None:
        return False
    k = 1 if byref else 0
    pls = []
    _places(b['blocks'], pls)
    used = set()
    for pl in pls:
        if any(isinstance(e, dict) and e.get('idx') == L for e in pl['p']):
            return False
        if pl['l'] != L:
            continue
        if len(pl['p']) <= k or (byref and pl['p'][0] != 'deref') or not (isinstance(pl['p'][k], dict) and 'f' in pl['p'][k] and pl['p'][k].get('adt') == S):
            return False
        used.add(pl['p'][k]['f'])
    FS = sorted(used)
    # call sites
    sites = []
    for ob in doc['bodies'].values():
        for blk in ob['blocks']:
            t = blk['term']
            if t and t.get('k') == 'call' and (t.get('callee') == path or t.get('resolved') == path):
                if len(t.get('args', [])) != n_old:
                    return False
                a = t['args'][i]
                if not (isinstance(a, dict) and 'place' in a and not a['place']['p']):
                    return False
                A = a['place']['l']
                for _ in range(4):
                    defs = [st for bl2 in ob['blocks'] for st in bl2['stmts'] if st['k'] == 'assign' and st['place']['l'] == A and not st['place']['p']]
                    ty = (ob['locals'][A].get('ty') or '')
                    if not ty.startswith('&') and ty.split('<')[0] == S:
                        break
                    if len(defs) != 1:
                        return False
                    rv = defs[0]['rv']
                    if rv.get('k') == 'ref' and not rv['place']['p']:
                        A = rv['place']['l']
                    elif rv.get('k') == 'use' and isinstance(rv.get('op'), dict) and 'place' in rv['op'] and not rv['op']['place']['p']:
                        A = rv['op']['place']['l']
                    else:
                        return False
                ty = (ob['locals'][A].get('ty') or '')
                if ty.startswith('&') or ty.split('<')[0] != S:
                    return False
                sites.append((t, A))
    if not sites:
        return False
    # ---- apply ----
    shift = len(FS) - 1
    newl = lambda l: l if l < L else l + shift
    fld_local = {f: L + j for j, f in enumerate(FS)}
    for pl in pls:
        if pl['l'] == L:
            f = pl['p'][k]['f']
            pl['p'] = pl['p'][k + 1:]
            pl['l'] = fld_local[f]
        else:
            pl['l'] = newl(pl['l'])
        for e in pl['p']:
            if isinstance(e, dict) and isinstance(e.get('idx'), int):
                e['idx'] = newl(e['idx'])
    dbg = []
    for d in b.get('debug', []):
        v = d.get('v')
        if isinstance(v, dict) and 'l' in v:
            if v['l'] == L:
                continue
            v['l'] = newl(v['l'])
            for e in v.get('p', []):
                if isinstance(e, dict) and isinstance(e.get('idx'), int):
                    e['idx'] = newl(e['idx'])
        dbg.append(d)
    for f in FS:
        dbg.append({'name': sfields[f][0], 'v': {'l': fld_local[f], 'p': []}})
    b['debug'] = dbg
    b['locals'] = b['locals'][:L] + [{'ty': sfields[f][1], 'adt': None} for f in FS] + b['locals'][L + 1:]
    b['arg_count'] = n_old + shift
    for (t, A) in sites:
        mk = lambda f: {'c': 'copy', 'place': {'l': A, 'p': [{'f': f, 'name': sfields[f][0], 'adt': S, 'ty': sfields[f][1]}]}}
        t['args'] = t['args'][:i] + [mk(f) for f in FS] + t['args'][i + 1:]
        if t.get('arg_tys'):
            t['arg_tys'] = t['arg_tys'][:i] + [sfields[f][1] for f in FS] + t['arg_tys'][i + 1:]
    return True


def _param_plan(rp, cp):
    """for each reference position the index of the current parameter that plays it (None: the dropped `self` receiver), or None if
    the two lists are not the same parameters up to order / a dropped receiver"""
    if len(cp) > len(rp):
        return None
    plan = [None] * len(rp)
    used = set()
    for j, (rn, rt) in enumerate(rp):          # same name and type
        for i, (cn, ct) in enumerate(cp):
            if i not in used and cn == rn and ct == rt:
                plan[j] = i
                used.add(i)
                break
    for j, (rn, rt) in enumerate(rp):          # same type, unambiguous (a renamed parameter)
        if plan[j] is None:
            cands = [i for i, (cn, ct) in enumerate(cp) if i not in used and ct == rt]
            others = [j2 for j2, (rn2, rt2) in enumerate(rp) if plan[j2] is None and rt2 == rt]
            if len(cands) == 1 and len(others) == 1:
                plan[j] = cands[0]
                used.add(cands[0])
    if len(used) != len(cp):
        return None
    for j, (rn, rt) in enumerate(rp):
        if plan[j] is None and not (rn == 'self' and j == 0):
            return None
    return plan


def _map_locals(x, f):
    if isinstance(x, dict):
        if 'l' in x and 'p' in x and isinstance(x['p'], list):
            x['l'] = f(x['l'])
            for e in x['p']:
                if isinstance(e, dict) and 'idx' in e and isinstance(e['idx'], int):
                    e['idx'] = f(e['idx'])
            return
        for k, v in x.items():
            if k != 'promoted':
                _map_locals(v, f)
    elif isinstance(x, list):
        for v in x:
            _map_locals(v, f)


def _apply_param_plan(doc, path, plan, rp):
    b = doc['bodies'][path]
    n_cur = b['arg_count']
    n_ref = len(plan)
    shift = n_ref - n_cur
    new_index = {0: 0}
    for j, i in enumerate(plan):
        if i is not None:
            new_index[i + 1] = j + 1
    for old in range(n_cur + 1, len(b['locals'])):
        new_index[old] = old + shift
    locals_ = [None] * (len(b['locals']) + shift)
    for old, new in new_index.items():
        locals_[new] = b['locals'][old]
    for j, i in enumerate(plan):
        if i is None:
            locals_[j + 1] = {'ty': rp[j][1], 'adt': None}
            b.setdefault('debug', []).append({'name': rp[j][0], 'v': {'l': j + 1, 'p': []}})
    _map_locals(b['blocks'], lambda l: new_index[l])
    for d in b.get('debug', []):
        if isinstance(d.get('v'), dict) and 'l' in d['v'] and not (d['name'] == rp[0][0] and plan[0] is None and d['v']['l'] == 1 and d is b['debug'][-1]):
            _map_locals(d['v'], lambda l: new_index[l])
    b['locals'] = locals_
    b['arg_count'] = n_ref
    for ob in doc['bodies'].values():
        for blk in ob['blocks']:
            t = blk['term']
            if t and t.get('k') == 'call' and (t.get('callee') == path or t.get('resolved') == path) and len(t.get('args', [])) == n_cur:
                dummy = lambda j: {'const': {'ty': rp[j][1], 'dbg': 'absent receiver'}}
                t['args'] = [t['args'][i] if i is not None else dummy(j) for j, i in enumerate(plan)]
                if t.get('arg_tys'):
                    t['arg_tys'] = [t['arg_tys'][i] if i is not None else rp[j][1] for j, i in enumerate(plan)]


def _rewrite(doc, adt_map, meth_map, field_map):
    if adt_map or meth_map:
        txt = json.dumps(doc)
        for old, new in sorted(list(adt_map.items()) + list(meth_map.items()), key=lambda kv: -len(kv[0])):
            o = json.dumps(old)[1:-1]
            n = json.dumps(new)[1:-1]
            txt = re.sub(re.escape(o) + r'(?![A-Za-z0-9_])', lambda _m: n, txt)
        doc = json.loads(txt)
        for oldp, newp in meth_map.items():
            oldn, newn = oldp.rsplit('::', 1)[1], newp.rsplit('::', 1)[1]
            for k, b in doc['bodies'].items():
                if (k == newp or k.startswith(newp + '::') or b.get('root') == newp) and b.get('name') == oldn:
                    b['name'] = newn
    if field_map:
        def fx(d):
            if 'f' in d and 'name' in d and d.get('adt') and (d['adt'], d['name']) in field_map:
                d['name'] = field_map[(d['adt'], d['name'])]
            if d.get('k') == 'aggr' and d.get('adt') and d.get('fields'):
                d['fields'] = [field_map.get((d['adt'], f), f) for f in d['fields']]
        _walk(doc['bodies'], fx)
        for adt, a in doc['adts'].items():
            for v in a['variants']:
                for f in v['fields']:
                    if (adt, f[0]) in field_map:
                        f[0] = field_map[(adt, f[0])]
    return doc
