// factsdrv — MIR fact extractor for the ddo verification rules (E1 in DESIGN.md).
//
// Used as RUSTC_WORKSPACE_WRAPPER under `cargo +nightly check`: argv[1] is the real
// rustc path (dropped), the rest is the rustc command line. For the crate named by
// FACTS_CRATE (default "ddo") the type-checked program is dumped as ONE json document
// into FACTS_OUT (a single write). Every other crate is compiled untouched.
#![feature(rustc_private)]
#![allow(clippy::all)]

extern crate rustc_abi;
extern crate rustc_driver;
extern crate rustc_hir;
extern crate rustc_interface;
extern crate rustc_middle;
extern crate rustc_span;

use rustc_driver::Compilation;
use rustc_hir::def::DefKind;
use rustc_hir::def_id::{DefId, LocalDefId, LOCAL_CRATE};
use rustc_interface::interface::Compiler;
use rustc_middle::mir::{
    AggregateKind, Body, BorrowKind, Const, ConstOperand, Operand, Place, PlaceElem, PlaceTy,
    Rvalue, Statement, StatementKind, Terminator, TerminatorKind, UnwindAction,
    VarDebugInfoContents,
};
use rustc_middle::ty::{self, Ty, TyCtxt, TypingEnv};
use rustc_span::Span;
use std::fmt::Write as _;

// ---------------------------------------------------------------------------
// tiny JSON tree
// ---------------------------------------------------------------------------
enum J {
    Null,
    B(bool),
    I(i128),
    S(String),
    A(Vec<J>),
    O(Vec<(&'static str, J)>),
    M(Vec<(String, J)>),
}
fn esc(s: &str, out: &mut String) {
    out.push('"');
    for c in s.chars() {
        match c {
            '"' => out.push_str("\\\""),
            '\\' => out.push_str("\\\\"),
            '\n' => out.push_str("\\n"),
            '\r' => out.push_str("\\r"),
            '\t' => out.push_str("\\t"),
            c if (c as u32) < 0x20 => {
                let _ = write!(out, "\\u{:04x}", c as u32);
            }
            c => out.push(c),
        }
    }
    out.push('"');
}
impl J {
    fn s<T: Into<String>>(x: T) -> J {
        J::S(x.into())
    }
    fn write(&self, out: &mut String) {
        match self {
            J::Null => out.push_str("null"),
            J::B(b) => out.push_str(if *b { "true" } else { "false" }),
            J::I(i) => {
                let _ = write!(out, "{}", i);
            }
            J::S(s) => esc(s, out),
            J::A(v) => {
                out.push('[');
                for (i, x) in v.iter().enumerate() {
                    if i > 0 {
                        out.push(',');
                    }
                    x.write(out);
                }
                out.push(']');
            }
            J::O(v) => {
                out.push('{');
                for (i, (k, x)) in v.iter().enumerate() {
                    if i > 0 {
                        out.push(',');
                    }
                    esc(k, out);
                    out.push(':');
                    x.write(out);
                }
                out.push('}');
            }
            J::M(v) => {
                out.push('{');
                for (i, (k, x)) in v.iter().enumerate() {
                    if i > 0 {
                        out.push(',');
                    }
                    esc(k, out);
                    out.push(':');
                    x.write(out);
                }
                out.push('}');
            }
        }
    }
}
fn opt_s(o: Option<String>) -> J {
    match o {
        Some(s) => J::S(s),
        None => J::Null,
    }
}

// ---------------------------------------------------------------------------
// extraction
// ---------------------------------------------------------------------------
struct Cx<'tcx> {
    tcx: TyCtxt<'tcx>,
}

impl<'tcx> Cx<'tcx> {
    fn path(&self, did: DefId) -> String {
        self.tcx.def_path_str(did)
    }

    fn span(&self, sp: Span) -> J {
        let sm = self.tcx.sess.source_map();
        let outer = sp.source_callsite();
        let lo = sm.lookup_char_pos(outer.lo());
        let file = match &lo.file.name {
            rustc_span::FileName::Real(r) => match r.local_path() {
                Some(p) => p.to_string_lossy().to_string(),
                None => format!("{:?}", r),
            },
            other => format!("{:?}", other),
        };
        let mut mac = J::Null;
        if sp.from_expansion() {
            let ed = sp.ctxt().outer_expn_data();
            mac = match ed.kind {
                rustc_span::ExpnKind::Macro(_, name) => J::s(name.to_string()),
                rustc_span::ExpnKind::Desugaring(d) => J::s(format!("desugar:{:?}", d)),
                _ => J::s("expansion"),
            };
        }
        J::O(vec![
            ("file", J::s(file)),
            ("line", J::I(lo.line as i128)),
            ("col", J::I(lo.col.0 as i128 + 1)),
            ("exp", mac),
        ])
    }

    fn ty_adt(&self, t: Ty<'tcx>) -> J {
        match t.peel_refs().kind() {
            ty::Adt(adt, _) => J::s(self.path(adt.did())),
            ty::Closure(did, _) => J::s(format!("closure:{}", self.path(*did))),
            _ => J::Null,
        }
    }

    fn place(&self, body: &Body<'tcx>, p: &Place<'tcx>) -> J {
        let tcx = self.tcx;
        let mut pty = PlaceTy::from_ty(body.local_decls[p.local].ty);
        let mut projs = Vec::new();
        for elem in p.projection.iter() {
            let j = match elem {
                PlaceElem::Deref => J::s("deref"),
                PlaceElem::Field(f, fty) => {
                    let idx = f.index();
                    let mut name = format!("{}", idx);
                    let mut owner = J::Null;
                    match pty.ty.kind() {
                        ty::Adt(adt, _) => {
                            let v = match pty.variant_index {
                                Some(vi) => adt.variant(vi),
                                None => {
                                    if adt.is_enum() {
                                        adt.variant(rustc_abi::VariantIdx::from_usize(0))
                                    } else {
                                        adt.non_enum_variant()
                                    }
                                }
                            };
                            if idx < v.fields.len() {
                                name = v.fields[rustc_abi::FieldIdx::from_usize(idx)].name.to_string();
                            }
                            owner = J::s(self.path(adt.did()));
                        }
                        ty::Closure(did, _) => {
                            owner = J::s(format!("closure:{}", self.path(*did)));
                            if let Some(ldid) = did.as_local() {
                                let caps = tcx.closure_captures(ldid);
                                if idx < caps.len() {
                                    name = caps[idx].to_symbol().to_string();
                                }
                            }
                        }
                        _ => {}
                    }
                    J::O(vec![
                        ("f", J::I(idx as i128)),
                        ("name", J::s(name)),
                        ("adt", owner),
                        ("ty", J::s(fty.to_string())),
                    ])
                }
                PlaceElem::Index(l) => J::O(vec![("idx", J::I(l.index() as i128))]),
                PlaceElem::ConstantIndex { offset, from_end, .. } => J::O(vec![
                    ("cidx", J::I(offset as i128)),
                    ("from_end", J::B(from_end)),
                ]),
                PlaceElem::Subslice { from, to, from_end } => J::O(vec![
                    ("subslice", J::A(vec![J::I(from as i128), J::I(to as i128)])),
                    ("from_end", J::B(from_end)),
                ]),
                PlaceElem::Downcast(name, vi) => J::O(vec![
                    ("dc", opt_s(name.map(|n| n.to_string()))),
                    ("vi", J::I(vi.index() as i128)),
                ]),
                other => J::O(vec![("other", J::s(format!("{:?}", other)))]),
            };
            projs.push(j);
            pty = pty.projection_ty(tcx, elem);
        }
        J::O(vec![("l", J::I(p.local.index() as i128)), ("p", J::A(projs))])
    }

    fn scalar_of_const(&self, did: DefId, c: &Const<'tcx>) -> Option<i128> {
        let tcx = self.tcx;
        let env = TypingEnv::post_analysis(tcx, did);
        let ty = c.ty();
        let si = c.try_eval_scalar_int(tcx, env)?;
        let size = si.size();
        match ty.kind() {
            ty::Int(_) => Some(si.to_int(size)),
            ty::Uint(_) => Some(si.to_uint(size) as i128),
            ty::Bool => Some(si.to_uint(size) as i128),
            ty::Char => Some(si.to_uint(size) as i128),
            _ => None,
        }
    }

    fn constant(&self, owner: DefId, c: &ConstOperand<'tcx>) -> J {
        let tcx = self.tcx;
        let ty = c.const_.ty();
        let mut fields: Vec<(&'static str, J)> = vec![("ty", J::s(ty.to_string()))];
        match ty.kind() {
            ty::FnDef(did, args) => {
                fields.push(("fn", J::s(self.path(*did))));
                fields.push(("fn_full", J::s(tcx.def_path_str_with_args(*did, args))));
                return J::O(vec![("const", J::O(fields))]);
            }
            ty::Closure(did, _) => {
                fields.push(("closure", J::s(self.path(*did))));
            }
            _ => {}
        }
        match c.const_ {
            Const::Unevaluated(u, _) => {
                fields.push(("named", J::s(self.path(u.def))));
                if let Some(p) = u.promoted {
                    fields.push(("promoted", J::I(p.index() as i128)));
                }
            }
            Const::Ty(_, ct) => {
                if let ty::ConstKind::Param(p) = ct.kind() {
                    fields.push(("param", J::s(p.name.to_string())));
                }
            }
            Const::Val(..) => {}
        }
        let is_param = matches!(c.const_, Const::Ty(_, ct) if matches!(ct.kind(), ty::ConstKind::Param(_)));
        if !is_param {
            if let Some(v) = self.scalar_of_const(owner, &c.const_) {
                if ty.is_bool() {
                    fields.push(("bool", J::B(v != 0)));
                } else {
                    fields.push(("int", J::I(v)));
                }
            } else if matches!(ty.kind(), ty::Float(_)) {
                fields.push(("float", J::s(format!("{}", c.const_))));
            } else if ty.is_unit() || matches!(ty.kind(), ty::Adt(..)) {
                fields.push(("dbg", J::s(format!("{}", c.const_))));
            } else {
                fields.push(("dbg", J::s(format!("{}", c.const_))));
            }
        }
        J::O(vec![("const", J::O(fields))])
    }

    fn operand(&self, owner: DefId, body: &Body<'tcx>, op: &Operand<'tcx>) -> J {
        match op {
            Operand::Copy(p) => J::O(vec![("c", J::s("copy")), ("place", self.place(body, p))]),
            Operand::Move(p) => J::O(vec![("c", J::s("move")), ("place", self.place(body, p))]),
            Operand::Constant(c) => self.constant(owner, c),
            #[allow(unreachable_patterns)]
            other => J::O(vec![("otherop", J::s(format!("{:?}", other)))]),
        }
    }

    fn rvalue(&self, owner: DefId, body: &Body<'tcx>, rv: &Rvalue<'tcx>) -> J {
        let tcx = self.tcx;
        match rv {
            Rvalue::Use(op, ..) => J::O(vec![("k", J::s("use")), ("op", self.operand(owner, body, op))]),
            Rvalue::CopyForDeref(p) => J::O(vec![
                ("k", J::s("use")),
                ("op", J::O(vec![("c", J::s("copy")), ("place", self.place(body, p))])),
            ]),
            Rvalue::Ref(_, bk, p) => J::O(vec![
                ("k", J::s("ref")),
                ("mut", J::B(matches!(bk, BorrowKind::Mut { .. }))),
                ("place", self.place(body, p)),
            ]),
            Rvalue::RawPtr(_, p) => J::O(vec![
                ("k", J::s("rawptr")),
                ("place", self.place(body, p)),
            ]),
            Rvalue::BinaryOp(op, ab) => {
                let (a, b) = &**ab;
                J::O(vec![
                    ("k", J::s("bin")),
                    ("op", J::s(format!("{:?}", op))),
                    ("a", self.operand(owner, body, a)),
                    ("b", self.operand(owner, body, b)),
                ])
            }
            Rvalue::UnaryOp(op, a) => J::O(vec![
                ("k", J::s("un")),
                ("op", J::s(format!("{:?}", op))),
                ("a", self.operand(owner, body, a)),
            ]),
            Rvalue::Cast(kind, a, ty) => J::O(vec![
                ("k", J::s("cast")),
                ("kind", J::s(format!("{:?}", kind))),
                ("a", self.operand(owner, body, a)),
                ("ty", J::s(ty.to_string())),
            ]),
            Rvalue::Discriminant(p) => {
                let pty = p.ty(&body.local_decls, tcx).ty;
                let mut adt_j = J::Null;
                let mut vars = Vec::new();
                if let ty::Adt(adt, _) = pty.kind() {
                    adt_j = J::s(self.path(adt.did()));
                    if adt.is_enum() {
                        for (vi, d) in adt.discriminants(tcx) {
                            // sign-extend according to the discriminant type
                            let dty = d.ty;
                            let val: i128 = match dty.kind() {
                                ty::Int(it) => {
                                    let bits = it.bit_width().unwrap_or(64) as u32;
                                    let shift = 128 - bits;
                                    ((d.val << shift) as i128) >> shift
                                }
                                _ => d.val as i128,
                            };
                            vars.push(J::A(vec![J::s(adt.variant(vi).name.to_string()), J::I(val)]));
                        }
                    }
                }
                J::O(vec![
                    ("k", J::s("discr")),
                    ("place", self.place(body, p)),
                    ("adt", adt_j),
                    ("variants", J::A(vars)),
                ])
            }
            Rvalue::Repeat(op, n) => J::O(vec![
                ("k", J::s("repeat")),
                ("op", self.operand(owner, body, op)),
                ("n", J::s(format!("{}", n))),
            ]),
            Rvalue::Aggregate(kind, ops) => {
                let opsj: Vec<J> = ops.iter().map(|o| self.operand(owner, body, o)).collect();
                match &**kind {
                    AggregateKind::Adt(did, vi, _, _, active) => {
                        let adt = tcx.adt_def(*did);
                        let v = adt.variant(*vi);
                        let names: Vec<J> = if let Some(a) = active {
                            vec![J::s(v.fields[*a].name.to_string())]
                        } else {
                            v.fields.iter().map(|f| J::s(f.name.to_string())).collect()
                        };
                        J::O(vec![
                            ("k", J::s("aggr")),
                            ("adt", J::s(self.path(*did))),
                            ("variant", J::s(v.name.to_string())),
                            ("vi", J::I(vi.index() as i128)),
                            ("fields", J::A(names)),
                            ("ops", J::A(opsj)),
                        ])
                    }
                    AggregateKind::Closure(did, _) => J::O(vec![
                        ("k", J::s("aggr")),
                        ("closure", J::s(self.path(*did))),
                        ("ops", J::A(opsj)),
                    ]),
                    AggregateKind::Tuple => J::O(vec![
                        ("k", J::s("aggr")),
                        ("tuple", J::B(true)),
                        ("ops", J::A(opsj)),
                    ]),
                    AggregateKind::Array(_) => J::O(vec![
                        ("k", J::s("aggr")),
                        ("array", J::B(true)),
                        ("ops", J::A(opsj)),
                    ]),
                    other => J::O(vec![
                        ("k", J::s("aggr")),
                        ("otherkind", J::s(format!("{:?}", other))),
                        ("ops", J::A(opsj)),
                    ]),
                }
            }
            other => J::O(vec![("k", J::s("other")), ("dbg", J::s(format!("{:?}", other)))]),
        }
    }

    fn statement(&self, owner: DefId, body: &Body<'tcx>, st: &Statement<'tcx>) -> Option<J> {
        match &st.kind {
            StatementKind::Assign(b) => {
                let (p, rv) = &**b;
                Some(J::O(vec![
                    ("k", J::s("assign")),
                    ("place", self.place(body, p)),
                    ("rv", self.rvalue(owner, body, rv)),
                    ("span", self.span(st.source_info.span)),
                ]))
            }
            StatementKind::SetDiscriminant { place, variant_index } => Some(J::O(vec![
                ("k", J::s("setdiscr")),
                ("place", self.place(body, place)),
                ("vi", J::I(variant_index.index() as i128)),
                ("span", self.span(st.source_info.span)),
            ])),
            _ => None,
        }
    }

    fn unwind(&self, u: &UnwindAction) -> J {
        match u {
            UnwindAction::Cleanup(bb) => J::I(bb.index() as i128),
            _ => J::Null,
        }
    }

    fn terminator(&self, owner: DefId, body: &Body<'tcx>, t: &Terminator<'tcx>) -> J {
        let tcx = self.tcx;
        let sp = self.span(t.source_info.span);
        match &t.kind {
            TerminatorKind::Goto { target } => J::O(vec![
                ("k", J::s("goto")),
                ("target", J::I(target.index() as i128)),
                ("span", sp),
            ]),
            TerminatorKind::SwitchInt { discr, targets } => {
                let mut tv = Vec::new();
                let dty = discr.ty(&body.local_decls, tcx);
                for (v, bb) in targets.iter() {
                    // sign-extend for signed discriminants
                    let val: i128 = match dty.kind() {
                        ty::Int(it) => {
                            let bits = it.bit_width().unwrap_or(64) as u32;
                            let shift = 128 - bits;
                            ((v << shift) as i128) >> shift
                        }
                        _ => v as i128,
                    };
                    tv.push(J::A(vec![J::I(val), J::I(bb.index() as i128)]));
                }
                J::O(vec![
                    ("k", J::s("switch")),
                    ("discr", self.operand(owner, body, discr)),
                    ("dty", J::s(dty.to_string())),
                    ("targets", J::A(tv)),
                    ("otherwise", J::I(targets.otherwise().index() as i128)),
                    ("span", sp),
                ])
            }
            TerminatorKind::Return => J::O(vec![("k", J::s("return")), ("span", sp)]),
            TerminatorKind::Unreachable => J::O(vec![("k", J::s("unreachable")), ("span", sp)]),
            TerminatorKind::UnwindResume => J::O(vec![("k", J::s("resume")), ("span", sp)]),
            TerminatorKind::UnwindTerminate(_) => J::O(vec![("k", J::s("terminate")), ("span", sp)]),
            TerminatorKind::Drop { place, target, unwind, .. } => J::O(vec![
                ("k", J::s("drop")),
                ("place", self.place(body, place)),
                ("target", J::I(target.index() as i128)),
                ("unwind", self.unwind(unwind)),
                ("span", sp),
            ]),
            TerminatorKind::Assert { cond, expected, msg, target, unwind } => J::O(vec![
                ("k", J::s("assert")),
                ("cond", self.operand(owner, body, cond)),
                ("expected", J::B(*expected)),
                ("msg", J::s(format!("{:?}", msg))),
                ("target", J::I(target.index() as i128)),
                ("unwind", self.unwind(unwind)),
                ("span", sp),
            ]),
            TerminatorKind::Call { func, args, destination, target, unwind, .. } => {
                let mut f: Vec<(&'static str, J)> = vec![("k", J::s("call"))];
                let fty = func.ty(&body.local_decls, tcx);
                let mut callee = J::Null;
                let mut callee_full = J::Null;
                let mut trait_j = J::Null;
                let mut self_ty = J::Null;
                let mut self_adt = J::Null;
                let mut resolved = J::Null;
                let mut closure_arg = J::Null;
                if let ty::FnDef(did, gargs) = fty.kind() {
                    callee = J::s(self.path(*did));
                    callee_full = J::s(tcx.def_path_str_with_args(*did, gargs));
                    if let Some(tr) = tcx.trait_of_assoc(*did) {
                        trait_j = J::s(self.path(tr));
                        if gargs.len() > 0 {
                            if let Some(st) = gargs[0].as_type() {
                                self_ty = J::s(st.to_string());
                                self_adt = self.ty_adt(st);
                                if let ty::Closure(cd, _) = st.peel_refs().kind() {
                                    closure_arg = J::s(self.path(*cd));
                                }
                            }
                        }
                    } else if let Some(imp) = tcx.impl_of_assoc(*did) {
                        let st = tcx.type_of(imp).instantiate_identity().skip_norm_wip();
                        self_ty = J::s(st.to_string());
                        self_adt = self.ty_adt(st);
                    }
                    let env = TypingEnv::post_analysis(tcx, owner);
                    if let Ok(Some(inst)) = ty::Instance::try_resolve(tcx, env, *did, gargs) {
                        let rd = inst.def_id();
                        if rd != *did {
                            resolved = J::s(self.path(rd));
                        }
                    }
                }
                f.push(("callee", callee));
                f.push(("callee_full", callee_full));
                f.push(("trait", trait_j));
                f.push(("self_ty", self_ty));
                f.push(("self_adt", self_adt));
                f.push(("resolved", resolved));
                f.push(("closure_self", closure_arg));
                if !matches!(fty.kind(), ty::FnDef(..)) {
                    f.push(("func", self.operand(owner, body, func)));
                }
                f.push((
                    "args",
                    J::A(args.iter().map(|a| self.operand(owner, body, &a.node)).collect()),
                ));
                f.push((
                    "arg_tys",
                    J::A(args.iter().map(|a| J::s(a.node.ty(&body.local_decls, tcx).to_string())).collect()),
                ));
                f.push(("dest", self.place(body, destination)));
                f.push(("target", match target {
                    Some(bb) => J::I(bb.index() as i128),
                    None => J::Null,
                }));
                f.push(("unwind", self.unwind(unwind)));
                f.push(("span", sp));
                J::O(f)
            }
            TerminatorKind::FalseEdge { real_target, .. } => J::O(vec![
                ("k", J::s("goto")),
                ("target", J::I(real_target.index() as i128)),
                ("span", sp),
            ]),
            TerminatorKind::FalseUnwind { real_target, .. } => J::O(vec![
                ("k", J::s("goto")),
                ("target", J::I(real_target.index() as i128)),
                ("span", sp),
            ]),
            other => J::O(vec![
                ("k", J::s("otherterm")),
                ("dbg", J::s(format!("{:?}", other))),
                ("span", sp),
            ]),
        }
    }

    fn body_json(&self, owner: DefId, body: &Body<'tcx>) -> Vec<(&'static str, J)> {
        let mut locals = Vec::new();
        for (_, d) in body.local_decls.iter_enumerated() {
            locals.push(J::O(vec![
                ("ty", J::s(d.ty.to_string())),
                ("adt", self.ty_adt(d.ty)),
            ]));
        }
        let mut dbg = Vec::new();
        for v in body.var_debug_info.iter() {
            let val = match &v.value {
                VarDebugInfoContents::Place(p) => self.place(body, p),
                VarDebugInfoContents::Const(c) => self.constant(owner, c),
            };
            dbg.push(J::O(vec![("name", J::s(v.name.to_string())), ("v", val)]));
        }
        let mut blocks = Vec::new();
        for (_, bbd) in body.basic_blocks.iter_enumerated() {
            let mut stmts = Vec::new();
            for st in bbd.statements.iter() {
                if let Some(j) = self.statement(owner, body, st) {
                    stmts.push(j);
                }
            }
            let term = match &bbd.terminator {
                Some(t) => self.terminator(owner, body, t),
                None => J::Null,
            };
            blocks.push(J::O(vec![
                ("cleanup", J::B(bbd.is_cleanup)),
                ("stmts", J::A(stmts)),
                ("term", term),
            ]));
        }
        vec![
            ("arg_count", J::I(body.arg_count as i128)),
            ("locals", J::A(locals)),
            ("debug", J::A(dbg)),
            ("blocks", J::A(blocks)),
        ]
    }

    fn body_entry(&self, ldid: LocalDefId) -> Option<(String, J)> {
        let tcx = self.tcx;
        let did = ldid.to_def_id();
        let kind = tcx.def_kind(did);
        let kind_s = match kind {
            DefKind::Fn => "fn",
            DefKind::AssocFn => "method",
            DefKind::Closure => "closure",
            _ => return None,
        };
        if !tcx.is_mir_available(did) {
            return None;
        }
        let body = tcx.optimized_mir(did);
        let mut f = self.body_json(did, body);
        f.insert(0, ("kind", J::s(kind_s)));
        f.insert(1, ("name", J::s(tcx.item_name(if kind == DefKind::Closure { tcx.typeck_root_def_id(did) } else { did }).to_string())));
        // parent body (closures)
        let parent = if kind == DefKind::Closure {
            J::s(self.path(tcx.parent(did)))
        } else {
            J::Null
        };
        f.push(("parent", parent));
        // impl / trait context
        let mut impl_self_adt = J::Null;
        let mut impl_self_ty = J::Null;
        let mut impl_trait = J::Null;
        let mut trait_default = J::Null;
        let mut vis = J::Null;
        if matches!(kind, DefKind::Fn | DefKind::AssocFn) {
            vis = J::s(if tcx.visibility(did).is_public() { "pub" } else { "restricted" });
        }
        let root = tcx.typeck_root_def_id(did);
        if tcx.def_kind(root) == DefKind::AssocFn {
            if let Some(imp) = tcx.impl_of_assoc(root) {
                let st = tcx.type_of(imp).instantiate_identity().skip_norm_wip();
                impl_self_ty = J::s(st.to_string());
                impl_self_adt = self.ty_adt(st);
                if let Some(tr) = tcx.impl_opt_trait_ref(imp) {
                    impl_trait = J::s(self.path(tr.skip_binder().def_id));
                }
            } else if let Some(tr) = tcx.trait_of_assoc(root) {
                trait_default = J::s(self.path(tr));
            }
        }
        f.push(("vis", vis));
        f.push(("impl_self_ty", impl_self_ty));
        f.push(("impl_self_adt", impl_self_adt));
        f.push(("impl_trait", impl_trait));
        f.push(("trait_default", trait_default));
        f.push(("root", J::s(self.path(root))));
        f.push(("span", self.span(tcx.def_span(did))));
        // captures
        if kind == DefKind::Closure {
            let caps = tcx.closure_captures(ldid);
            let mut cj = Vec::new();
            for (i, c) in caps.iter().enumerate() {
                cj.push(J::O(vec![
                    ("upvar", J::I(i as i128)),
                    ("var", J::s(c.to_symbol().to_string())),
                    ("by", J::s(format!("{:?}", c.info.capture_kind))),
                    ("place", J::s(format!("{:?}", c.place.projections.iter().map(|p| format!("{:?}", p.kind)).collect::<Vec<_>>()))),
                ]));
            }
            f.push(("captures", J::A(cj)));
        }
        // promoted
        let promoted = tcx.promoted_mir(did);
        let mut pj = Vec::new();
        for (_, pb) in promoted.iter_enumerated() {
            pj.push(J::O(self.body_json(did, pb)));
        }
        f.push(("promoted", J::A(pj)));
        Some((self.path(did), J::O(f)))
    }

    fn adts(&self) -> J {
        let tcx = self.tcx;
        let mut out = Vec::new();
        for ldid in tcx.hir_crate_items(()).definitions() {
            let did = ldid.to_def_id();
            let kind = tcx.def_kind(did);
            if !matches!(kind, DefKind::Struct | DefKind::Enum) {
                continue;
            }
            let adt = tcx.adt_def(did);
            let mut variants = Vec::new();
            let discrs: Vec<i128> = if adt.is_enum() {
                adt.discriminants(tcx).map(|(_, d)| d.val as i128).collect()
            } else {
                vec![0]
            };
            for (i, v) in adt.variants().iter().enumerate() {
                let mut fields = Vec::new();
                for fd in v.fields.iter() {
                    let fty = tcx.type_of(fd.did).instantiate_identity().skip_norm_wip();
                    fields.push(J::A(vec![J::s(fd.name.to_string()), J::s(fty.to_string()), self.ty_adt(fty)]));
                }
                variants.push(J::O(vec![
                    ("name", J::s(v.name.to_string())),
                    ("discr", J::I(*discrs.get(i).unwrap_or(&(i as i128)))),
                    ("fields", J::A(fields)),
                ]));
            }
            out.push((
                self.path(did),
                J::O(vec![
                    ("kind", J::s(if adt.is_enum() { "enum" } else { "struct" })),
                    ("variants", J::A(variants)),
                    ("span", self.span(tcx.def_span(did))),
                ]),
            ));
        }
        J::M(out)
    }

    fn impls(&self) -> J {
        let tcx = self.tcx;
        let mut out = Vec::new();
        for ldid in tcx.hir_crate_items(()).definitions() {
            let did = ldid.to_def_id();
            if !matches!(tcx.def_kind(did), DefKind::Impl { .. }) {
                continue;
            }
            let st = tcx.type_of(did).instantiate_identity().skip_norm_wip();
            let tr = tcx.impl_opt_trait_ref(did).map(|t| self.path(t.skip_binder().def_id));
            let tr_full = tcx.impl_opt_trait_ref(did).map(|t| format!("{:?}", t.skip_binder()));
            let mut items = Vec::new();
            for it in tcx.associated_item_def_ids(did) {
                items.push((tcx.item_name(*it).to_string(), J::s(self.path(*it))));
            }
            out.push(J::O(vec![
                ("trait", opt_s(tr)),
                ("trait_full", opt_s(tr_full)),
                ("self_ty", J::s(st.to_string())),
                ("self_adt", self.ty_adt(st)),
                ("auto_derived", J::B(tcx.is_automatically_derived(did))),
                ("items", J::M(items)),
                ("span", self.span(tcx.def_span(did))),
            ]));
        }
        J::A(out)
    }

    fn traits(&self) -> J {
        let tcx = self.tcx;
        let mut out = Vec::new();
        for ldid in tcx.hir_crate_items(()).definitions() {
            let did = ldid.to_def_id();
            if !matches!(tcx.def_kind(did), DefKind::Trait) {
                continue;
            }
            let mut items = Vec::new();
            for it in tcx.associated_item_def_ids(did) {
                let has_default = tcx.def_kind(*it) == DefKind::AssocFn && tcx.is_mir_available(*it);
                items.push((tcx.item_name(*it).to_string(), J::O(vec![
                    ("path", J::s(self.path(*it))),
                    ("default", J::B(has_default)),
                ])));
            }
            out.push((self.path(did), J::M(items)));
        }
        J::M(out)
    }

    fn consts(&self) -> J {
        let tcx = self.tcx;
        let mut out = Vec::new();
        for ldid in tcx.hir_crate_items(()).definitions() {
            let did = ldid.to_def_id();
            let kind = tcx.def_kind(did);
            let is_const = matches!(kind, DefKind::Const { .. }) || matches!(kind, DefKind::AssocConst { .. });
            if !is_const {
                continue;
            }
            // only consts without generic parameters of their own / of their parent can be evaluated polymorphically
            let ty = tcx.type_of(did).instantiate_identity().skip_norm_wip();
            if !(ty.is_integral() || ty.is_bool()) {
                // a structured constant (e.g. a named result value): its initialiser body, so that a use of the name can be
                // read as the aggregate it stands for
                if tcx.is_mir_available(did) || matches!(kind, DefKind::Const { .. }) {
                    let body = tcx.mir_for_ctfe(did);
                    out.push((self.path(did), J::O(vec![("ty", J::s(ty.to_string())), ("body", J::O(self.body_json(did, body)))])));
                }
                continue;
            }
            if let Ok(val) = tcx.const_eval_poly(did) {
                if let Some(sc) = val.try_to_scalar_int() {
                    let size = sc.size();
                    let v: i128 = match ty.kind() {
                        ty::Int(_) => sc.to_int(size),
                        _ => sc.to_uint(size) as i128,
                    };
                    out.push((self.path(did), J::O(vec![("ty", J::s(ty.to_string())), ("int", J::I(v))])));
                }
            }
        }
        J::M(out)
    }
}

struct Cb {
    out: String,
    nonce: String,
    config: String,
}

impl rustc_driver::Callbacks for Cb {
    fn after_analysis<'tcx>(&mut self, _c: &Compiler, tcx: TyCtxt<'tcx>) -> Compilation {
        let cx = Cx { tcx };
        let mut bodies = Vec::new();
        for ldid in tcx.hir_body_owners() {
            if let Some(e) = cx.body_entry(ldid) {
                bodies.push(e);
            }
        }
        let doc = J::O(vec![
            ("nonce", J::s(self.nonce.clone())),
            ("config", J::s(self.config.clone())),
            ("crate", J::s(tcx.crate_name(LOCAL_CRATE).to_string())),
            ("adts", cx.adts()),
            ("impls", cx.impls()),
            ("traits", cx.traits()),
            ("consts", cx.consts()),
            ("bodies", J::M(bodies)),
        ]);
        let mut s = String::with_capacity(32 << 20);
        doc.write(&mut s);
        std::fs::write(&self.out, s).expect("cannot write facts");
        Compilation::Continue
    }
}

struct Nop;
impl rustc_driver::Callbacks for Nop {}

fn main() -> std::process::ExitCode {
    let mut args: Vec<String> = std::env::args().collect();
    // RUSTC_WORKSPACE_WRAPPER: argv[1] is the path of the real rustc
    if args.len() > 1 && (args[1].ends_with("rustc") || args[1].contains("/rustc")) {
        args.remove(1);
    }
    let target_crate = std::env::var("FACTS_CRATE").unwrap_or_else(|_| "ddo".to_string());
    let mut crate_name = None;
    let mut crate_type_lib = false;
    let mut i = 0;
    while i < args.len() {
        if args[i] == "--crate-name" && i + 1 < args.len() {
            crate_name = Some(args[i + 1].clone());
        }
        if args[i] == "--crate-type" && i + 1 < args.len() && args[i + 1].contains("lib") {
            crate_type_lib = true;
        }
        i += 1;
    }
    let is_target = crate_name.as_deref() == Some(target_crate.as_str()) && crate_type_lib;
    let code = rustc_driver::catch_with_exit_code(|| {
        if is_target {
            let out = std::env::var("FACTS_OUT").expect("FACTS_OUT not set");
            let nonce = std::env::var("FACTS_NONCE").unwrap_or_default();
            let config = std::env::var("FACTS_CONFIG").unwrap_or_else(|_| "dev".into());
            let mut cb = Cb { out, nonce, config };
            rustc_driver::run_compiler(&args, &mut cb);
        } else {
            rustc_driver::run_compiler(&args, &mut Nop);
        }
    });
    code
}
