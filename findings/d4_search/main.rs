//! Random search for terminating-but-wrong answers of the caching pooled
//! solvers on long-arc knapsack instances.
//!
//! usage: inv-search [nb_instances] [first_seed] [limit_opened] [mode]
//!   mode = "all" (default) | "min" (only sequential + par(1), used by the minimiser)
use std::cmp::Ordering;
use std::sync::atomic::{AtomicUsize, Ordering::SeqCst};

use ddo::*;

#[derive(Clone, Debug)]
pub struct Kp { pub cap: usize, pub w: Vec<usize>, pub p: Vec<isize> }

impl Problem for Kp {
    type State = usize;
    fn nb_variables(&self) -> usize { self.w.len() }
    fn initial_state(&self) -> usize { self.cap }
    fn initial_value(&self) -> isize { 0 }
    fn transition(&self, s: &usize, d: Decision) -> usize { s - self.w[d.variable.id()] * d.value as usize }
    fn transition_cost(&self, _: &usize, _: &usize, d: Decision) -> isize { self.p[d.variable.id()] * d.value }
    fn next_variable(&self, depth: usize, _: &mut dyn Iterator<Item = &usize>) -> Option<Variable> {
        if depth < self.nb_variables() { Some(Variable(depth)) } else { None }
    }
    fn for_each_in_domain(&self, variable: Variable, s: &usize, f: &mut dyn DecisionCallback) {
        if self.w[variable.id()] <= *s { f.apply(Decision { variable, value: 1 }); }
        f.apply(Decision { variable, value: 0 });
    }
    fn is_impacted_by(&self, var: Variable, s: &usize) -> bool { self.w[var.id()] <= *s }
}

pub struct KpRelax;
impl Relaxation for KpRelax {
    type State = usize;
    fn merge(&self, states: &mut dyn Iterator<Item = &usize>) -> usize { states.copied().max().unwrap() }
    fn relax(&self, _: &usize, _: &usize, _: &usize, _: Decision, cost: isize) -> isize { cost }
}
pub struct KpRank;
impl StateRanking for KpRank {
    type State = usize;
    fn compare(&self, a: &usize, b: &usize) -> Ordering { a.cmp(b) }
}

/// counts the sub-problems opened by the solver and trips the cutoff
pub struct Budget { opened: AtomicUsize, limit: usize, width: usize }
impl Budget { pub fn new(width: usize, limit: usize) -> Self { Budget { opened: AtomicUsize::new(0), limit, width } } }
impl WidthHeuristic<usize> for Budget {
    fn max_width(&self, _: &SubProblem<usize>) -> usize { self.opened.fetch_add(1, SeqCst); self.width }
}
impl Cutoff for Budget {
    fn must_stop(&self) -> bool { self.opened.load(SeqCst) > self.limit }
}

pub fn brute(pb: &Kp) -> isize {
    let n = pb.w.len();
    let mut best = 0;
    for m in 0u32..(1 << n) {
        let (mut w, mut p) = (0, 0);
        for i in 0..n { if m >> i & 1 == 1 { w += pb.w[i]; p += pb.p[i]; } }
        if w <= pb.cap { best = best.max(p); }
    }
    best
}

/// default-completes the (possibly partial) solution and evaluates it
pub fn evaluate(pb: &Kp, sol: &[Decision]) -> Result<isize, String> {
    let mut x = vec![None; pb.w.len()];
    for d in sol {
        if x[d.variable.id()].is_some() { return Err(format!("variable {} assigned twice", d.variable.id())); }
        x[d.variable.id()] = Some(d.value);
    }
    let (mut w, mut p) = (0, 0);
    for (i, v) in x.iter().enumerate() {
        let v = v.unwrap_or(0);
        if v != 0 && v != 1 { return Err(format!("bad value {v}")); }
        w += pb.w[i] * v as usize; p += pb.p[i] * v;
    }
    if w > pb.cap { return Err(format!("weight {w} exceeds capacity {}", pb.cap)); }
    Ok(p)
}

#[derive(Debug, Clone, PartialEq, Eq)]
pub enum Outcome { Cutoff, Ok, Wrong(String) }

fn judge(pb: &Kp, expected: isize, c: Completion, sol: Option<Solution>) -> Outcome {
    if !c.is_exact { return Outcome::Cutoff; }
    if c.best_value != Some(expected) {
        return Outcome::Wrong(format!("value {:?} expected {}", c.best_value, expected));
    }
    match sol {
        None => Outcome::Wrong("no solution".to_string()),
        Some(sol) => match evaluate(pb, &sol) {
            Ok(v) if Some(v) == c.best_value => Outcome::Ok,
            Ok(v) => Outcome::Wrong(format!("solution worth {v} not {:?}", c.best_value)),
            Err(e) => Outcome::Wrong(format!("infeasible: {e}")),
        },
    }
}

pub const SOLVERS: [&str; 12] = [
    "seq  cache pooled simple", // 0
    "seq  cache pooled nodup ", // 1
    "par1 cache pooled simple", // 2
    "par1 cache pooled nodup ", // 3
    "par2 cache pooled simple", // 4
    "par2 cache pooled nodup ", // 5
    "seq  NOcache pooled simple", // 6  (control)
    "seq  NOcache pooled nodup ", // 7  (control)
    "par1 NOcache pooled simple", // 8  (control)
    "seq  cache LEL simple",      // 9  (control)
    "seq  cache LEL nodup ",      // 10 (control)
    "par1 cache LEL nodup ",      // 11 (control)
];

pub fn run_solver(k: usize, pb: &Kp, width: usize, limit: usize) -> Outcome {
    let expected = brute(pb);
    let dom = EmptyDominanceChecker::default();
    let b = Budget::new(width, limit);
    let mut simple = SimpleFringe::new(MaxUB::new(&KpRank));
    let mut nodup = NoDupFringe::new(MaxUB::new(&KpRank));
    macro_rules! go { ($s:expr) => {{ let mut s = $s; let c = s.maximize(); judge(pb, expected, c, s.best_solution()) }}; }
    match k {
        0 => go!(SeqCachingSolverPooled::new(pb, &KpRelax, &KpRank, &b, &dom, &b, &mut simple)),
        1 => go!(SeqCachingSolverPooled::new(pb, &KpRelax, &KpRank, &b, &dom, &b, &mut nodup)),
        2 => go!(ParCachingSolverPooled::custom(pb, &KpRelax, &KpRank, &b, &dom, &b, &mut simple, 1)),
        3 => go!(ParCachingSolverPooled::custom(pb, &KpRelax, &KpRank, &b, &dom, &b, &mut nodup, 1)),
        4 => go!(ParCachingSolverPooled::custom(pb, &KpRelax, &KpRank, &b, &dom, &b, &mut simple, 2)),
        5 => go!(ParCachingSolverPooled::custom(pb, &KpRelax, &KpRank, &b, &dom, &b, &mut nodup, 2)),
        6 => go!(SeqNoCachingSolverPooled::new(pb, &KpRelax, &KpRank, &b, &dom, &b, &mut simple)),
        7 => go!(SeqNoCachingSolverPooled::new(pb, &KpRelax, &KpRank, &b, &dom, &b, &mut nodup)),
        8 => go!(ParNoCachingSolverPooled::custom(pb, &KpRelax, &KpRank, &b, &dom, &b, &mut simple, 1)),
        9 => go!(SeqCachingSolverLel::new(pb, &KpRelax, &KpRank, &b, &dom, &b, &mut simple)),
        10 => go!(SeqCachingSolverLel::new(pb, &KpRelax, &KpRank, &b, &dom, &b, &mut nodup)),
        11 => go!(ParCachingSolverLel::custom(pb, &KpRelax, &KpRank, &b, &dom, &b, &mut nodup, 1)),
        _ => unreachable!(),
    }
}

struct Rng(u64);
impl Rng {
    fn next(&mut self, m: u64) -> u64 {
        self.0 ^= self.0 << 13; self.0 ^= self.0 >> 7; self.0 ^= self.0 << 17;
        (self.0 >> 11) % m
    }
}

pub fn gen(seed: u64) -> Kp {
    let mut r = Rng(seed.wrapping_mul(0x9E3779B97F4A7C15) ^ 0x2545F4914F6CDD1D);
    for _ in 0..4 { r.next(2); }
    let n = 5 + r.next(5) as usize;           // 5..9
    let cap = 10 + r.next(31) as usize;       // 10..40
    let style = r.next(3);
    let mut w = vec![];
    for _ in 0..n {
        let k = r.next(10);
        let wi = if k < 2 {
            cap + 1 + r.next(6) as usize             // heavier than the sack
        } else if k < 5 {
            cap / 2 + 1 + r.next((cap / 2) as u64) as usize  // above typical residual capacity
        } else {
            let hi = match style { 0 => cap / 2, 1 => cap / 3, _ => 10 }.max(2);
            1 + r.next(hi as u64) as usize
        };
        w.push(wi);
    }
    let p: Vec<isize> = (0..n).map(|_| 1 + r.next(30) as isize).collect();
    Kp { cap, w, p }
}

/// exhaustive enumeration of tiny instances, smallest first
fn enumerate(k: usize, width: usize, maxn: usize, maxcap: usize, maxp: isize, limit: usize) {
    for n in 2..=maxn {
        for cap in 1..=maxcap {
            let wmax = cap + 1;
            let mut found = 0;
            let nw = (wmax as u64).pow(n as u32);
            let np = (maxp as u64).pow(n as u32);
            for wi in 0..nw {
                let mut w = vec![]; let mut x = wi;
                for _ in 0..n { w.push(1 + (x % wmax as u64) as usize); x /= wmax as u64; }
                for pi in 0..np {
                    let mut p = vec![]; let mut x = pi;
                    for _ in 0..n { p.push(1 + (x % maxp as u64) as isize); x /= maxp as u64; }
                    let pb = Kp { cap, w: w.clone(), p };
                    if let Outcome::Wrong(msg) = run_solver(k, &pb, width, limit) {
                        found += 1;
                        if found <= 20 {
                            println!("WRONG n={n} cap={cap} w={:?} p={:?} width={width} solver={} : {msg}", pb.w, pb.p, SOLVERS[k]);
                        }
                    }
                }
            }
            println!("n={n} cap={cap}: {found} wrong");
            if found > 0 { return; }
        }
    }
}

fn main() {
    let args: Vec<String> = std::env::args().collect();
    if args.get(1).map(|s| s.as_str()) == Some("enum") {
        let k: usize = args[2].parse().unwrap();
        let width: usize = args[3].parse().unwrap();
        let maxn: usize = args[4].parse().unwrap();
        let maxcap: usize = args[5].parse().unwrap();
        let maxp: isize = args[6].parse().unwrap();
        enumerate(k, width, maxn, maxcap, maxp, 2000);
        return;
    }
    if args.get(1).map(|s| s.as_str()) == Some("one") {
        let seed: u64 = args[2].parse().unwrap();
        let width: usize = args[3].parse().unwrap();
        let k: usize = args[4].parse().unwrap();
        let pb = gen(seed);
        println!("seed={seed} width={width} solver={} cap={} w={:?} p={:?} expected={} -> {:?}", SOLVERS[k], pb.cap, pb.w, pb.p, brute(&pb), run_solver(k, &pb, width, 2000));
        return;
    }
    let nb: u64 = args.get(1).map(|s| s.parse().unwrap()).unwrap_or(1000);
    let first: u64 = args.get(2).map(|s| s.parse().unwrap()).unwrap_or(1);
    let limit: usize = args.get(3).map(|s| s.parse().unwrap()).unwrap_or(5000);
    let mode = args.get(4).cloned().unwrap_or_else(|| "all".to_string());
    let solvers: Vec<usize> = if mode == "min" { vec![0, 1, 2, 3] } else { (0..SOLVERS.len()).collect() };

    let mut runs = vec![0usize; SOLVERS.len()];
    let mut cut = vec![0usize; SOLVERS.len()];
    let mut wrong = vec![0usize; SOLVERS.len()];
    for seed in first..first + nb {
        let pb = gen(seed);
        for width in [1usize, 2, 3] {
            for &k in &solvers {
                runs[k] += 1;
                match run_solver(k, &pb, width, limit) {
                    Outcome::Ok => {}
                    Outcome::Cutoff => cut[k] += 1,
                    Outcome::Wrong(msg) => {
                        wrong[k] += 1;
                        println!("WRONG seed={seed} width={width} solver=[{k}] {} : {msg} | cap={} w={:?} p={:?}",
                                 SOLVERS[k], pb.cap, pb.w, pb.p);
                    }
                }
            }
        }
    }
    println!("--- summary over {nb} instances (seeds {first}..{}), widths 1,2,3, limit {limit} opened sub-problems", first + nb - 1);
    for &k in &solvers {
        println!("[{k:2}] {:28} runs={:6} cutoff(skipped)={:6} wrong={:6}", SOLVERS[k], runs[k], cut[k], wrong[k]);
    }
}
