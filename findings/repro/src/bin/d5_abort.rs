use ddo::*; use scratch::*;
use std::sync::atomic::{AtomicUsize, Ordering};
struct CountCut { polls: AtomicUsize, k: usize }
impl Cutoff for CountCut { fn must_stop(&self) -> bool { self.polls.fetch_add(1, Ordering::SeqCst) + 1 >= self.k } }
fn main(){
    let p = knap(); let r = KRelax(&p); let rk = KRank; let w = FixedWidth(2); let dom = EmptyDominanceChecker::default();
    for threads in [1usize, 2, 4] { for k in [1usize, 5, 15, 40, 100] {
        let c = CountCut{polls:AtomicUsize::new(0), k};
        let mut fr = SimpleFringe::new(MaxUB::new(&rk));
        let mut s = ParNoCachingSolverLel::custom(&p,&r,&rk,&w,&dom,&c,&mut fr,threads);
        let out = s.maximize();
        let (lb, ub) = (s.best_lower_bound(), s.best_upper_bound());
        let flag = if !(lb <= 40 && 40 <= ub) { "  <-- UNSOUND (opt=40)" } else {""};
        println!("threads={threads} k={k} {:?} lb={lb} ub={ub}{flag}", out);
    }}
}
