use ddo::*;
struct S(isize,isize);
impl Solver for S {
    fn maximize(&mut self) -> Completion { unimplemented!() }
    fn best_value(&self) -> Option<isize> { None }
    fn best_solution(&self) -> Option<Solution> { None }
    fn best_lower_bound(&self) -> isize { self.0 }
    fn best_upper_bound(&self) -> isize { self.1 }
    fn set_primal(&mut self, _: isize, _: Solution) {}
    fn explored(&self) -> usize { 0 }
}
fn main(){
    for (l,u) in [(0,0),(-5,5),(-5,-5),(-10,-5),(0,5),(-5,0),(3,7), (isize::MIN+1, isize::MAX-1)] {
        println!("lb={l} ub={u} gap={}", S(l,u).gap());
    }
}
