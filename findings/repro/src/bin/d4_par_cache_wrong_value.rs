//! Deterministic reproduction: the caching parallel solver (run with ONE thread)
//! on the Pooled diagram terminates with is_exact = true and a value below the
//! optimum on a 4-item long-arc knapsack, width 1.
//!
//! usage: inv-repro [solver] [width]
//!   solver: par1 (default) | par1-nodup | seq | seq-nodup | seq-nocache | par1-nocache | par1-lel | seq-lel
use std::cmp::Ordering;
use std::sync::atomic::{AtomicUsize, Ordering::SeqCst};

use ddo::*;

struct Kp { cap: usize, w: Vec<usize>, p: Vec<isize> }

impl Problem for Kp {
    type State = usize; // remaining capacity
    fn nb_variables(&self) -> usize { self.w.len() }
    fn initial_state(&self) -> usize { self.cap }
    fn initial_value(&self) -> isize { 0 }
    fn transition(&self, s: &usize, d: Decision) -> usize { s - self.w[d.variable.id()] * d.value as usize }
    fn transition_cost(&self, _: &usize, _: &usize, d: Decision) -> isize { self.p[d.variable.id()] * d.value }
    fn next_variable(&self, depth: usize, _: &mut dyn Iterator<Item = &usize>) -> Option<Variable> {
        if depth < self.nb_variables() { Some(Variable(depth)) } else { None }
    }
    fn for_each_in_domain(&self, variable: Variable, s: &usize, f: &mut dyn DecisionCallback) {
        if self.w[variable.id()] <= *s { f.apply(Decision { variable, value: 1 }); }
        f.apply(Decision { variable, value: 0 });
    }
    /// long arcs: an item that does not fit is irrelevant for the state
    fn is_impacted_by(&self, var: Variable, s: &usize) -> bool { self.w[var.id()] <= *s }
}

struct KpRelax;
impl Relaxation for KpRelax {
    type State = usize;
    fn merge(&self, states: &mut dyn Iterator<Item = &usize>) -> usize { states.copied().max().unwrap() }
    fn relax(&self, _: &usize, _: &usize, _: &usize, _: Decision, cost: isize) -> isize { cost }
}
struct KpRank;
impl StateRanking for KpRank {
    type State = usize;
    fn compare(&self, a: &usize, b: &usize) -> Ordering { a.cmp(b) }
}

/// width heuristic + cutoff: stops runs that open an absurd number of sub-problems
struct Budget { opened: AtomicUsize, limit: usize, width: usize }
impl WidthHeuristic<usize> for Budget {
    fn max_width(&self, _: &SubProblem<usize>) -> usize { self.opened.fetch_add(1, SeqCst); self.width }
}
impl Cutoff for Budget {
    fn must_stop(&self) -> bool { self.opened.load(SeqCst) > self.limit }
}

fn brute(pb: &Kp) -> isize {
    let n = pb.w.len();
    let mut best = 0;
    for m in 0u32..(1 << n) {
        let (mut w, mut p) = (0, 0);
        for i in 0..n { if m >> i & 1 == 1 { w += pb.w[i]; p += pb.p[i]; } }
        if w <= pb.cap { best = best.max(p); }
    }
    best
}

fn main() {
    let args: Vec<String> = std::env::args().collect();
    let solver = args.get(1).cloned().unwrap_or_else(|| "par1".to_string());
    let width: usize = args.get(2).map(|s| s.parse().unwrap()).unwrap_or(1);

    let pb = Kp { cap: 4, w: vec![2, 3, 1, 1], p: vec![1, 2, 2, 2] };
    let expected = brute(&pb);
    println!("knapsack: capacity {}  weights {:?}  profits {:?}  (is_impacted_by(var, s) = w[var] <= s)", pb.cap, pb.w, pb.p);
    println!("solver {solver}, max width {width}");
    println!("expected optimum (brute force): {expected}");

    let dom = EmptyDominanceChecker::default();
    let b = Budget { opened: AtomicUsize::new(0), limit: 10_000, width };
    let mut simple = SimpleFringe::new(MaxUB::new(&KpRank));
    let mut nodup = NoDupFringe::new(MaxUB::new(&KpRank));
    macro_rules! go { ($s:expr) => {{ let mut s = $s; let c = s.maximize(); (c, s.best_solution()) }}; }
    let (c, sol) = match solver.as_str() {
        "par1"         => go!(ParCachingSolverPooled::custom(&pb, &KpRelax, &KpRank, &b, &dom, &b, &mut simple, 1)),
        "par1-nodup"   => go!(ParCachingSolverPooled::custom(&pb, &KpRelax, &KpRank, &b, &dom, &b, &mut nodup, 1)),
        "seq"          => go!(SeqCachingSolverPooled::new(&pb, &KpRelax, &KpRank, &b, &dom, &b, &mut simple)),
        "seq-nodup"    => go!(SeqCachingSolverPooled::new(&pb, &KpRelax, &KpRank, &b, &dom, &b, &mut nodup)),
        "seq-nocache"  => go!(SeqNoCachingSolverPooled::new(&pb, &KpRelax, &KpRank, &b, &dom, &b, &mut simple)),
        "par1-nocache" => go!(ParNoCachingSolverPooled::custom(&pb, &KpRelax, &KpRank, &b, &dom, &b, &mut simple, 1)),
        "par1-lel"     => go!(ParCachingSolverLel::custom(&pb, &KpRelax, &KpRank, &b, &dom, &b, &mut simple, 1)),
        "seq-lel"      => go!(SeqCachingSolverLel::new(&pb, &KpRelax, &KpRank, &b, &dom, &b, &mut simple)),
        other => panic!("unknown solver {other}"),
    };
    println!("obtained: is_exact = {}, best_value = {:?}, solution = {:?}, sub-problems opened = {}",
        c.is_exact, c.best_value,
        sol.map(|s| s.iter().map(|d| (d.variable.id(), d.value)).collect::<Vec<_>>()),
        b.opened.load(SeqCst));
    if !c.is_exact {
        println!("INCONCLUSIVE: cutoff (the solver did not terminate within the budget)");
        std::process::exit(2);
    }
    if c.best_value != Some(expected) {
        println!("MISMATCH: the solver claims optimality of {:?} but the optimum is {expected}", c.best_value);
        std::process::exit(1);
    }
    println!("OK");
}
