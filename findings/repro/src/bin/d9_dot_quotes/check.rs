//! Shared helper for the C20 demonstrations: a small DOT parser (checks the
//! syntactic well-formedness of the output of `as_graphviz`), a reference
//! "brute force" compilation of a decision diagram written against the PUBLIC
//! `Problem` / `Relaxation` / `StateRanking` traits only, and a comparison of
//! what is drawn with that reference.
#![allow(dead_code)]

use std::collections::BTreeMap;
use std::fmt::Debug;

use ddo::{CompilationType, Decision, Problem, Relaxation, StateRanking, SubProblem, Variable};

// ---------------------------------------------------------------------------
// DOT lexer + parser (the subset of the DOT grammar that matters here, which
// is nearly all of it: graph attrs, node stmts, edge stmts, subgraphs)
// ---------------------------------------------------------------------------
#[derive(Debug, Clone, PartialEq)]
pub enum Tok {
    Id(String),
    Str(String),
    Arrow,
    LBrace,
    RBrace,
    LBrack,
    RBrack,
    Eq,
    Semi,
    Comma,
}

pub fn tokenize(s: &str) -> Result<Vec<Tok>, String> {
    let cs: Vec<char> = s.chars().collect();
    let mut i = 0;
    let mut out = vec![];
    while i < cs.len() {
        let c = cs[i];
        if c.is_whitespace() {
            i += 1;
            continue;
        }
        match c {
            '{' => { out.push(Tok::LBrace); i += 1; }
            '}' => { out.push(Tok::RBrace); i += 1; }
            '[' => { out.push(Tok::LBrack); i += 1; }
            ']' => { out.push(Tok::RBrack); i += 1; }
            '=' => { out.push(Tok::Eq); i += 1; }
            ';' => { out.push(Tok::Semi); i += 1; }
            ',' => { out.push(Tok::Comma); i += 1; }
            '"' => {
                let mut j = i + 1;
                let mut content = String::new();
                let mut closed = false;
                while j < cs.len() {
                    if cs[j] == '\\' && j + 1 < cs.len() {
                        content.push(cs[j]);
                        content.push(cs[j + 1]);
                        j += 2;
                    } else if cs[j] == '"' {
                        closed = true;
                        j += 1;
                        break;
                    } else {
                        content.push(cs[j]);
                        j += 1;
                    }
                }
                if !closed {
                    return Err(format!("unterminated quoted string starting at char {i}"));
                }
                out.push(Tok::Str(content));
                i = j;
            }
            '-' if i + 1 < cs.len() && cs[i + 1] == '>' => { out.push(Tok::Arrow); i += 2; }
            _ if c.is_ascii_digit() || c == '-' || c == '.' => {
                let mut j = i;
                if cs[j] == '-' { j += 1; }
                let start_digits = j;
                while j < cs.len() && (cs[j].is_ascii_digit() || cs[j] == '.') { j += 1; }
                if j == start_digits {
                    return Err(format!("stray '-' at char {i}"));
                }
                if j < cs.len() && (cs[j].is_alphabetic() || cs[j] == '_') {
                    return Err(format!("malformed numeral at char {i}"));
                }
                out.push(Tok::Id(cs[i..j].iter().collect()));
                i = j;
            }
            _ if c.is_alphabetic() || c == '_' => {
                let mut j = i;
                while j < cs.len() && (cs[j].is_alphanumeric() || cs[j] == '_') { j += 1; }
                out.push(Tok::Id(cs[i..j].iter().collect()));
                i = j;
            }
            _ => return Err(format!("unexpected character {c:?} at char {i}")),
        }
    }
    Ok(out)
}

#[derive(Debug, Clone)]
pub enum Stmt {
    Node { id: String, attrs: Vec<(String, String)>, has_attrs: bool, sub: Option<String> },
    Edge { from: String, to: String, attrs: Vec<(String, String)> },
    Attr { key: String, value: String },
}

struct Parser { toks: Vec<Tok>, pos: usize, stmts: Vec<Stmt> }
impl Parser {
    fn peek(&self) -> Option<&Tok> { self.toks.get(self.pos) }
    fn next(&mut self) -> Option<Tok> { let t = self.toks.get(self.pos).cloned(); self.pos += 1; t }
    fn expect(&mut self, t: Tok) -> Result<(), String> {
        match self.next() {
            Some(ref x) if *x == t => Ok(()),
            other => Err(format!("expected {t:?} but found {other:?} (token #{})", self.pos - 1)),
        }
    }
    fn id(&mut self) -> Result<String, String> {
        match self.next() {
            Some(Tok::Id(s)) | Some(Tok::Str(s)) => Ok(s),
            other => Err(format!("expected an ID but found {other:?} (token #{})", self.pos - 1)),
        }
    }
    fn attr_list(&mut self) -> Result<(Vec<(String, String)>, bool), String> {
        let mut attrs = vec![];
        let mut any = false;
        while self.peek() == Some(&Tok::LBrack) {
            any = true;
            self.next();
            while self.peek() != Some(&Tok::RBrack) {
                let k = self.id()?;
                self.expect(Tok::Eq)?;
                let v = self.id()?;
                attrs.push((k, v));
                if matches!(self.peek(), Some(Tok::Semi) | Some(Tok::Comma)) { self.next(); }
            }
            self.expect(Tok::RBrack)?;
        }
        Ok((attrs, any))
    }
    fn stmt_list(&mut self, sub: Option<String>) -> Result<(), String> {
        loop {
            match self.peek() {
                None => return Err("unexpected end of input (missing '}')".to_string()),
                Some(Tok::RBrace) => return Ok(()),
                Some(Tok::LBrace) => {
                    self.next();
                    self.stmt_list(Some(String::new()))?;
                    self.expect(Tok::RBrace)?;
                }
                Some(Tok::Id(k)) if k == "subgraph" => {
                    self.next();
                    let name = if self.peek() != Some(&Tok::LBrace) { self.id()? } else { String::new() };
                    self.expect(Tok::LBrace)?;
                    self.stmt_list(Some(name))?;
                    self.expect(Tok::RBrace)?;
                }
                _ => {
                    let first = self.id()?;
                    match self.peek() {
                        Some(Tok::Eq) => {
                            self.next();
                            let v = self.id()?;
                            self.stmts.push(Stmt::Attr { key: first, value: v });
                        }
                        Some(Tok::Arrow) => {
                            let mut chain = vec![first];
                            while self.peek() == Some(&Tok::Arrow) {
                                self.next();
                                chain.push(self.id()?);
                            }
                            let (attrs, _) = self.attr_list()?;
                            for w in chain.windows(2) {
                                self.stmts.push(Stmt::Edge { from: w[0].clone(), to: w[1].clone(), attrs: attrs.clone() });
                            }
                        }
                        _ => {
                            let (attrs, has_attrs) = self.attr_list()?;
                            self.stmts.push(Stmt::Node { id: first, attrs, has_attrs, sub: sub.clone() });
                        }
                    }
                }
            }
            if self.peek() == Some(&Tok::Semi) { self.next(); }
        }
    }
}

/// Parses a complete DOT digraph. Err(_) means: not syntactically well formed.
pub fn parse_dot(s: &str) -> Result<Vec<Stmt>, String> {
    let toks = tokenize(s)?;
    let mut p = Parser { toks, pos: 0, stmts: vec![] };
    match p.next() {
        Some(Tok::Id(ref k)) if k == "digraph" => {}
        other => return Err(format!("expected 'digraph' but found {other:?}")),
    }
    if p.peek() != Some(&Tok::LBrace) { p.id()?; }
    p.expect(Tok::LBrace)?;
    p.stmt_list(None)?;
    p.expect(Tok::RBrace)?;
    if p.pos != p.toks.len() {
        return Err(format!("trailing tokens after the closing brace: {:?}", &p.toks[p.pos..]));
    }
    Ok(p.stmts)
}

// ---------------------------------------------------------------------------
// What has been drawn
// ---------------------------------------------------------------------------
#[derive(Debug, Default)]
pub struct Drawn {
    /// dot id -> the state labels of all its declarations (should be exactly one)
    pub decl: BTreeMap<String, Vec<String>>,
    /// (from id, to id, variable, value, cost)
    pub edges: Vec<(String, String, usize, isize, isize)>,
    pub terminal_decl: usize,
    pub terminal_edges: Vec<String>,
    pub cluster_members: Vec<String>,
}

fn attr<'a>(attrs: &'a [(String, String)], k: &str) -> Option<&'a str> {
    attrs.iter().find(|(a, _)| a == k).map(|(_, v)| v.as_str())
}

/// label looks like `(x3 = -4)\ncost = 12` (with a literal backslash-n)
fn parse_edge_label(l: &str) -> Result<(usize, isize, isize), String> {
    let err = || format!("unintelligible edge label {l:?}");
    let rest = l.strip_prefix("(x").ok_or_else(err)?;
    let (var, rest) = rest.split_once(" = ").ok_or_else(err)?;
    let (val, rest) = rest.split_once(")\\ncost = ").ok_or_else(err)?;
    Ok((var.parse().map_err(|_| err())?, val.parse().map_err(|_| err())?, rest.parse().map_err(|_| err())?))
}

pub fn drawn(stmts: &[Stmt]) -> Result<Drawn, String> {
    let mut d = Drawn::default();
    for s in stmts {
        match s {
            Stmt::Attr { .. } => {}
            Stmt::Node { id, attrs, has_attrs, sub } => {
                if id == "terminal" {
                    d.terminal_decl += 1;
                } else if !*has_attrs && sub.is_some() {
                    d.cluster_members.push(id.clone());
                } else {
                    let label = attr(attrs, "label").unwrap_or("");
                    // DOT semantics of a double-quoted string: \" stands for a quote (and \\ for a backslash)
                    let state = label.split("\\n").next().unwrap_or("").replace("\\\"", "\"").replace("\\\\", "\\");
                    d.decl.entry(id.clone()).or_default().push(state);
                }
            }
            Stmt::Edge { from, to, attrs } => {
                if to == "terminal" {
                    d.terminal_edges.push(from.clone());
                } else {
                    let label = attr(attrs, "label").ok_or_else(|| format!("edge {from}->{to} without label"))?;
                    let (var, val, cost) = parse_edge_label(label)?;
                    d.edges.push((from.clone(), to.clone(), var, val, cost));
                }
            }
        }
    }
    Ok(d)
}

// ---------------------------------------------------------------------------
// Reference diagram (brute force enumeration through the public traits)
// ---------------------------------------------------------------------------
#[derive(Debug, Clone)]
pub struct RefNode { pub label: String, pub deleted: bool, pub merged: bool }
#[derive(Debug, Clone, Default)]
pub struct RefDD {
    pub nodes: Vec<RefNode>,
    /// (from, to, variable, value, cost)
    pub arcs: Vec<(usize, usize, usize, isize, isize)>,
    pub last_layer: Vec<usize>,
}

struct N<S> { state: S, value: isize, deleted: bool, merged: bool }

/// Enumerates, layer by layer, the decision diagram that a top-down compilation
/// has to produce (no rough-upper-bound pruning, no cache, no dominance).
/// The demo problems never have ties in the (value, ranking) order so that the
/// outcome of restriction / relaxation is uniquely defined.
pub fn reference<P, R, K>(pb: &P, rlx: &R, rank: &K, ty: CompilationType, width: usize, root: &SubProblem<P::State>) -> RefDD
where
    P: Problem,
    P::State: Debug + Clone + Eq,
    R: Relaxation<State = P::State>,
    K: StateRanking<State = P::State>,
{
    let mut nodes: Vec<N<P::State>> = vec![N { state: (*root.state).clone(), value: root.value, deleted: false, merged: false }];
    let mut arcs: Vec<(usize, usize, usize, isize, isize)> = vec![];
    let mut layer: Vec<usize> = vec![0];
    let mut depth = root.depth;
    let mut layer_idx = 0usize;
    loop {
        let var: Variable = match pb.next_variable(depth, &mut layer.iter().map(|i| &nodes[*i].state)) {
            Some(v) => v,
            None => break,
        };
        if layer.is_empty() { break; }
        let mut alive = layer.clone();
        let squash = alive.len() > width
            && match ty {
                CompilationType::Exact => false,
                CompilationType::Restricted => true,
                CompilationType::Relaxed => layer_idx >= 2,
            };
        if squash {
            alive.sort_by(|a, b| {
                nodes[*a].value.cmp(&nodes[*b].value)
                    .then_with(|| rank.compare(&nodes[*a].state, &nodes[*b].state))
                    .reverse()
            });
            for w in alive.windows(2) {
                let tie = nodes[w[0]].value == nodes[w[1]].value
                    && rank.compare(&nodes[w[0]].state, &nodes[w[1]].state) == std::cmp::Ordering::Equal;
                assert!(!tie, "demo problem must not have ties");
            }
            if ty == CompilationType::Restricted {
                for d in alive.drain(width..) { nodes[d].deleted = true; }
            } else {
                let rest: Vec<usize> = alive.drain(width - 1..).collect();
                let merged = rlx.merge(&mut rest.iter().map(|i| &nodes[*i].state));
                assert!(alive.iter().all(|i| nodes[*i].state != merged), "demo must not recycle a kept node");
                let mid = nodes.len();
                nodes.push(N { state: merged.clone(), value: isize::MIN, deleted: false, merged: true });
                for d in rest {
                    nodes[d].deleted = true;
                    let inbound: Vec<_> = arcs.iter().filter(|a| a.1 == d).copied().collect();
                    for (from, to, v, val, cost) in inbound {
                        let dec = Decision { variable: Variable(v), value: val };
                        let rc = rlx.relax(&nodes[from].state, &nodes[to].state, &merged, dec, cost);
                        arcs.push((from, mid, v, val, rc));
                        let value = nodes[from].value.saturating_add(rc);
                        if value > nodes[mid].value { nodes[mid].value = value; }
                    }
                }
                alive.push(mid);
            }
        }
        let mut next: Vec<usize> = vec![];
        for &n in alive.iter() {
            let mut decisions = vec![];
            pb.for_each_in_domain(var, &nodes[n].state, &mut |d: Decision| decisions.push(d));
            for d in decisions {
                let dst = pb.transition(&nodes[n].state, d);
                let cost = pb.transition_cost(&nodes[n].state, &dst, d);
                let value = nodes[n].value.saturating_add(cost);
                let id = match next.iter().find(|i| nodes[**i].state == dst) {
                    Some(i) => *i,
                    None => {
                        nodes.push(N { state: dst, value: isize::MIN, deleted: false, merged: false });
                        next.push(nodes.len() - 1);
                        nodes.len() - 1
                    }
                };
                if value > nodes[id].value { nodes[id].value = value; }
                arcs.push((n, id, d.variable.id(), d.value, cost));
            }
        }
        layer = next;
        depth += 1;
        layer_idx += 1;
    }
    RefDD {
        nodes: nodes.iter().map(|n| RefNode { label: format!("{:?}", n.state), deleted: n.deleted, merged: n.merged }).collect(),
        arcs,
        last_layer: layer,
    }
}

// ---------------------------------------------------------------------------
// The property
// ---------------------------------------------------------------------------
fn multiset<T: Ord + Clone>(it: impl Iterator<Item = T>) -> BTreeMap<T, usize> {
    let mut m = BTreeMap::new();
    for x in it { *m.entry(x).or_insert(0) += 1; }
    m
}

/// Returns the list of violations of property C20 (empty = property holds).
/// All node labels of the reference must be pairwise distinct (the demo
/// problems store the depth in the state) so that drawn nodes are identified
/// by their label.
pub fn check(dot: &str, r: &RefDD, show_deleted: bool) -> Vec<String> {
    let mut v = vec![];
    let stmts = match parse_dot(dot) {
        Ok(s) => s,
        Err(e) => return vec![format!("not a well-formed DOT digraph: {e}")],
    };
    let d = match drawn(&stmts) {
        Ok(d) => d,
        Err(e) => return vec![format!("unintelligible drawing: {e}")],
    };
    {
        let labels = multiset(r.nodes.iter().map(|n| n.label.clone()));
        assert!(labels.values().all(|c| *c == 1), "reference labels must be unique");
    }
    // -- every node that is not hidden appears exactly once -------------------
    for (id, decls) in d.decl.iter() {
        if decls.len() != 1 {
            v.push(format!("node id {id} is declared {} times", decls.len()));
        }
    }
    let expected = multiset(r.nodes.iter().filter(|n| show_deleted || !n.deleted).map(|n| n.label.clone()));
    let hidden = multiset(r.nodes.iter().filter(|n| !show_deleted && n.deleted).map(|n| n.label.clone()));
    let got = multiset(d.decl.values().flat_map(|l| l.iter().cloned()));
    for (l, c) in expected.iter() {
        let g = got.get(l).copied().unwrap_or(0);
        if g != *c { v.push(format!("node {l} which is not hidden appears {g} time(s) instead of exactly once")); }
    }
    for (l, c) in got.iter() {
        if !expected.contains_key(l) {
            if hidden.contains_key(l) {
                v.push(format!("node {l} must be hidden by the configuration but appears {c} time(s)"));
            } else {
                v.push(format!("node {l} is drawn {c} time(s) but does not exist in the diagram"));
            }
        }
    }
    // -- edges ----------------------------------------------------------------
    let label_of = |id: &String| d.decl.get(id).and_then(|l| l.first()).cloned();
    let ref_arcs = multiset(r.arcs.iter().map(|a| (r.nodes[a.0].label.clone(), r.nodes[a.1].label.clone(), a.2, a.3, a.4)));
    let mut drawn_arcs = vec![];
    for (from, to, var, val, cost) in d.edges.iter() {
        match (label_of(from), label_of(to)) {
            (Some(f), Some(t)) => drawn_arcs.push((f, t, *var, *val, *cost)),
            _ => {
                // an endpoint which is not declared: only tolerated when it can be a hidden node
                let nb_hidden: usize = hidden.values().sum();
                if nb_hidden == 0 {
                    v.push(format!("edge {from} -> {to} has an endpoint which is neither declared nor hidden"));
                }
            }
        }
    }
    let drawn_arcs = multiset(drawn_arcs.into_iter());
    for (a, c) in drawn_arcs.iter() {
        let e = ref_arcs.get(a).copied().unwrap_or(0);
        if *c > e {
            v.push(format!("edge {} -> {} labelled (x{} = {}) cost {} is drawn {c} time(s) but the diagram has {e} such arc(s)", a.0, a.1, a.2, a.3, a.4));
        }
    }
    for (a, e) in ref_arcs.iter() {
        let visible = expected.contains_key(&a.0) && expected.contains_key(&a.1);
        let c = drawn_arcs.get(a).copied().unwrap_or(0);
        if visible && c < *e {
            v.push(format!("arc {} -> {} labelled (x{} = {}) cost {} between two visible nodes is drawn {c} time(s) instead of {e}", a.0, a.1, a.2, a.3, a.4));
        }
    }
    // -- clusters ---------------------------------------------------------------
    for m in d.cluster_members.iter() {
        if !d.decl.contains_key(m) { v.push(format!("cluster member {m} is not a declared node")); }
    }
    // -- terminal ---------------------------------------------------------------
    let want_terminal = !r.last_layer.is_empty();
    if want_terminal && d.terminal_decl != 1 {
        v.push(format!("the last layer is not empty but the terminal node is declared {} time(s)", d.terminal_decl));
    }
    if !want_terminal && (d.terminal_decl != 0 || !d.terminal_edges.is_empty()) {
        v.push(format!("the last layer is empty but a terminal node is drawn ({} declaration(s), {} edge(s))", d.terminal_decl, d.terminal_edges.len()));
    }
    if want_terminal {
        let want = multiset(r.last_layer.iter().map(|i| r.nodes[*i].label.clone()));
        let got = multiset(d.terminal_edges.iter().map(|id| label_of(id).unwrap_or_else(|| format!("<undeclared {id}>"))));
        if want != got {
            v.push(format!("edges to the terminal come from {got:?} but the last layer is {want:?}"));
        }
    }
    v
}
