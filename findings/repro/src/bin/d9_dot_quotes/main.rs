//! C20 / UNMODIFIED tree: the label of a node is `format!("{state:?}")` pasted
//! verbatim between double quotes. Any state whose Debug form holds a double
//! quote (a String, a &str, a struct or enum with a string field, ... with the
//! DERIVED Debug) therefore yields a DOT text which is not well formed.
//!
//! Secondary observation (arguably outside of the property, which speaks of
//! compiled diagrams): as_graphviz panics on a diagram that was never compiled
//! and on a diagram whose compilation was cut off before the first layer.
mod check;

use std::sync::Arc;
use std::cmp::Ordering;

use ddo::*;
use check::*;

#[derive(Debug, Clone, PartialEq, Eq, Hash)]
struct St { depth: usize, name: String }

struct Words { n: usize }
impl Problem for Words {
    type State = St;
    fn nb_variables(&self) -> usize { self.n }
    fn initial_state(&self) -> St { St { depth: 0, name: String::new() } }
    fn initial_value(&self) -> isize { 0 }
    fn transition(&self, s: &St, d: Decision) -> St {
        St { depth: s.depth + 1, name: format!("{}{}", s.name, if d.value == 0 { 'a' } else { 'b' }) }
    }
    fn transition_cost(&self, _: &St, _: &St, d: Decision) -> isize { d.value }
    fn next_variable(&self, depth: usize, _: &mut dyn Iterator<Item = &St>) -> Option<Variable> {
        if depth < self.n { Some(Variable(depth)) } else { None }
    }
    fn for_each_in_domain(&self, var: Variable, _: &St, f: &mut dyn DecisionCallback) {
        for value in 0..2 { f.apply(Decision { variable: var, value }) }
    }
}
struct Rlx;
impl Relaxation for Rlx {
    type State = St;
    fn merge(&self, s: &mut dyn Iterator<Item = &St>) -> St {
        let mut depth = 0; let mut name = String::from("M");
        for x in s { depth = x.depth; name.push_str(&x.name); }
        St { depth, name }
    }
    fn relax(&self, _: &St, _: &St, _: &St, _: Decision, cost: isize) -> isize { cost }
}
struct Rank;
impl StateRanking for Rank {
    type State = St;
    fn compare(&self, a: &St, b: &St) -> Ordering { a.name.cmp(&b.name) }
}
struct Always;
impl Cutoff for Always { fn must_stop(&self) -> bool { true } }

fn main() {
    std::panic::set_hook(Box::new(|info| { println!("  (panic: {})", info.to_string().replace('\n', " ")); }));
    let mut failures = vec![];
    let mut remarks = vec![];
    let cache = EmptyCache::new();
    let dominance = EmptyDominanceChecker::default();
    let pb = Words { n: 2 };
    let residual = SubProblem { state: Arc::new(pb.initial_state()), value: 0, path: vec![], ub: isize::MAX, depth: 0 };
    let cfg = VizConfigBuilder::default().build().unwrap();

    // 1. a state with a String inside (derived Debug): the drawing is not well formed
    {
        let input = CompilationInput {
            comp_type: CompilationType::Exact, problem: &pb, relaxation: &Rlx, ranking: &Rank, cutoff: &NoCutoff,
            max_width: 10, residual: &residual, best_lb: isize::MIN, cache: &cache, dominance: &dominance,
        };
        let reference = reference(&pb, &Rlx, &Rank, CompilationType::Exact, 10, &residual);
        let mut mdd = DefaultMDDLEL::<St>::new();
        mdd.compile(&input).expect("no cutoff");
        let dot = mdd.as_graphviz(&cfg);
        println!("--- what as_graphviz returned (first lines) ---");
        for l in dot.lines().take(6) { println!("{l}"); }
        println!("-----------------------------------------------");
        for v in check(&dot, &reference, cfg.show_deleted) { failures.push(format!("Mdd, exact, String in the state: {v}")); }

        let mut pooled = Pooled::<St>::new();
        pooled.compile(&input).expect("no cutoff");
        for v in check(&pooled.as_graphviz(&cfg), &reference, cfg.show_deleted) { failures.push(format!("Pooled, exact, String in the state: {v}")); }
    }
    // 2. (remark only) never compiled / cut off diagrams
    {
        let mdd = DefaultMDDLEL::<St>::new();
        if std::panic::catch_unwind(std::panic::AssertUnwindSafe(|| mdd.as_graphviz(&cfg))).is_err() {
            remarks.push("as_graphviz panics on a diagram that was never compiled (Mdd)");
        }
        let input = CompilationInput {
            comp_type: CompilationType::Exact, problem: &pb, relaxation: &Rlx, ranking: &Rank, cutoff: &Always,
            max_width: 10, residual: &residual, best_lb: isize::MIN, cache: &cache, dominance: &dominance,
        };
        let mut mdd = DefaultMDDLEL::<St>::new();
        assert!(mdd.compile(&input).is_err());
        if std::panic::catch_unwind(std::panic::AssertUnwindSafe(|| mdd.as_graphviz(&cfg))).is_err() {
            remarks.push("as_graphviz panics on a diagram whose compilation was cut off at once (Mdd)");
        }
        let mut pooled = Pooled::<St>::new();
        assert!(pooled.compile(&input).is_err());
        if std::panic::catch_unwind(std::panic::AssertUnwindSafe(|| pooled.as_graphviz(&cfg))).is_err() {
            remarks.push("as_graphviz panics on a diagram whose compilation was cut off at once (Pooled)");
        }
    }
    for r in remarks { println!("  remark: {r}"); }

    if failures.is_empty() {
        println!("PASS");
    } else {
        for f in failures.iter().take(12) { println!("  violation: {f}"); }
        println!("FAIL ({} violations)", failures.len());
        std::process::exit(1);
    }
}
