// D7 — scripted 2-worker schedule: worker A (sub-problem with the larger ub, containing the optimum 29) FINISHES its node and
// publishes lb = 29; only then is worker B cut off on its sub-problem (ub 21, popped while lb was still below 21).
// abort_search records max(own ub, in-flight bounds, fringe top) = 21 and never looks at the incumbent: ub = 21 < lb = 29 = optimum.
use ddo::*;
use std::sync::atomic::{AtomicBool, Ordering::SeqCst};
use std::cell::Cell;
use std::time::Duration;
thread_local!{ static ROLE: Cell<u8> = Cell::new(0); } // 1 = A (f=0 subtree, opt 29), 2 = B (f=1 subtree, ub 21)
static A_READY: AtomicBool = AtomicBool::new(false);
static STOP: AtomicBool = AtomicBool::new(false);
static B_STARTED: AtomicBool = AtomicBool::new(false);
#[derive(Debug, Clone, Copy, PartialEq, Eq, Hash)]
struct St { depth: usize, f: u8 } // f: first decision (0/1), 2 = unknown (merged), 3 = root
struct P;
fn cost(var: usize, f: u8, d: isize) -> isize {
    match (var, f, d) {
        (0, _, 1) => 10, (0, _, 0) => 9,
        (1, 1, _) => 1,  (1, 0, _) => 10, (1, _, _) => 10,
        (2, 1, _) => 1,  (2, 0, _) => 10, (2, _, _) => 10,
        _ => 0 }
}
impl Problem for P {
    type State = St;
    fn nb_variables(&self) -> usize { 3 }
    fn initial_state(&self) -> St { St{depth:0, f:3} }
    fn initial_value(&self) -> isize { 0 }
    fn transition(&self, s: &St, d: Decision) -> St { St{depth: s.depth+1, f: if s.depth==0 { d.value as u8 } else { s.f }} }
    fn transition_cost(&self, s: &St, _: &St, d: Decision) -> isize { cost(s.depth, s.f, d.value) }
    fn next_variable(&self, depth: usize, _: &mut dyn Iterator<Item=&St>) -> Option<Variable> { if depth < 3 {Some(Variable(depth))} else {None} }
    fn for_each_in_domain(&self, v: Variable, s: &St, f: &mut dyn DecisionCallback) {
        if v.id()==1 && ROLE.with(|r| r.get())==1 {
            // A does not finish before B has popped its own sub-problem (ub 21, while the incumbent is still below 21)
            while !B_STARTED.load(SeqCst) { std::thread::sleep(Duration::from_millis(1)); }
        }
        if v.id()==2 && ROLE.with(|r| r.get())==1 {
            // worker A is expanding its last layer: it will finish, publish its value and release its node without any further poll
            A_READY.store(true, SeqCst);
        }
        f.apply(Decision{variable:v, value:1}); f.apply(Decision{variable:v, value:0});
    }
}
struct R; impl Relaxation for R { type State=St;
    fn merge(&self, s:&mut dyn Iterator<Item=&St>)->St{ let mut d=0; for x in s { d=x.depth; } St{depth:d, f:2} }
    fn relax(&self,_:&St,_:&St,_:&St,_:Decision,c:isize)->isize{c} }
struct Rk; impl StateRanking for Rk { type State=St; fn compare(&self,a:&St,b:&St)->std::cmp::Ordering{a.f.cmp(&b.f)} }
struct W; impl WidthHeuristic<St> for W { fn max_width(&self, s:&SubProblem<St>)->usize{ ROLE.with(|r| r.set(if s.path.is_empty() {0} else if s.state.f==0 {1} else {2})); if !s.path.is_empty() && s.state.f==1 { B_STARTED.store(true, SeqCst); } if s.path.is_empty() {1} else {1000} } }
struct Cut; impl Cutoff for Cut { fn must_stop(&self)->bool {
    if STOP.load(SeqCst) { return true; }
    if ROLE.with(|r| r.get())==2 { // B's second poll (role is set while expanding its first layer)
        while !A_READY.load(SeqCst) { std::thread::sleep(Duration::from_millis(1)); }
        std::thread::sleep(Duration::from_millis(400)); // A has finished its node (value 29 published, in-flight slot released)
        STOP.store(true, SeqCst); return true; }
    false } }
fn main(){
    let dom = EmptyDominanceChecker::default();
    let mut fr = SimpleFringe::new(MaxUB::new(&Rk));
    let mut s = ParNoCachingSolverLel::custom(&P,&R,&Rk,&W,&dom,&Cut,&mut fr,2);
    let out = s.maximize();
    let (lb,ub)=(s.best_lower_bound(), s.best_upper_bound());
    println!("{:?} lb={lb} ub={ub} (true optimum = 29){}", out, if !(lb<=29 && 29<=ub) {"  <-- UNSOUND"} else {""});
}
