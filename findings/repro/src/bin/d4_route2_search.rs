use ddo::*; use std::sync::Arc;
#[derive(Debug, Clone, Copy, PartialEq, Eq, Hash)]
pub struct St { next: usize, c: usize }
pub struct Jump { n: usize, a: usize, m: usize, j: isize }
impl Problem for Jump {
    type State = St;
    fn nb_variables(&self) -> usize { self.n }
    fn initial_state(&self) -> St { St{next:0,c:0} }
    fn initial_value(&self) -> isize { 0 }
    fn transition(&self, s: &St, d: Decision) -> St { St{next:(s.next + d.value as usize).min(self.n), c:(s.c*self.a + d.value as usize)%self.m} }
    fn transition_cost(&self, s: &St, _: &St, d: Decision) -> isize { (d.value * (s.c as isize + 1)) % 5 }
    fn next_variable(&self, depth: usize, _: &mut dyn Iterator<Item=&St>) -> Option<Variable> { if depth < self.n {Some(Variable(depth))} else {None} }
    fn for_each_in_domain(&self, v: Variable, s: &St, f: &mut dyn DecisionCallback) { if s.next==0 { f.apply(Decision{variable:v, value:1}); f.apply(Decision{variable:v, value:self.j}); } else { for k in 1..=3 { f.apply(Decision{variable:v, value:k}); } } }
    fn is_impacted_by(&self, v: Variable, s: &St) -> bool { s.next == v.id() }
}
pub struct R;
impl Relaxation for R {
    type State = St;
    fn merge(&self, states: &mut dyn Iterator<Item=&St>) -> St { let mut nx=usize::MAX; let mut c=0; for s in states { nx=nx.min(s.next); c=c.max(s.c);} St{next:nx,c} }
    fn relax(&self, _:&St,_:&St,_:&St,_:Decision,c:isize)->isize{c+2}
}
pub struct Rk;
impl StateRanking for Rk { type State=St; fn compare(&self,a:&St,b:&St)->std::cmp::Ordering{a.c.cmp(&b.c)} }
fn main(){
    let cache = EmptyCache::new(); let dom = EmptyDominanceChecker::default();
    for n in 8..=12 { for a in 1..=5 { for m in 2..=8 { for j in 4..=7 { for w in 1..=3 {
        let p = Jump{n,a,m,j};
        let root = SubProblem{state:Arc::new(p.initial_state()), value:0, path:vec![], ub:isize::MAX, depth:0};
        let input = CompilationInput{comp_type:CompilationType::Relaxed, problem:&p, relaxation:&R, ranking:&Rk, cutoff:&NoCutoff, max_width:w, residual:&root, best_lb:isize::MIN, cache:&cache, dominance:&dom};
        let mut dd = Pooled::new();
        let _ = dd.compile(&input).unwrap();
        let mut hit=false;
        dd.drain_cutset(|sp| if sp.depth==0 { hit=true; });
        if hit { println!("ROOT IN CUTSET n={n} a={a} m={m} j={j} w={w}"); return; }
    }}}}}
    println!("no hit");
}
