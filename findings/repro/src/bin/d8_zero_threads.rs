//! C04, UNMODIFIED tree: with zero worker threads (given at construction or
//! through `with_nb_threads(0)`), parallel maximize() spawns nobody, leaves the
//! root sub-problem open on the fringe and nevertheless reports a *complete*
//! search (`is_exact == true`, `best_value == None`), i.e. "proven infeasible",
//! for a problem whose optimum is 220.
//!
//! This program prints FAIL (exit 1) when that behaviour is observed, PASS otherwise.
use ddo::*;

#[derive(Debug, Clone, Copy, PartialEq, Eq, Hash)]
struct KpState { depth: usize, capacity: usize }
struct Kp { capacity: usize, profit: Vec<isize>, weight: Vec<usize> }
impl Problem for Kp {
    type State = KpState;
    fn nb_variables(&self) -> usize { self.profit.len() }
    fn initial_state(&self) -> KpState { KpState { depth: 0, capacity: self.capacity } }
    fn initial_value(&self) -> isize { 0 }
    fn transition(&self, s: &KpState, d: Decision) -> KpState {
        let mut r = *s;
        r.depth += 1;
        if d.value == 1 { r.capacity -= self.weight[d.variable.id()]; }
        r
    }
    fn transition_cost(&self, _: &KpState, _: &KpState, d: Decision) -> isize { self.profit[d.variable.id()] * d.value }
    fn next_variable(&self, depth: usize, _: &mut dyn Iterator<Item = &KpState>) -> Option<Variable> {
        if depth < self.nb_variables() { Some(Variable(depth)) } else { None }
    }
    fn for_each_in_domain(&self, v: Variable, s: &KpState, f: &mut dyn DecisionCallback) {
        if s.capacity >= self.weight[v.id()] { f.apply(Decision { variable: v, value: 1 }); }
        f.apply(Decision { variable: v, value: 0 });
    }
}
struct KpRelax;
impl Relaxation for KpRelax {
    type State = KpState;
    fn merge(&self, states: &mut dyn Iterator<Item = &KpState>) -> KpState { states.max_by_key(|n| n.capacity).copied().unwrap() }
    fn relax(&self, _: &KpState, _: &KpState, _: &KpState, _: Decision, cost: isize) -> isize { cost }
}
struct KpRank;
impl StateRanking for KpRank {
    type State = KpState;
    fn compare(&self, a: &KpState, b: &KpState) -> std::cmp::Ordering { a.capacity.cmp(&b.capacity) }
}
fn brute(pb: &Kp) -> isize {
    let n = pb.nb_variables();
    let mut best = isize::MIN;
    for m in 0..(1u32 << n) {
        let (mut w, mut p) = (0, 0);
        for i in 0..n { if m >> i & 1 == 1 { w += pb.weight[i]; p += pb.profit[i]; } }
        if w <= pb.capacity { best = best.max(p); }
    }
    best
}

fn main() {
    let pb = Kp { capacity: 50, profit: vec![60, 100, 120], weight: vec![10, 20, 30] };
    let opt = brute(&pb);
    let mut bad = false;
    for builder in [false, true] {
        let (relax, rank, w, dom, cut) = (KpRelax, KpRank, FixedWidth(2), EmptyDominanceChecker::default(), NoCutoff);
        let mut fringe = SimpleFringe::new(MaxUB::new(&rank));
        let mut s = DefaultSolver::custom(&pb, &relax, &rank, &w, &dom, &cut, &mut fringe, if builder { 2 } else { 0 });
        if builder { s = s.with_nb_threads(0); }
        let c = s.maximize();
        let ub = s.best_upper_bound();
        drop(s);
        println!("0 threads (builder={}): {:?}, best_upper_bound={}, sub-problems still on the fringe={}, brute force optimum={}",
                 builder, c, ub, fringe.len(), opt);
        if c.is_exact && c.best_value != Some(opt) { bad = true; }
    }
    if bad {
        println!("FAIL: the search was declared complete (is_exact) while the root sub-problem is still open");
        std::process::exit(1);
    }
    println!("PASS");
}
