use ddo::*; use scratch::*;
fn main(){
    let p = knap(); let r = KRelax(&p); let rk = KRank; let w = FixedWidth(1); let dom = EmptyDominanceChecker::default(); let c = NoCutoff;
    let mut fr = SimpleFringe::new(MaxUB::new(&rk));
    let mut s = ParNoCachingSolverLel::custom(&p,&r,&rk,&w,&dom,&c,&mut fr,1).with_nb_threads(4);
    let out = s.maximize();
    println!("{:?} lb={} ub={}", out, s.best_lower_bound(), s.best_upper_bound());
}
