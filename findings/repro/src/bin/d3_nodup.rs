use ddo::*;
// depth-free knapsack: state = remaining capacity only
pub struct Knap { pub cap: usize, pub profit: Vec<isize>, pub weight: Vec<usize> }
impl Problem for Knap {
    type State = usize;
    fn nb_variables(&self) -> usize { self.profit.len() }
    fn initial_state(&self) -> usize { self.cap }
    fn initial_value(&self) -> isize { 0 }
    fn transition(&self, s: &usize, d: Decision) -> usize { s - self.weight[d.variable.id()]*d.value as usize }
    fn transition_cost(&self, _: &usize, _: &usize, d: Decision) -> isize { self.profit[d.variable.id()]*d.value }
    fn next_variable(&self, depth: usize, _: &mut dyn Iterator<Item=&usize>) -> Option<Variable> { if depth < self.nb_variables() {Some(Variable(depth))} else {None} }
    fn for_each_in_domain(&self, v: Variable, s: &usize, f: &mut dyn DecisionCallback) {
        if *s >= self.weight[v.id()] { f.apply(Decision{variable:v, value:1}); }
        f.apply(Decision{variable:v, value:0});
    }
}
pub struct KRelax;
impl Relaxation for KRelax {
    type State = usize;
    fn merge(&self, states: &mut dyn Iterator<Item=&usize>) -> usize { states.copied().max().unwrap() }
    fn relax(&self, _:&usize,_:&usize,_:&usize,_:Decision,c:isize)->isize{c}
}
pub struct KRank;
impl StateRanking for KRank { type State=usize; fn compare(&self,a:&usize,b:&usize)->std::cmp::Ordering{a.cmp(b)} }
fn brute(p:&Knap)->isize{ let n=p.profit.len(); let mut best=isize::MIN; for m in 0..(1u32<<n){ let mut w=0; let mut v=0; for i in 0..n { if m>>i&1==1 { w+=p.weight[i]; v+=p.profit[i]; } } if w<=p.cap { best=best.max(v);} } best }
fn main(){
    let mut seed: u64 = 12345;
    let mut rnd = move |m: u64| { seed = seed.wrapping_mul(6364136223846793005).wrapping_add(1442695040888963407); (seed>>33) % m };
    for it in 0..300 {
        let n = 5 + rnd(4) as usize;
        let p = Knap{cap: 5+rnd(10) as usize, profit:(0..n).map(|_|1+rnd(9) as isize).collect(), weight:(0..n).map(|_|1+rnd(5) as usize).collect()};
        let opt = brute(&p);
        for w in 1..=2 {
            let r = KRelax; let rk = KRank; let wd = FixedWidth(w); let dom = EmptyDominanceChecker::default(); let c = NoCutoff;
            let mut fr = NoDupFringe::new(MaxUB::new(&rk));
            let res = std::panic::catch_unwind(std::panic::AssertUnwindSafe(|| {
                let mut s = SeqNoCachingSolverLel::custom(&p,&r,&rk,&wd,&dom,&c,&mut fr);
                let out = s.maximize(); (out.best_value, s.best_solution()) }));
            match res {
                Ok((v, sol)) => if v != Some(opt) { println!("it={it} w={w} MISMATCH got {:?} expected {opt} sol={:?} cap={} profit={:?} weight={:?}", v, sol, p.cap,p.profit,p.weight); return; },
                Err(_) => { println!("it={it} w={w} PANIC cap={} profit={:?} weight={:?}", p.cap,p.profit,p.weight); return; }
            }
        }
    }
    println!("no mismatch");
}
