use ddo::*; use std::sync::Arc;
// two binary variables; last variable has an empty domain when state==1 (always after x0)
struct P{ dead_at: usize, n: usize }
impl Problem for P {
    type State = usize;
    fn nb_variables(&self) -> usize { self.n }
    fn initial_state(&self) -> usize { 0 }
    fn initial_value(&self) -> isize { 0 }
    fn transition(&self, s: &usize, d: Decision) -> usize { s*2 + d.value as usize }
    fn transition_cost(&self, _: &usize, _: &usize, d: Decision) -> isize { d.value }
    fn next_variable(&self, depth: usize, _: &mut dyn Iterator<Item=&usize>) -> Option<Variable> { if depth < self.n {Some(Variable(depth))} else {None} }
    fn for_each_in_domain(&self, v: Variable, _s: &usize, f: &mut dyn DecisionCallback) { if v.id() != self.dead_at { f.apply(Decision{variable:v,value:0}); f.apply(Decision{variable:v,value:1}); } }
}
struct R; impl Relaxation for R { type State=usize; fn merge(&self, s:&mut dyn Iterator<Item=&usize>)->usize{ *s.max().unwrap() } fn relax(&self,_:&usize,_:&usize,_:&usize,_:Decision,c:isize)->isize{c} }
struct Rk; impl StateRanking for Rk { type State=usize; fn compare(&self,a:&usize,b:&usize)->std::cmp::Ordering{a.cmp(b)} }
fn main(){
    for (n, dead) in [(2usize,1usize),(3,1),(3,0)] {
    let p = P{dead_at:dead, n};
    let root = SubProblem{state:Arc::new(0usize), value:0, path:vec![], ub:isize::MAX, depth:0};
    let cache = EmptyCache::new(); let dom = EmptyDominanceChecker::default();
    let input = CompilationInput{comp_type:CompilationType::Exact, problem:&p, relaxation:&R, ranking:&Rk, cutoff:&NoCutoff, max_width:10, residual:&root, best_lb:isize::MIN, cache:&cache, dominance:&dom};
    let cfg = VizConfigBuilder::default().build().unwrap();
    let mut dd = DefaultMDDLEL::new(); let c = dd.compile(&input).unwrap();
    let g = dd.as_graphviz(&cfg);
    println!("n={n} dead={dead} MDD  best={:?} terminal_drawn={}", c.best_value, g.contains("terminal ["));
    let mut dd = Pooled::new(); let c = dd.compile(&input).unwrap();
    let g = dd.as_graphviz(&cfg);
    println!("n={n} dead={dead} POOL best={:?} terminal_drawn={}", c.best_value, g.contains("terminal ["));
    }
}
