use ddo::*;
use std::sync::Arc;
#[derive(Debug, Clone, Copy, PartialEq, Eq, Hash)]
pub struct KS { pub depth: usize, pub cap: usize }
pub struct Knap { pub cap: usize, pub profit: Vec<isize>, pub weight: Vec<usize> }
impl Problem for Knap {
    type State = KS;
    fn nb_variables(&self) -> usize { self.profit.len() }
    fn initial_state(&self) -> KS { KS{depth:0, cap:self.cap} }
    fn initial_value(&self) -> isize { 0 }
    fn transition(&self, s: &KS, d: Decision) -> KS { KS{depth: s.depth+1, cap: s.cap - self.weight[d.variable.id()]*d.value as usize} }
    fn transition_cost(&self, _: &KS, _: &KS, d: Decision) -> isize { self.profit[d.variable.id()]*d.value }
    fn next_variable(&self, depth: usize, _: &mut dyn Iterator<Item=&KS>) -> Option<Variable> { if depth < self.nb_variables() {Some(Variable(depth))} else {None} }
    fn for_each_in_domain(&self, v: Variable, s: &KS, f: &mut dyn DecisionCallback) {
        if s.cap >= self.weight[v.id()] { f.apply(Decision{variable:v, value:1}); }
        f.apply(Decision{variable:v, value:0});
    }
}
pub struct KRelax<'a>(pub &'a Knap);
impl Relaxation for KRelax<'_> {
    type State = KS;
    fn merge(&self, states: &mut dyn Iterator<Item=&KS>) -> KS { let mut d=0; let mut c=0; for s in states { d=s.depth; c=c.max(s.cap);} KS{depth:d,cap:c} }
    fn relax(&self, _:&KS,_:&KS,_:&KS,_:Decision,c:isize)->isize{c}
    fn fast_upper_bound(&self, s:&KS)->isize{ self.0.profit[s.depth..].iter().sum() }
}
pub struct KRank;
impl StateRanking for KRank { type State=KS; fn compare(&self,a:&KS,b:&KS)->std::cmp::Ordering{a.cap.cmp(&b.cap)} }
pub fn knap() -> Knap { Knap{cap: 23, profit: vec![10,7,8,6,9,4,11,5,3,12], weight: vec![5,4,6,3,7,2,8,3,2,9]} }
pub fn _unused(_: Arc<u8>) {}
