#!/usr/bin/env python3
import json, glob, sys
import jsonschema
jsonschema.validate(json.load(open('/verif/MANIFEST.json')), json.load(open('/root/.vp/MANIFEST.schema.json')))
n = 0
for f in sorted(glob.glob('/verif/evidence/C*.json')):
    jsonschema.validate(json.load(open(f)), json.load(open('/root/.vp/EVIDENCE.schema.json')))
    n += 1
print('manifest valid;', n, 'evidence files valid')
