#!/usr/bin/env python3
"""Development aid: (re)generates selftest/canaries.json — for every property, the fact-level perturbations (perturb.py) that the
rules detect on the current tree, together with the identity (`scope`) of the analysed bodies. The thorough tier re-checks them when
the analysed code is the code they were recorded on: a canary that is no longer detected there means the checker lost sight of
something it used to see."""
import json, os, sys
from multiprocessing import Pool
HERE = os.path.dirname(os.path.dirname(os.path.abspath(__file__)))
sys.path.insert(0, os.path.join(HERE, 'engine', 'py'))
from ddoverif import extract, perturb, props


def one(p):
    doc, _ = extract.extract('dev')
    r = perturb.run(doc, props.PROPS[p]['fn'], p, canaries=[], cap=250)
    # at most 80 canaries per property, spread over the bodies (round robin)
    by_body = {}
    for k in sorted(set(r['detected_all'])):
        by_body.setdefault(k.split('|')[0], []).append(k)
    keep = []
    while len(keep) < 80 and any(by_body.values()):
        for b in sorted(by_body):
            if by_body[b] and len(keep) < 80:
                keep.append(by_body[b].pop(0))
    print(p, r['generated'], r['detected'], len(keep), flush=True)
    return p, {'scope': r['scope'], 'canaries': sorted(keep)}


if __name__ == '__main__':
    only = sys.argv[1:]
    cf = os.path.join(HERE, 'selftest', 'canaries.json')
    out = json.load(open(cf)) if os.path.isfile(cf) else {}
    out = {k: v for k, v in out.items() if isinstance(v, dict)}
    extract.extract('dev')
    todo = [p for p in sorted(props.PROPS) if not only or p in only]
    with Pool(8) as pool:
        for p, rec in pool.imap_unordered(one, todo):
            out[p] = rec
    json.dump(out, open(cf, 'w'), indent=0, sort_keys=True)
