#!/usr/bin/env python3
"""Development aid: (re)generates selftest/canaries.json — for every property, the fact-level perturbations (perturb.py) that the
rules detect on the current tree. The thorough tier re-checks them: a canary that still exists but is no longer detected means the
checker lost sight of something it used to see."""
import json, os, sys
HERE = os.path.dirname(os.path.dirname(os.path.abspath(__file__)))
sys.path.insert(0, os.path.join(HERE, 'engine', 'py'))
from ddoverif import extract, perturb, props

doc, _ = extract.extract('dev')
out = {}
only = sys.argv[1:]
cf = os.path.join(HERE, 'selftest', 'canaries.json')
if os.path.isfile(cf):
    out = json.load(open(cf))
for p in sorted(props.PROPS):
    if only and p not in only:
        continue
    r = perturb.run(doc, props.PROPS[p]['fn'], p, canaries=[], cap=250)
    # keep at most 60 canaries per property, spread over the bodies
    det = []
    # perturb.run only reports a sample; recompute the full detected list
    out[p] = sorted(set(r['detected_all']))[:80] if 'detected_all' in r else r['detected_sample']
    print(p, r['generated'], r['detected'], len(out[p]))
json.dump(out, open(cf, 'w'), indent=0, sort_keys=True)
