#!/usr/bin/env python3
"""Write engine/py/ddoverif/canon_ref.json: the reference profile (names + role features) of the anchors on the tree the rule
instances were confirmed on. Run on the unmodified /repo after the rules are green; used only to resolve renamed slots."""
import json, os, sys
HERE = os.path.dirname(os.path.abspath(__file__))
sys.path.insert(0, os.path.join(HERE, '..', 'engine', 'py'))
os.environ['VERIF_NO_CANON'] = '1'
from ddoverif import extract, canon
doc, info = extract.extract('dev')
assert not doc.get('canon_notes')
p = canon.profile(doc)
from ddoverif import mirlib as M
from ddoverif.rules import common as C
p['call_guards'] = C.call_guard_table(M.Facts(doc))
p['tree_hash'] = info['hash']
with open(canon.REF, 'w') as f:
    json.dump(p, f, indent=0, sort_keys=True)
print('wrote', canon.REF, os.path.getsize(canon.REF), 'bytes;', sum(len(v) for v in p['methods'].values()), 'methods,',
      sum(len(v) for v in p['fields'].values()), 'fields,', len(p['adts']), 'types')
