#!/usr/bin/env python3
"""Regenerates MANIFEST.json from the property registry (engine/py/ddoverif/props.py)."""
import json, os, sys
HERE = os.path.dirname(os.path.dirname(os.path.abspath(__file__)))
sys.path.insert(0, os.path.join(HERE, 'engine', 'py'))
from ddoverif import props

ALL = ['C%02d' % i for i in range(1, 21)]
NA = {
    'C16': 'input-quantified numerical agreement of twelve hand-written example models with an independent oracle: no clause is visible in the shape of the code (admissibility of a bound or merge operator is an arithmetic fact about instance data); static analysis cannot decide it (DESIGN.md §4 C16)',
}
PENDING = 'check not yet implemented in this commit (rules designed in DESIGN.md §4, implementation in progress)'

checks = []
for pid in ALL:
    if pid not in props.PROPS:
        continue
    p = props.PROPS[pid]
    level = p.get('level', 'other')
    checks.append({
        'property_id': pid,
        'quick_cmd': './check %s quick' % pid,
        'thorough_cmd': './check %s thorough' % pid,
        'evidence_file': '/verif/evidence/%s.json' % pid,
        'replay_cmd_template': './check --replay {path}',
        'engine': 'ddoverif',
        'level_claimed': {
            'category': level,
            'text': p.get('level_text') or ('Static analysis of the type-checked program (rustc MIR of the current tree): ' + p['explanation'] +
                     '. Every rule quantifies over all non-unwinding paths of the analysed functions, i.e. over all inputs, widths, thread counts and '
                     'schedules at once; the rules are necessary structural conditions of the property, not the behaviour itself.'),
            'design_ref': 'DESIGN.md §4 ' + pid,
        },
        'level_note': p.get('level_note') or 'Trusted: rustc MIR construction and name resolution, the fact extractor, std/parking_lot/dashmap/binary_heap_plus semantics; user callbacks terminate and do not panic. Decides structural necessary conditions only (see DESIGN.md §4, "Not decided").',
        'technique': p.get('technique') or 'repository-specific static rules over rustc MIR (rustc_private driver): edge-cut reachability, must-pass-through, origin terms, lock regions',
    })
na = []
for pid in ALL:
    if pid in props.PROPS:
        continue
    na.append({'property_id': pid, 'reason': NA.get(pid, PENDING)})
man = {
    'version': 1,
    'setup_cmd': 'cd engine/factsdrv && CARGO_NET_OFFLINE=true cargo build --release --offline',
    'hooks': {
        'guard': 'xgillard_ddo_verif',
        'enable': 'no instrumentation is needed: the checks analyse the unmodified source of /repo (cargo +nightly check with the fact extractor as RUSTC_WORKSPACE_WRAPPER); the guard name is reserved and unused',
        'baseline_off_cmd': 'cd /repo && cargo nextest run --workspace --no-fail-fast --test-threads 8 --offline',
        'source_commits': [],
        'add_only': True,
    },
    'engines': [
        {'name': 'factsdrv', 'path': 'engine/factsdrv', 'serves_properties': [c['property_id'] for c in checks], 'kind_free_text': 'rustc_private driver dumping MIR/ADT/impl facts of the ddo crate as JSON (E1)'},
        {'name': 'ddoverif', 'path': 'engine/py/ddoverif', 'serves_properties': [c['property_id'] for c in checks], 'kind_free_text': 'Python: CFG/origin/guard primitives (mirlib), rule instances per property (rules/), abstract interpreters (E2, E3)'},
    ],
    'checks': checks,
    'not_applicable': na,
    'notes': 'Technique family: static analysis only. Genuine defects found and repaired by fix: commits in /repo are listed in known_findings.json (status fixed); D4 (Pooled, long arcs) was a known finding until session 3 and is now repaired as well (fix: 0a5ccee); no finding is open.',
}
with open(os.path.join(HERE, 'MANIFEST.json'), 'w') as f:
    json.dump(man, f, indent=1)
print('MANIFEST.json: %d checks, %d not applicable' % (len(checks), len(na)))
