#!/usr/bin/env python3
"""mkpatch.py <out.diff> <repo-relative-file> <old> <new> [<file> <old> <new> ...]  — build a patch against /repo HEAD by exact text
replacement (old must occur exactly once)."""
import subprocess, sys, os, tempfile, shutil
out = sys.argv[1]
args = sys.argv[2:]
tmp = tempfile.mkdtemp()
diffs = []
try:
    edits = {}
    for i in range(0, len(args), 3):
        f, old, new = args[i:i + 3]
        src = edits.get(f) or subprocess.run(['git', '-C', '/repo', 'show', 'HEAD:' + f], stdout=subprocess.PIPE, text=True, check=True).stdout
        old = old.replace('\\n', '\n'); new = new.replace('\\n', '\n')
        if src.count(old) != 1:
            sys.exit('%s: old text occurs %d times' % (f, src.count(old)))
        edits[f] = src.replace(old, new)
    for f, txt in edits.items():
        a = os.path.join(tmp, 'a', f); b = os.path.join(tmp, 'b', f)
        os.makedirs(os.path.dirname(a), exist_ok=True); os.makedirs(os.path.dirname(b), exist_ok=True)
        open(a, 'w').write(subprocess.run(['git', '-C', '/repo', 'show', 'HEAD:' + f], stdout=subprocess.PIPE, text=True).stdout)
        open(b, 'w').write(txt)
        d = subprocess.run(['diff', '-u', 'a/' + f, 'b/' + f], cwd=tmp, stdout=subprocess.PIPE, text=True).stdout
        diffs.append(d)
    open(out, 'w').write(''.join(diffs))
finally:
    shutil.rmtree(tmp)
