#!/bin/bash
# usage: with_patch.sh <patch> <command...>  — run a command with DDO_REPO pointing at a scratch worktree that has the patch applied
WT=${MUT_WT:-/tmp/ddo-mut}
P=$(readlink -f "$1"); shift
[ -d $WT ] || git -C /repo worktree add -q --detach $WT HEAD
git -C $WT checkout -q -- .
git -C $WT apply "$P" || exit 2
DDO_REPO=$WT VERIF_EVIDENCE_DIR=${WT}-evid "$@"
git -C $WT checkout -q -- .
