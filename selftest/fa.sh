#!/bin/bash
# usage: selftest/fa.sh <benign-id> <Cxx>... — development aid: show the rule lines a benign variant triggers
n=$1; shift
/verif/selftest/mut.sh /verif/selftest/benign/$n.diff -- "$@" 2>&1 | grep " rule " | sort -u
