#!/usr/bin/env python3
"""Development aid (not registered): source-level mutants and benign variants.
Each entry: (id, [props expected to fire] or [] for benign, [(file, old, new), ...]).
usage: run_mutants.py [id-substring ...]"""
import os, subprocess, sys, json
HERE = os.path.dirname(os.path.abspath(__file__))
SEQ = 'ddo/src/implementation/solver/sequential.rs'
PAR = 'ddo/src/implementation/solver/parallel.rs'
CLEAN = 'ddo/src/implementation/mdd/clean.rs'
POOL = 'ddo/src/implementation/mdd/pooled.rs'
NODUP = 'ddo/src/implementation/fringe/no_duplicate.rs'
SIMPLEF = 'ddo/src/implementation/fringe/simple.rs'
CACHE = 'ddo/src/implementation/cache/simple.rs'
ACACHE = 'ddo/src/abstraction/cache.rs'
DOM = 'ddo/src/abstraction/dominance.rs'
SDOM = 'ddo/src/implementation/dominance/simple.rs'
RANK = 'ddo/src/implementation/heuristics/subproblem_ranking.rs'
WIDTH = 'ddo/src/implementation/heuristics/width.rs'
SOLVER = 'ddo/src/abstraction/solver.rs'
FLAGS = 'ddo/src/implementation/mdd/node_flags.rs'
COMMON = 'ddo/src/common.rs'

M = []
def m(id, props, *edits):
    M.append((id, props, edits))

exec(open(os.path.join(HERE, 'mutants.py')).read())

def main():
    sel = sys.argv[1:]
    bad = 0
    for (id, props, edits) in M:
        if sel and not any(s in id for s in sel):
            continue
        args = []
        for e in edits:
            args += list(e)
        patch = '/tmp/ddo-mutant.diff'
        r = subprocess.run([os.path.join(HERE, 'mkpatch.py'), patch] + args, stdout=subprocess.PIPE, stderr=subprocess.STDOUT, text=True)
        if r.returncode != 0:
            print('%-40s PATCH-ERROR %s' % (id, r.stdout.strip())); bad += 1; continue
        group = props == ['CDD']
        run_props = (DD_PROPS if group else props) if props else ALL_PROPS
        r = subprocess.run([os.path.join(HERE, 'mut.sh'), patch, '--'] + run_props, stdout=subprocess.PIPE, stderr=subprocess.STDOUT, text=True)
        fired = sorted(set(l.split('property=')[1].split()[0] for l in r.stdout.splitlines() if l.startswith('VIOLATION')))
        if 'DOES NOT APPLY' in r.stdout or 'extraction failed' in r.stdout:
            print('%-40s BUILD/APPLY-ERROR' % id); bad += 1; print(r.stdout[-800:]); continue
        if props:
            missing = ([] if fired else ['any']) if group else [p for p in props if p not in fired]
            status = 'ok  ' if not missing else 'MISS'
            if missing: bad += 1
            print('%-40s %s expected %s fired %s' % (id, status, props, fired))
            if missing and os.environ.get('V'):
                print(r.stdout)
        else:
            status = 'ok  ' if not fired else 'FALSE-ALARM'
            if fired: bad += 1
            print('%-40s %s benign; fired %s' % (id, status, fired))
            if fired:
                print('\n'.join(l for l in r.stdout.splitlines() if 'rule ' in l)[:1500])
    print('problems:', bad)

sys.path.insert(0, os.path.join(HERE, '..', 'engine', 'py'))
from ddoverif import props as _P
ALL_PROPS = sorted(_P.PROPS)
DD_PROPS = [p for p in ['C01', 'C02', 'C05', 'C06', 'C07', 'C08', 'C09', 'C10', 'C12', 'C13', 'C15', 'C20'] if p in _P.PROPS]
if __name__ == '__main__':
    main()
