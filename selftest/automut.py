#!/usr/bin/env python3
"""Development aid (not a registered check): systematic one-line source mutations of the core files (relational / logical / arithmetic
operator replacement, constant swaps, min/max swaps, negation removal, statement deletion), run through every check. Mutants that
no check reports are then run through the project's test suite: the ones that ALSO pass the tests are the interesting residue
(equivalent mutants, or changes outside every property, or a gap in the rules) and are triaged by hand (selftest/automut/triage.md).

  automut.py gen            write selftest/automut/mutants.jsonl
  automut.py run  [-j N]    checks on every mutant not yet run           -> selftest/automut/results.jsonl
  automut.py tests [-j N]   test suite on the undetected, compiling ones -> selftest/automut/tests.jsonl
  automut.py report
"""
import json, os, random, re, subprocess, sys
from concurrent.futures import ThreadPoolExecutor
HERE = os.path.dirname(os.path.abspath(__file__))
VERIF = os.path.dirname(HERE)
OUT = os.path.join(HERE, 'automut')
FILES = ['ddo/src/implementation/solver/sequential.rs', 'ddo/src/implementation/solver/parallel.rs', 'ddo/src/implementation/mdd/clean.rs',
         'ddo/src/implementation/mdd/pooled.rs', 'ddo/src/implementation/mdd/node_flags.rs', 'ddo/src/implementation/fringe/no_duplicate.rs',
         'ddo/src/implementation/fringe/simple.rs', 'ddo/src/implementation/cache/simple.rs', 'ddo/src/implementation/dominance/simple.rs',
         'ddo/src/abstraction/dominance.rs', 'ddo/src/abstraction/cache.rs', 'ddo/src/abstraction/solver.rs',
         'ddo/src/implementation/heuristics/subproblem_ranking.rs', 'ddo/src/implementation/heuristics/width.rs', 'ddo/src/common.rs']
OPS = [
    ('ROR', r' <= ', ' < '), ('ROR', r' < ', ' <= '), ('ROR', r' >= ', ' > '), ('ROR', r' > ', ' >= '), ('ROR', r' == ', ' != '), ('ROR', r' != ', ' == '),
    ('ROR', r' <= ', ' > '), ('ROR', r' > ', ' <= '), ('ROR', r' < ', ' >= '), ('ROR', r' >= ', ' < '),
    ('LCR', r' && ', ' || '), ('LCR', r' \|\| ', ' && '),
    ('AOR', r'saturating_add', 'saturating_sub'), ('AOR', r'saturating_sub', 'saturating_add'), ('AOR', r' \+ 1\b', ' + 0'), ('AOR', r' - 1\b', ' - 0'), ('AOR', r' \+ 1\b', ' + 2'),
    ('AOR', r' - 1\b', ' - 2'), ('AOR', r' \+= ', ' -= '), ('AOR', r' -= ', ' += '), ('AOR', r' \* ', ' + '), ('AOR', r' / ', ' * '),
    ('MM', r'\.min\(', '.max('), ('MM', r'\.max\(', '.min('),
    ('CONST', r'\btrue\b', 'false'), ('CONST', r'\bfalse\b', 'true'), ('CONST', r'isize::MIN', 'isize::MAX'), ('CONST', r'isize::MAX', 'isize::MIN'),
    ('NEG', r'if !', 'if '), ('NEG', r'&& !', '&& '), ('NEG', r'\|\| !', '|| '), ('NEG', r'= !', '= '),
    ('ORD', r'Ordering::Less', 'Ordering::Greater'), ('ORD', r'Ordering::Greater', 'Ordering::Less'), ('ORD', r'\bLess\b', 'Greater'), ('ORD', r'\bGreater\b', 'Less'),
    ('ORD', r'\.reverse\(\)', ''), ('OPT', r'\.is_some\(\)', '.is_none()'), ('OPT', r'\.is_none\(\)', '.is_some()'), ('OPT', r'\.is_empty\(\)', '.len() == 1'),
]
# second-generation operators (session 3): sibling-field replacement, operand deletion in conditions, argument swaps
FIELD_PAIRS = [('value_top', 'value_bot'), ('value_bot', 'value_top'), ('best_lb', 'best_ub'), ('best_ub', 'best_lb'), (r'\.ub\b', '.value'), (r'\.value\b', '.ub'),
               ('is_exact\(\)', 'is_relaxed()'), ('is_cutset\(\)', 'is_above_cutset()'), ('is_above_cutset\(\)', 'is_cutset()'), ('is_marked\(\)', 'is_exact()'),
               ('set_cutset', 'set_above_cutset'), ('set_deleted', 'set_marked'), ('edge\.from', 'edge.to'), ('edge\.to', 'edge.from'), ('open_by_layer', 'ongoing_by_layer'),
               ('ongoing_by_layer', 'open_by_layer'), ('\.rub\b', '.value_bot'), ('max_width - 1', 'max_width'), ('max_width\)', 'max_width - 1)'), ('curr_l', 'prev_l'),
               ('node\.depth', 'node.depth + 1'), ('residual\.depth', 'residual.depth + 1'), ('\.first\(\)', '.last()'), ('\.last\(\)', '.first()'),
               ('notify_all', 'notify_one'), ('Restricted', 'Relaxed'), ('Relaxed', 'Restricted'), ('LAST_EXACT_LAYER', 'FRONTIER'), ('FRONTIER', 'LAST_EXACT_LAYER'),
               ('BubbleUp', 'BubbleDown'), ('BubbleDown', 'BubbleUp'), ('left_child', 'right_child'), ('thread_id', '0'), ('\[depth\]', '[depth + 1]'), ('nn\.depth', 'nn.depth + 1')]
OPS2 = [('FLD', a, b) for (a, b) in FIELD_PAIRS]
COND_DEL = [('CDL', r'if (.+?) && (.+?) \{', 1), ('CDL', r'if (.+?) && (.+?) \{', 2), ('CDL', r'if (.+?) \|\| (.+?) \{', 1), ('CDL', r'if (.+?) \|\| (.+?) \{', 2),
            ('CDL', r'while (.+?) && (.+?) \{', 1), ('CDL', r'while (.+?) && (.+?) \{', 2)]
ARG_SWAP = re.compile(r'(\b[a-z_][A-Za-z_0-9:]*\()([a-z_][a-z_0-9\.]*(?:\(\))?), ([a-z_][a-z_0-9\.]*(?:\(\))?)\)')
SDL = re.compile(r'^\s*(self\.|node\.|critical\.|shared\.|get!\(|curr_l\.|\*|[a-z_]+\.(push|clear|truncate|insert|remove|set_[a-z_]+|notify_all|notify_one)\()[^;{}]*;\s*(//.*)?$')


def code_lines(path):
    """(index, text) of the lines of non-test code"""
    src = open(path).read().split('\n')
    end = len(src)
    for i, l in enumerate(src):
        if l.strip().startswith('#[cfg(test)]'):
            end = i
            break
    out = []
    for i in range(end):
        t = src[i].strip()
        if not t or t.startswith('//') or t.startswith('#[') or t.startswith('use ') or t.startswith('pub use'):
            continue
        out.append((i, src[i]))
    return out


def gen():
    rnd = random.Random(20260926)
    ms = []
    rest = []
    for f in FILES:
        p = os.path.join('/repo', f)
        cands = []
        for (i, l) in code_lines(p):
            code = l.split('//')[0]
            for (kind, pat, rep) in OPS:
                for m in re.finditer(pat, code):
                    new = code[:m.start()] + rep + code[m.end():] + l[len(code):]
                    if kind == 'ROR' and ('->' in code[max(0, m.start() - 2):m.end() + 1] or '=>' in code[max(0, m.start() - 1):m.end() + 1]):
                        continue
                    cands.append((f, i, kind, l, new))
            if SDL.match(l) and 'let ' not in l:
                cands.append((f, i, 'SDL', l, re.sub(r'\S.*$', '/* deleted */', l, count=1)))
        rnd.shuffle(cands)
        quota = {'clean.rs': 140, 'pooled.rs': 110, 'parallel.rs': 110, 'sequential.rs': 90, 'no_duplicate.rs': 70}.get(os.path.basename(f), 40)
        ms.extend(cands[:quota])
        rest.extend(cands[quota:])
    os.makedirs(OUT, exist_ok=True)
    if '--gen2' in sys.argv:
        # second generation: appended to the existing list, ids continue
        old_ = load('mutants.jsonl')
        seen = {(m['file'], m['before'], m['after']) for m in old_}
        n0 = len(old_)
        k = 0
        with open(os.path.join(OUT, 'mutants.jsonl'), 'a') as o:
            for f in FILES:
                for (i, l) in code_lines(os.path.join('/repo', f)):
                    code = l.split('//')[0]
                    outs = []
                    for (kind, pat, rep) in OPS2:
                        for m in list(re.finditer(pat, code))[:2]:
                            outs.append((kind, code[:m.start()] + rep + code[m.end():] + l[len(code):]))
                    for (kind, pat, which) in COND_DEL:
                        m = re.search(pat, code)
                        if m:
                            kw = pat.split(' ')[0]
                            outs.append((kind, code[:m.start()] + '%s %s {' % (kw, m.group(which)) + code[m.end():] + l[len(code):]))
                    for m in list(ARG_SWAP.finditer(code))[:2]:
                        if m.group(2) != m.group(3):
                            outs.append(('ARG', code[:m.start()] + m.group(1) + m.group(3) + ', ' + m.group(2) + ')' + code[m.end():] + l[len(code):]))
                    for (kind, new) in outs:
                        key = (f, l.strip(), new.strip())
                        if key in seen or new.strip() == l.strip():
                            continue
                        seen.add(key)
                        o.write(json.dumps({'id': 'm%04d' % (n0 + k), 'file': f, 'line': i + 1, 'op': kind, 'before': l.strip(), 'after': new.strip(), 'new_line': new}) + '\n')
                        k += 1
        print(k, 'second-generation mutants')
        return
    if '--more' in sys.argv:
        # second batch: every remaining candidate (first batch untouched, ids continue)
        old_ = load('mutants.jsonl')
        seen = {(m['file'], m['line'], m['new_line']) for m in old_}
        n0 = len(old_)
        with open(os.path.join(OUT, 'mutants.jsonl'), 'a') as o:
            k = 0
            for (f, i, kind, old, new) in rest:
                if (f, i + 1, new) in seen:
                    continue
                seen.add((f, i + 1, new))
                o.write(json.dumps({'id': 'm%04d' % (n0 + k), 'file': f, 'line': i + 1, 'op': kind, 'before': old.strip(), 'after': new.strip(), 'new_line': new}) + '\n')
                k += 1
        print(k, 'more mutants')
        return
    with open(os.path.join(OUT, 'mutants.jsonl'), 'w') as o:
        for n, (f, i, kind, old, new) in enumerate(ms):
            o.write(json.dumps({'id': 'm%04d' % n, 'file': f, 'line': i + 1, 'op': kind, 'before': old.strip(), 'after': new.strip(), 'new_line': new}) + '\n')
    print(len(ms), 'mutants')


def load(name):
    p = os.path.join(OUT, name)
    return [json.loads(l) for l in open(p)] if os.path.isfile(p) else []


def worktree(k):
    wt = '/tmp/automut-%d' % k
    if not os.path.isdir(wt):
        subprocess.run(['git', '-C', '/repo', 'worktree', 'add', '-q', '--detach', wt, 'HEAD'], check=True)
    return wt


def apply(wt, m):
    subprocess.run(['git', '-C', wt, 'checkout', '-q', '--', '.'], check=True)
    p = os.path.join(wt, m['file'])
    src = open(p).read().split('\n')
    assert src[m['line'] - 1].strip() == m['before'], (m['id'], src[m['line'] - 1])
    src[m['line'] - 1] = m['new_line']
    open(p, 'w').write('\n'.join(src))


def run_one(args):
    (k, m) = args
    wt = worktree(k)
    apply(wt, m)
    env = dict(os.environ, DDO_REPO=wt, VERIF_EVIDENCE_DIR=wt + '-evid', VERIF_CACHE_DIR='/tmp/automut-cache-%d' % k)
    r = subprocess.run([os.path.join(VERIF, 'check'), 'all', 'quick'], stdout=subprocess.PIPE, stderr=subprocess.STDOUT, text=True, env=env)
    subprocess.run(['git', '-C', wt, 'checkout', '-q', '--', '.'])
    if 'fact extraction failed' in r.stdout:
        return dict(id=m['id'], status='nocompile')
    nsum = len([l for l in r.stdout.splitlines() if l.startswith('[C') and 'rule instances evaluated' in l])
    if nsum < 19 or 'Traceback' in r.stdout:
        return dict(id=m['id'], status='error', err=r.stdout[-300:])
    fired = sorted(set(l.split('property=')[1].split()[0] for l in r.stdout.splitlines() if l.startswith('VIOLATION')))
    rules = sorted(set(l.split(' rule ')[1].split(':')[0] for l in r.stdout.splitlines() if ' rule R' in l or ' rule A' in l or ' rule E' in l))
    return dict(id=m['id'], status='detected' if fired else 'undetected', fired=fired, rules=rules[:12])


def test_one(args):
    (k, m) = args
    wt = worktree(k)
    apply(wt, m)
    env = dict(os.environ, CARGO_NET_OFFLINE='true', CARGO_TARGET_DIR='/tmp/automut-cache-%d/target-tests' % k)
    r = subprocess.run(['timeout', '900', 'cargo', 'nextest', 'run', '--workspace', '--no-fail-fast', '--test-threads', '4', '--offline'], cwd=wt, stdout=subprocess.PIPE, stderr=subprocess.STDOUT, text=True, env=env)
    subprocess.run(['git', '-C', wt, 'checkout', '-q', '--', '.'])
    summ = [l for l in r.stdout.splitlines() if 'Summary' in l]
    ok = r.returncode == 0 and summ and '176 passed' in summ[-1]
    return dict(id=m['id'], tests='pass' if ok else 'fail', summary=(summ[-1].strip() if summ else r.stdout[-200:]))


def pool(fn, items, j, outname):
    done = 0
    with open(os.path.join(OUT, outname), 'a') as o, ThreadPoolExecutor(j) as ex:
        chunks = [items[i::j] for i in range(j)]
        def worker(k):
            out = []
            for m in chunks[k]:
                try:
                    r = fn((k, m))
                except Exception as e:
                    r = dict(id=m['id'], status='error', err=repr(e)[:200])
                o.write(json.dumps(r) + '\n'); o.flush()
                print(r['id'], r.get('status') or r.get('tests'), r.get('fired', ''), flush=True)
            return out
        list(ex.map(worker, range(j)))


def main():
    cmd = sys.argv[1]
    j = int(sys.argv[sys.argv.index('-j') + 1]) if '-j' in sys.argv else 4
    if cmd == 'gen':
        gen()
    elif cmd == 'run':
        have = {r['id'] for r in load('results.jsonl')}
        todo = [m for m in load('mutants.jsonl') if m['id'] not in have]
        lim = int(sys.argv[sys.argv.index('-n') + 1]) if '-n' in sys.argv else len(todo)
        pool(run_one, todo[:lim], j, 'results.jsonl')
    elif cmd == 'tests':
        res = {r['id']: r for r in load('results.jsonl')}
        have = {r['id'] for r in load('tests.jsonl')}
        todo = [m for m in load('mutants.jsonl') if res.get(m['id'], {}).get('status') == 'undetected' and m['id'] not in have]
        pool(test_one, todo, j, 'tests.jsonl')
    elif cmd == 'report':
        ms = {m['id']: m for m in load('mutants.jsonl')}
        res = {r['id']: r for r in load('results.jsonl')}
        ts = {r['id']: r for r in load('tests.jsonl')}
        st = {}
        for r in res.values():
            st[r['status']] = st.get(r['status'], 0) + 1
        print('mutants', len(ms), 'run', len(res), st)
        surv = [i for i, r in res.items() if r['status'] == 'undetected' and ts.get(i, {}).get('tests') == 'pass']
        killed = [i for i, r in res.items() if r['status'] == 'undetected' and ts.get(i, {}).get('tests') == 'fail']
        print('undetected by the checks: %d of which the test suite kills %d, survive both %d (not yet tested: %d)' % (
            st.get('undetected', 0), len(killed), len(surv), st.get('undetected', 0) - len(killed) - len(surv)))
        for i in sorted(surv):
            m = ms[i]
            print('%s %s:%d [%s]  %s   ==>   %s' % (i, m['file'].split('/')[-1], m['line'], m['op'], m['before'][:90], m['after'][:90]))


if __name__ == '__main__':
    main()
