#!/usr/bin/env python3
"""Development aid: run every claimed check against many patches in parallel (K scratch worktrees of /repo under /tmp, each with its
own extraction cache). usage:
    par.py seeds  [substr..]   every seeded/<id>/patch.diff   (expects the seed's own property to fire; refreshes meta.json)
    par.py benign [substr..]   every selftest/benign/<id>.diff (expects silence)
    par.py mutants [substr..]  selftest/mutants.py entries     (expects the listed properties, silence for benign entries)
    par.py --clean
"""
import glob, json, os, subprocess, sys, shutil
from concurrent.futures import ThreadPoolExecutor
import queue
HERE = os.path.dirname(os.path.abspath(__file__))
VERIF = os.path.dirname(HERE)
sys.path.insert(0, os.path.join(VERIF, 'engine', 'py'))
from ddoverif import props
ALL = os.environ.get('PAR_PROPS', '').split() or sorted(props.PROPS)
K = int(os.environ.get('PAR_K', '8'))
slots = queue.Queue()
for k in range(K):
    slots.put(k)


def run_patch(patch, plist=None):
    k = slots.get()
    try:
        env = dict(os.environ, MUT_WT=os.environ.get('PAR_PREFIX', '/tmp/ddo-par-') + '%d' % k, VERIF_CACHE_DIR=os.environ.get('PAR_PREFIX', '/tmp/ddo-par-') + '%d-cache' % k)
        r = subprocess.run([os.path.join(HERE, 'mut.sh'), patch, '--'] + (plist or ALL), stdout=subprocess.PIPE, stderr=subprocess.STDOUT, text=True, env=env)
        out = r.stdout
    finally:
        slots.put(k)
    fired = sorted(set(l.split('property=')[1].split()[0] for l in out.splitlines() if l.startswith('VIOLATION')))
    rules = sorted(set(l.split(' rule ')[1].split(' instance ')[0] + ':' + l.split(' instance ')[1].split(':')[0] for l in out.splitlines() if ' rule ' in l and ' instance ' in l))
    err = 'DOES NOT APPLY' in out or 'extraction failed' in out
    return fired, rules, err


def main():
    if sys.argv[1:] == ['--clean']:
        for k in range(32):
            subprocess.run(['git', '-C', '/repo', 'worktree', 'remove', '--force', '/tmp/ddo-par-%d' % k], stderr=subprocess.DEVNULL)
            shutil.rmtree('/tmp/ddo-par-%d' % k, ignore_errors=True)
            shutil.rmtree('/tmp/ddo-par-%d-cache' % k, ignore_errors=True)
            shutil.rmtree('/tmp/ddo-par-%d-evid' % k, ignore_errors=True)
        return 0
    mode, sel = sys.argv[1], sys.argv[2:]
    jobs = []
    if mode == 'seeds':
        for mf in sorted(glob.glob(os.path.join(VERIF, 'seeded', 'C*', 'meta.json'))):
            meta = json.load(open(mf))
            if sel and not any(s in meta['id'] for s in sel):
                continue
            if meta.get('obsolete') or meta.get('disputed'):
                continue        # a later fix: commit removed the hazard this change needed (kept for the record, see meta.json)
            jobs.append((meta['id'], os.path.join(os.path.dirname(mf), 'patch.diff'), [meta['breaks_property']], mf))
    elif mode == 'benign':
        for f in sorted(glob.glob(os.path.join(HERE, 'benign', '*.diff'))):
            name = os.path.basename(f)[:-5]
            if sel and not any(s in name for s in sel):
                continue
            jobs.append((name, f, [], None))
    elif mode == 'mutants':
        M = []
        g = dict(M=M, m=lambda id, props_, *edits: M.append((id, props_, edits)), __file__=os.path.join(HERE, 'run_mutants.py'), __name__='par')
        src = open(os.path.join(HERE, 'run_mutants.py')).read().split('M = []')[0]
        exec(src, g)
        g['M'] = M
        g['m'] = lambda id, props_, *edits: M.append((id, props_, edits))
        exec(open(os.path.join(HERE, 'mutants.py')).read(), g)
        os.makedirs('/tmp/ddo-par-patches', exist_ok=True)
        for (id, props_, edits) in M:
            if sel and not any(s in id for s in sel):
                continue
            args = []
            for e in edits:
                args += list(e)
            patch = '/tmp/ddo-par-patches/%s.diff' % id.replace('/', '_')
            r = subprocess.run([os.path.join(HERE, 'mkpatch.py'), patch] + args, stdout=subprocess.PIPE, stderr=subprocess.STDOUT, text=True)
            if r.returncode != 0:
                print('%-40s CANNOT BUILD PATCH: %s' % (id, r.stdout.strip()[:200]))
                continue
            jobs.append((id, patch, list(props_), None))
    bad = 0
    def work(j):
        (id, patch, expect, mf) = j
        return j, run_patch(patch)
    with ThreadPoolExecutor(K) as ex:
        for (j, (fired, rules, err)) in ex.map(work, jobs):
            (id, patch, expect, mf) = j
            if err:
                print('%-40s BUILD/APPLY-ERROR' % id); bad += 1; continue
            if mf:
                meta = json.load(open(mf))
                meta['checks_firing'] = fired
                meta['detected_by_own_property_check'] = meta['breaks_property'] in fired
                meta['rule_instances_firing'] = rules[:40]
                json.dump(meta, open(mf, 'w'), indent=1)
            if expect:
                miss = ([] if fired else ['any']) if expect == ['CDD'] else [p for p in expect if p not in fired]
                if miss:
                    bad += 1
                    print('%-40s MISSED %s (fired %s)' % (id, miss, fired))
            elif fired:
                bad += 1
                print('%-40s FALSE-ALARM %s %s' % (id, fired, rules[:6]))
    print('%s: %d jobs, %d problem(s)' % (mode, len(jobs), bad))
    return 1 if bad else 0


if __name__ == '__main__':
    sys.exit(main())
