#!/bin/bash
# usage: selftest/mut.sh <patch-file> [-R] -- <Cxx>...   : apply the patch to a scratch worktree of /repo, run the checks there, revert.
# Development aid (not registered): the scratch worktree lives in /tmp/ddo-mut and is removed by `selftest/mut.sh --clean`.
set -u
WT=${MUT_WT:-/tmp/ddo-mut}
if [ "${1:-}" = "--clean" ]; then git -C /repo worktree remove --force $WT 2>/dev/null; rm -rf $WT ${WT}-evid; exit 0; fi
PATCH=$1; shift
REV=""
if [ "${1:-}" = "-R" ]; then REV="-R"; shift; fi
[ "${1:-}" = "--" ] && shift
if [ ! -d $WT ]; then git -C /repo worktree add -q --detach $WT HEAD || exit 2; fi
git -C $WT checkout -q --detach $(git -C /repo rev-parse HEAD) 2>/dev/null
git -C $WT checkout -q -- . 
# patches are kept as written against the commit they were made on: fall back to a 3-way merge when /repo has moved on (a later fix: commit)
git -C $WT apply $REV "$PATCH" 2>/dev/null || git -C $WT apply -3 $REV "$PATCH" >/dev/null 2>&1 || { echo "PATCH DOES NOT APPLY"; git -C $WT checkout -q -- . ; git -C $WT reset -q --hard; exit 2; }
git -C $WT reset -q
rc=0
for p in "$@"; do
  DDO_REPO=$WT VERIF_EVIDENCE_DIR=${WT}-evid /verif/check $p quick 2>&1 | sed "s|$WT|<wt>|g" | grep -E "VIOLATION|KNOWN|^\[C|rule " | cut -c1-420
done
git -C $WT checkout -q -- .
git -C $WT reset -q --hard 2>/dev/null
