#!/usr/bin/env python3
"""Development aid: exercise the slot resolver (engine/py/ddoverif/canon.py) on the fact base of the current tree — every inherent
method, every struct field and every type of the crate is renamed (one at a time, then in random groups) in a copy of the raw fact
document; the resolver must map each back to its reference name and reproduce the original document exactly."""
import json, os, random, sys, copy
HERE = os.path.dirname(os.path.abspath(__file__))
sys.path.insert(0, os.path.join(HERE, '..', 'engine', 'py'))
os.environ['VERIF_NO_CANON'] = '1'
from ddoverif import extract, canon

doc, info = extract.extract('dev')
ref = json.load(open(canon.REF))
base = json.dumps(doc, sort_keys=True)
cands = []
for owner, ms in ref['methods'].items():
    for m, v in ms.items():
        cands.append(('method', owner, m, v['path']))
for adt, fs in ref['fields'].items():
    for f in fs:
        cands.append(('field', adt, f, None))
for adt in ref['adts']:
    cands.append(('type', adt.rsplit('::', 1)[0], adt, None))


def rename(d, c, suffix='_zz'):
    kind, owner, name, path = c
    if kind == 'method':
        return canon._rewrite(d, {}, {path: path + suffix}, {})
    if kind == 'field':
        return canon._rewrite(d, {}, {}, {(owner, name): name + suffix})
    return canon._rewrite(d, {name: name + 'Zz'}, {}, {})


bad = 0
n = 0
for c in cands:
    d2 = rename(json.loads(base), c)
    d3, notes = canon.resolve(d2, ref)
    ok = json.dumps(d3, sort_keys=True) == base and len(notes) == 1
    n += 1
    if not ok:
        bad += 1
        print('NOT RESOLVED', c[:3], notes)
print('single renames: %d, unresolved: %d' % (n, bad))
rnd = random.Random(7)
gb = 0
G = int(sys.argv[1]) if len(sys.argv) > 1 else 40
for g in range(G):
    cs = rnd.sample(cands, 6)
    # a type rename changes the owner string of its methods / fields: keep groups to distinct owners
    if len(set(c[1] for c in cs) | set(c[2] for c in cs if c[0] == 'type')) < 6 + len([c for c in cs if c[0] == 'type']):
        continue
    d2 = json.loads(base)
    for c in cs:
        if c[0] != 'type':
            d2 = rename(d2, c)
    for c in cs:
        if c[0] == 'type':
            d2 = rename(d2, c)
    d3, notes = canon.resolve(d2, ref)
    if json.dumps(d3, sort_keys=True) != base:
        gb += 1
        print('GROUP NOT RESOLVED', [c[:3] for c in cs], [(x['reference'], x['current']) for x in notes])
print('group renames: %d, unresolved: %d' % (G, gb))
sys.exit(1 if bad or gb else 0)
