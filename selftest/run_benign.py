#!/usr/bin/env python3
"""Development aid: run every check against behaviour-preserving refactorings (selftest/benign/<id>.diff); any VIOLATION is a false alarm."""
import glob, os, subprocess, sys
HERE = os.path.dirname(os.path.abspath(__file__))
sys.path.insert(0, os.path.join(HERE, '..', 'engine', 'py'))
from ddoverif import props
ALL = sorted(props.PROPS)
sel = sys.argv[1:]
bad = 0
for f in sorted(glob.glob(os.path.join(HERE, 'benign', '*.diff'))):
    name = os.path.basename(f)[:-5]
    if sel and not any(s in name for s in sel):
        continue
    r = subprocess.run([os.path.join(HERE, 'mut.sh'), f, '--'] + ALL, stdout=subprocess.PIPE, stderr=subprocess.STDOUT, text=True)
    if 'DOES NOT APPLY' in r.stdout or 'extraction failed' in r.stdout:
        print('%-22s BUILD/APPLY-ERROR' % name); bad += 1; continue
    fired = sorted(set(l.split('property=')[1].split()[0] for l in r.stdout.splitlines() if l.startswith('VIOLATION')))
    rules = sorted(set(l.split(' rule ')[1].split(':')[0] for l in r.stdout.splitlines() if ' rule ' in l))
    print('%-22s %s %s' % (name, 'ok' if not fired else 'FALSE-ALARM ' + str(fired), rules if fired else ''))
    if fired: bad += 1
print('false alarms:', bad)
