//! E4 — compile-fail witnesses (type-level remainder of C03 / C18), each paired with a compiling twin that differs only
//! by the offending line. Run with `cargo +nightly test --doc --offline` (error codes are honoured on nightly only).
//!
//! W1: a model that is not `Sync` cannot be handed to the parallel solver (so the shared `Shared` state, the cache and
//!     the dominance checker are only ever used through `&self` from several threads with `Sync` data).
//! W2: the critical section data (`Critical`) cannot be named from outside `parallel.rs`: the lock-region rules of C03
//!     cover every access.

/// Shared prelude of W1 (a tiny model). `$field` is the only thing that differs between the witness and its twin.
#[macro_export]
macro_rules! w1_model {
    ($fieldty:ty, $init:expr) => {
        use ddo::*;
        use std::sync::Arc;
        pub struct P { pub n: usize, pub marker: $fieldty }
        impl Problem for P {
            type State = usize;
            fn nb_variables(&self) -> usize { self.n }
            fn initial_state(&self) -> usize { 0 }
            fn initial_value(&self) -> isize { 0 }
            fn transition(&self, s: &usize, d: Decision) -> usize { *s + d.value as usize }
            fn transition_cost(&self, _: &usize, _: &usize, d: Decision) -> isize { d.value }
            fn next_variable(&self, depth: usize, _: &mut dyn Iterator<Item = &usize>) -> Option<Variable> {
                if depth < self.n { Some(Variable(depth)) } else { None }
            }
            fn for_each_in_domain(&self, variable: Variable, _: &usize, f: &mut dyn DecisionCallback) {
                f.apply(Decision { variable, value: 0 });
                f.apply(Decision { variable, value: 1 });
            }
        }
        pub struct R;
        impl Relaxation for R {
            type State = usize;
            fn merge(&self, states: &mut dyn Iterator<Item = &usize>) -> usize { *states.max().unwrap() }
            fn relax(&self, _: &usize, _: &usize, _: &usize, _: Decision, cost: isize) -> isize { cost }
        }
        pub struct K;
        impl StateRanking for K {
            type State = usize;
            fn compare(&self, a: &usize, b: &usize) -> std::cmp::Ordering { a.cmp(b) }
        }
        pub fn solve() -> Option<isize> {
            let p = P { n: 3, marker: $init };
            let r = R;
            let k = K;
            let w = FixedWidth(2);
            let dom = EmptyDominanceChecker::default();
            let cutoff = NoCutoff;
            let mut fringe = SimpleFringe::new(MaxUB::new(&k));
            let mut solver = ParallelSolver::<usize, DefaultMDDLEL<usize>, EmptyCache<usize>>::custom(&p, &r, &k, &w, &dom, &cutoff, &mut fringe, 2);
            let _ = Arc::new(0usize);
            solver.maximize().best_value
        }
    };
}

/// W1 — a `!Sync` model is rejected by `ParallelSolver::custom`.
/// ```compile_fail,E0277
/// ddo_witness::w1_model!(std::cell::Cell<usize>, std::cell::Cell::new(0));
/// fn main() { let _ = solve(); }
/// ```
pub struct W1NotSyncRejected;

/// W1 twin — the same program with a `Sync` field compiles (and solves the toy problem).
/// ```
/// ddo_witness::w1_model!(std::sync::atomic::AtomicUsize, std::sync::atomic::AtomicUsize::new(0));
/// fn main() { assert_eq!(Some(3), solve()); }
/// ```
pub struct W1Twin;

/// W2 — the data protected by the critical mutex cannot be named from outside the module.
/// ```compile_fail,E0603
/// use ddo::implementation::solver::parallel::Critical;
/// fn main() {}
/// ```
pub struct W2CriticalIsPrivate;

/// W2 twin — the public face of the same module is nameable.
/// ```
/// use ddo::ParallelSolver;
/// fn main() { let _ = std::mem::size_of::<Option<&ParallelSolver<usize, ddo::DefaultMDDLEL<usize>, ddo::EmptyCache<usize>>>>(); }
/// ```
pub struct W2Twin;

/// W3 — the stores used concurrently only offer `&self` methods for updates: a `SimpleCache` behind a shared reference
/// can be updated (compiling twin) …
/// ```
/// use ddo::*;
/// use std::sync::Arc;
/// fn upd(c: &SimpleCache<usize>) { c.update_threshold(Arc::new(1), 0, 3, false); }
/// fn main() { let _ = upd; }
/// ```
pub struct W3Twin;

/// W3 — … but cannot be re-initialised through it (`initialize` needs `&mut self`): layers cannot be swapped under a
/// running search.
/// ```compile_fail,E0596
/// use ddo::*;
/// struct P;
/// fn reinit(c: &SimpleCache<usize>, p: &dyn Problem<State = usize>) { c.initialize(p); }
/// fn main() {}
/// ```
pub struct W3InitializeNeedsMut;
